use flac_codec::encode::{FlacSampleWriter, Options};
use std::io::{Cursor, Seek, SeekFrom, Write};

struct Faulty {
    inner: Cursor<Vec<u8>>,
    calls: usize,
    fail_at: usize,
}
impl Write for Faulty {
    fn write(&mut self, buf: &[u8]) -> std::io::Result<usize> {
        self.calls += 1;
        if self.calls == self.fail_at {
            return Err(std::io::Error::new(std::io::ErrorKind::Other, "injected"));
        }
        self.inner.write(buf)
    }
    fn flush(&mut self) -> std::io::Result<()> {
        self.inner.flush()
    }
}
impl Seek for Faulty {
    fn seek(&mut self, pos: SeekFrom) -> std::io::Result<u64> {
        self.inner.seek(pos)
    }
}

#[test]
fn finalize_after_failed_write_does_not_panic() {
    let samples: Vec<i32> = (0..65536).map(|i| ((i * 7) % 200) as i32 - 100).collect();
    for fail_at in (1..20000).step_by(37) {
        let w = Faulty { inner: Cursor::new(Vec::new()), calls: 0, fail_at };
        let mut enc = match FlacSampleWriter::new(w, Options::default(), 44100, 16, 1, None) {
            Ok(e) => e,
            Err(e) => { continue }
        };
        let r = enc.write(&samples);
        eprintln!("fail_at {fail_at}: write -> {:?}", r.as_ref().err());
        if r.is_err() {
            // a failed write must leave a writer whose finalize returns (Ok or Err), not one that panics
            let f = std::panic::catch_unwind(std::panic::AssertUnwindSafe(|| enc.finalize()));
            eprintln!("   finalize -> {:?}", f.as_ref().map(|r| r.as_ref().err().map(|e| format!("{e:?}"))).map_err(|_| "PANIC"));
            assert!(f.is_ok(), "finalize panicked after a failed write (fail_at {fail_at})");
        }
    }
}
