#!/usr/bin/env python3
"""regenerates MANIFEST.json from the rule modules' META and the table below"""
import json, os, sys, importlib
HERE = os.path.dirname(os.path.abspath(__file__))
sys.path.insert(0, os.path.join(HERE, "analysis"))
props = [json.loads(l) for l in open(os.path.join(HERE, "properties.jsonl"))]
CLAIMS = json.load(open(os.path.join(HERE, "spec", "claims.json")))
checks, na = [], []
for p in props:
    pid = p["id"]
    c = CLAIMS.get(pid)
    modp = os.path.join(HERE, "analysis", "rules", pid + ".py")
    if not c and os.path.exists(modp):
        import ast, re
        src = open(modp).read()
        doc = ast.get_docstring(ast.parse(src)) or ""
        mod = importlib.import_module("rules." + pid)
        c = {"level": mod.META["level"], "text": re.sub(r"\s+", " ", doc.split("\n", 1)[1] if "\n" in doc else doc).strip(),
             "note": "Trusted: rustc MIR + callee resolution; call-graph over-approximation rules; dependency summaries (analysis/panics.py SUMMARIES); reviewed audit tables under spec/. " + mod.META.get("explanation", ""),
             "technique": "static analysis: " + mod.META["rule"]}
    if not c or c.get("not_applicable"):
        na.append({"property_id": pid, "reason": (c or {}).get("not_applicable", "no static rule built yet for this property")})
        continue
    if not os.path.exists(os.path.join(HERE, "analysis", "rules", pid + ".py")):
        na.append({"property_id": pid, "reason": "rule module not built yet"})
        continue
    checks.append({
        "property_id": pid,
        "quick_cmd": "./check %s quick" % pid,
        "thorough_cmd": "./check %s thorough" % pid,
        "evidence_file": "/verif/evidence/%s.json" % pid,
        "replay_cmd_template": "./check --replay {path}",
        "engine": "flacfacts+rules",
        "level_claimed": {"category": c["level"], "text": c["text"], "design_ref": c.get("design_ref", "DESIGN.md section 6 " + pid)},
        "level_note": c["note"],
        "technique": c["technique"],
    })
m = {
    "version": 1,
    "setup_cmd": "cd /verif/driver && CARGO_NET_OFFLINE=true cargo build --offline",
    "hooks": {
        "guard": "flac_codec_verif",
        "enable": "none needed: the checks read the compiler's MIR of /repo's working tree (private items included); no source hooks exist",
        "baseline_off_cmd": "cd /repo && cargo nextest run --workspace --no-fail-fast --tool-config-file pb:/w/lib/nextest.toml --profile pb --test-threads 8 --offline",
        "source_commits": [],
        "add_only": True,
    },
    "engines": [
        {"name": "flacfacts", "path": "driver/src/main.rs", "serves_properties": [c["property_id"] for c in checks],
         "kind_free_text": "rustc_private driver: dumps MIR (after drop elaboration, mir-opt-level 0, overflow checks + debug assertions on), resolved callees, ADTs, impls, evaluated statics/consts of /repo's current tree as JSON facts"},
        {"name": "rules", "path": "analysis/", "serves_properties": [c["property_id"] for c in checks],
         "kind_free_text": "Python engines over the fact base: call graph with dispatch rules, CFG dominance, Ok-implies abstract interpretation, interval-based panic-site audit, table/grammar extraction vs RFC 9639 tables, configuration diff, sibling agreement, unit inference"},
    ],
    "checks": checks,
    "not_applicable": na,
    "notes": "Family: static analysis only. Every check rebuilds the fact base from /repo's current working tree with the rustc_private driver and decides rule instances on the MIR; nothing executes flac-codec code. quick = all rule instances on the default-feature MIR; thorough = the same on the `--features rayon` MIR as well, plus a sensitivity self-test that re-applies the 241 confirmed seeded changes under /verif/seeded to a scratch copy and requires each to be reported. Genuine defects found on the pinned tree were repaired with 28 fix: commits in /repo (listed as fixed: in /verif/known_findings.txt); one finding is left open on purpose and listed there as known: (KF29, C11: an all-zero MD5 cannot round-trip), for which check C11 prints a KNOWN-FINDING line and exits 0. See DESIGN.md section 9 for what was built, what each check decides and what it does not.",
}
json.dump(m, open(os.path.join(HERE, "MANIFEST.json"), "w"), indent=1)
print("checks:", [c["property_id"] for c in checks]); print("not applicable:", [n["property_id"] for n in na])
