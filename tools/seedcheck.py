#!/usr/bin/env python3
"""seedcheck.py <patch.diff> <Cxx> [<Cyy>...] : apply a patch to a scratch copy of /repo HEAD and run the given checks on it"""
import os, shutil, subprocess, sys, tempfile
patch = os.path.abspath(sys.argv[1])
props = sys.argv[2:]
tmp = tempfile.mkdtemp(prefix="seedcheck-")
try:
    subprocess.check_call("git -C /repo archive HEAD | tar -x -C %s" % tmp, shell=True)
    shutil.copy("/repo/Cargo.lock", tmp)
    r = subprocess.run(["git", "apply", "--directory", tmp, "--unsafe-paths", patch], cwd="/", capture_output=True, text=True)
    if r.returncode != 0:
        r = subprocess.run(["patch", "-p1", "-d", tmp, "-i", patch], capture_output=True, text=True)
        if r.returncode != 0:
            print("PATCH DOES NOT APPLY", r.stdout, r.stderr)
            sys.exit(3)
    env = dict(os.environ, VERIF_REPO=tmp, VERIF_EVIDENCE_DIR=os.path.join(tmp, "evidence"))
    for c in ("DEFAULT", "RAYON"):
        env.pop("VERIF_FACTS_" + c, None)
    # share one extraction between the properties
    sys.path.insert(0, "/verif/analysis")
    import run
    os.environ["VERIF_REPO"] = tmp
    run.REPO = tmp
    F, s = run.extract("default", tmp, keep=os.path.join(tmp, "facts-default.json"))
    env["VERIF_FACTS_DEFAULT"] = os.path.join(tmp, "facts-default.json")
    caught = []
    for p in props:
        r = subprocess.run(["python3", "/verif/analysis/run.py", p, "quick"], env=env, capture_output=True, text=True, cwd="/verif")
        v = [l for l in r.stdout.splitlines() if l.startswith("  rule=")]
        print("%s: exit %d, %d violation(s)" % (p, r.returncode, len(v)))
        for l in v[:6]:
            print("   ", l.strip()[:300])
        if r.returncode not in (0, 1):
            print(r.stdout[-2000:], r.stderr[-3000:])
        if r.returncode == 1:
            caught.append(p)
    print("CAUGHT BY:", caught)
finally:
    shutil.rmtree(tmp, ignore_errors=True)
