#!/bin/sh
# run every check (quick by default) in parallel and print the summary lines; "cached" as 2nd arg reuses /verif/work facts
tier=${1:-quick}
cd /verif
if [ "$2" = cached ]; then export VERIF_FACTS_DEFAULT=/verif/work/facts-default.json VERIF_FACTS_RAYON=/verif/work/facts-rayon.json VERIF_EVIDENCE_DIR=/dev/shm/ev; fi
for i in 01 02 03 04 05 06 07 08 09 10 11 12 13 14 15 16 17 18 19 20; do
  ( ./check C$i $tier > /dev/shm/out_C$i.txt 2>&1; echo "exit=$? $(tail -1 /dev/shm/out_C$i.txt)" ) &
done 2>/dev/null
wait
