#!/usr/bin/env python3
"""(re)generates spec/audit_panics.json from the reviewed reason table below and the current undischarged
site list (work/undischarged.json).  A key without a reviewed reason is NOT added: it stays a violation."""
import json, re, sys
from collections import Counter

R = []   # (regex on key, reason)


def r(pat, why):
    R.append((re.compile(pat), why))


# ---- I/O adaptors -------------------------------------------------------------------------------
r(r"^<Counter<F> as std::io::(Read|Write)>::(read|write)::\{closure\}\|assert\|Overflow:Add:u64", "byte counter: would need 2^64 bytes through one stream")
r(r"^<crc::Crc(Reader|Writer)<.*>::(read|write)::\{closure\}\|index\|", "buf[0..amt]: amt <= buf.len() is the std::io::Read/Write contract of the inner stream (trusted base)")
r(r"LimitedReader<R> as std::io::Read>::read::\{closure\}\|overflow-call\|::sub_assign", "amt_read <= size because the inner reader was handed buf[0..size] (std::io::Read contract)")
r(r"LimitedReader<R> as std::io::Read>::read\|index\|", "buf[0..size] with size = self.size.min(buf.len())")
# ---- byteorder ---------------------------------------------------------------------------------------
r(r"^<byteorder::.*>::bytes_to_i24\|assert\|Overflow:Add:i32", "(x & 0x7FFFFF) + (-2^23) lies in [-2^23, -1]")
r(r"^<byteorder::.*>::i24_to_bytes\|assert\|Overflow:Sub:i32", "only evaluated for sample < 0: sample + 2^23 cannot overflow")
r(r"^<byteorder::BigEndian as byteorder::Endianness>::bytes_to_le\|nonzero-arg\|", "bytes_per_sample = ceil(bits/8) with bits >= 1 (SignedBitCount), so >= 1")
# ---- FlacByteReader::seek -------------------------------------------------------------------------------
r(r"FlacByteReader<R, E> as std::io::Seek>::seek::\{closure\}\|assert\|Overflow:Mul:u64", "total_samples < 2^36 (36-bit field) times bytes per PCM frame <= 32")
r(r"FlacByteReader<R, E> as std::io::Seek>::seek\|assert\|Div0:u64", "bytes_per_pcm_frame = ceil(bits/8) * channels with bits >= 1 and channels NonZero")
r(r"FlacByteReader<R, E> as std::io::Seek>::seek\|assert\|Overflow:Mul:u32", "ceil(32/8) * 8 channels = 32")
r(r"FlacByteReader<R, E> as std::io::Seek>::seek\|assert\|Overflow:Mul:u64", "current_sample (or the seek result <= requested sample = desired_pos / bpf) times bytes per PCM frame (<= 32); current_sample <= 2^36 for declared totals, unbounded streams would need 2^59 samples")
r(r"FlacByteReader<R, E> as std::io::Seek>::seek\|assert\|Overflow:Sub:u64", "buffered bytes never exceed the bytes of the frames decoded so far (buf holds the tail of the last frame); desired_pos - new_pos only under the loop condition new_pos < desired_pos")
r(r"FlacByteReader<R, E> as std::io::Seek>::seek\|assert\|Overflow:Add:u64", "new_pos + to_skip <= desired_pos")
# ---- writers' front ends -----------------------------------------------------------------------------------
r(r"^(<encode::FlacByteWriter<W, E> as std::io::Write>::write|encode::Flac(Sample|Channel)Writer::write)\|assert\|Overflow:Add:usize", "frame counter of one write call")
r(r"^(<encode::FlacByteWriter<W, E> as std::io::Write>::write|encode::Flac(Sample|Channel)Writer::write)\|assert\|Overflow:Mul:usize", "frame size x encoded frames <= buffer length")
r(r"^(<encode::FlacByteWriter<W, E> as std::io::Write>::write|encode::Flac(Sample|Channel)Writer::write)\|length-arg\|VecDeque::drain", "drains exactly the frames just taken from the same buffer by chunks_exact_mut")
r(r"^(<encode::FlacByteWriter<W, E> as std::io::Write>::write|encode::FlacSampleWriter::write|encode::FlacChannelWriter::write::\{closure\})\|nonzero-arg\|slice::chunks_exact_mut", "frame size = pcm frame size x block_size with channels >= 1 (validated by Encoder::new before the writer exists), bytes per sample >= 1, block_size >= 16 (Options)")
r(r"^encode::Flac(Byte|Sample)Writer::finalize_inner\|assert\|(Overflow:Sub:usize|Rem0:usize)", "len - len % pcm_frame_size with pcm_frame_size >= 1 (channels validated by Encoder::new)")
r(r"^encode::Flac(Byte|Sample)Writer::finalize_inner\|index\|", "..(len - len % k) <= len")
r(r"^encode::FlacChannelWriter::finalize_inner\|index\|", "channel_bufs has one entry per channel, channels >= 1")
# ---- Partition zig-zag ------------------------------------------------------------------------------------------
r(r"Partition<'_, RICE_MAX> as bitstream_io::ToBitStream>::to_writer::\{closure\}\|assert\|Overflow:Neg:i32", "Partition::new refuses slices containing i32::MIN (guard checked by rule C02.resid)")
r(r"Partition<'_, RICE_MAX> as bitstream_io::ToBitStream>::to_writer::\{closure\}\|assert\|Overflow:(Sub|Add):u32", "for s < 0: -s >= 1 so -s - 1 >= 0; ((x << 1) + 1) with x << 1 even")
# ---- metadata blocks ------------------------------------------------------------------------------------------------
r(r"^<metadata::BlockSize as std::convert::From<metadata::BlockBits>>::from\|panic\|", "every block serialiser writes whole bytes (field widths sum to multiples of 8; checked by C11.gram)")
r(r"^<metadata::Cuesheet as bitstream_io::ToBitStream>::to_writer\|unwrap:Result\|", "tracks is Contiguous<99> / Contiguous<254>: len + 1 <= 255")
r(r"^<metadata::Padding as bitstream_io::(FromBitStreamUsing>::from_reader|ToBitStream>::to_writer)\|assert\|Overflow:Mul:u32", "BlockSize <= 2^24 - 1, times 8 < 2^27")
r(r"^<metadata::Streaminfo as bitstream_io::FromBitStream>::from_reader\|unwrap:Option\|", "5-bit count + 1 is in 1..=32: a valid signed bit count")
r(r"^<metadata::Streaminfo as bitstream_io::ToBitStream>::to_writer\|unwrap:Option\|", "bits_per_sample.count() >= 1 (SignedBitCount), so count - 1 exists and is <= 31")
r(r"^<metadata::cuesheet::CDDAOffset as std::ops::(Add|Sub)>::(add|sub)\|assert\|", "public operator on caller-supplied offsets; the crate's own uses are guarded (parser compares before subtracting, accessors use saturating arithmetic)")
r(r"CDDAOffset as std::str::FromStr>::from_str::\{closure\}\|assert\|", "ff < 75 and ss < 60 are filtered first: ff + ss * 75 < 4575")
r(r"cuesheet::Track<metadata::cuesheet::CDDAOffset, std::num::NonZero<u8>, metadata::cuesheet::IndexVec<100, .*to_writer\|unwrap:Result\|", "IndexVec<100, _> holds at most 100 points")
r(r"^metadata::ChannelMask::from_channels\|panic\|", "channel count comes from NonZero<u8> built from a 3-bit field + 1 (1..=8); other values only from a caller's own Metadata impl")
r(r"^metadata::Cuesheet::track_byte_ranges\|panic\|", "documented argument contract (channel_count > 0, bits_per_sample > 0) on caller-supplied parameters, not on parsed data")
r(r"^metadata::Metadata::decoded_len::\{closure\}\|assert\|Overflow:Mul:u64", "total < 2^36 x channels <= 8 (or <= 255 for foreign impls) x bytes <= 4")
r(r"^metadata::Metadata::duration::\{closure\}\|assert\|(Div0|Rem0):u64", "guarded by filter(|_| sample_rate > 0) (machine-checked by rule C12.guard.duration)")
r(r"^metadata::Metadata::duration::\{closure\}\|assert\|Overflow:Mul:u64", "(s % rate) < 2^32 times 10^9 < 2^62")
r(r"^metadata::Metadata::duration::\{closure\}\|overflow-call\|Duration::new", "nanos = (s % rate) * 10^9 / rate < 10^9: no carry into seconds")
r(r"^metadata::ParsedCuesheet::parse::unquote\|(assert\|Overflow:Sub:usize|index\|)", "guarded by s.len() > 1 and both ends being the one-byte '\"' (machine-checked by rule C12.guard.unquote)")
r(r"^metadata::ParsedCuesheet::parse\|generic-arith\|Sub:O", "guarded by the comparison offset >= track offset immediately before (rule C12.guard.cuesub)")
r(r"^metadata::VorbisComment::(all|insert|remove|replace_with)\|panic\|", "documented contract on the caller-supplied field name (no '='); the crate itself only passes constants without '='")
r(r"^metadata::update_file\|assert\|Overflow:Sub:u64", "each difference is taken in the Ordering arm where it is positive (rule C10.dir)")
# ---- stream.rs ---------------------------------------------------------------------------------------------------------
r(r"ResidualPartition<RICE_MAX, I> as bitstream_io::FromBitStreamUsing>::from_reader::\{closure\}\|assert\|Overflow:Shl:u32|^decode::read_residuals::read_block::\{closure\}\|assert\|Overflow:Shl:u32", "shift by the Rice parameter: a BitCount<RICE_MAX> below the escape value, i.e. <= 30")
r(r"(ResidualPartition<RICE_MAX, I> as bitstream_io::FromBitStreamUsing>::from_reader::\{closure\}|^decode::read_residuals::read_block::\{closure\})\|generic-arith\|(Neg|Sub):I", "-(u >> 1) - 1 with u >> 1 <= 2^31 - 1 stays >= -2^31 in i32 (and trivially in i64)")
r(r"ResidualPartition<RICE_MAX, I> as bitstream_io::ToBitStream>::to_writer\|assert\|Overflow:Add:u32", "(x << 1) is even, + 1 cannot carry")
r(r"read_partitions::\{closure\}\|assert\|Div0:usize", "partition_count = 1 << order >= 1")
r(r"^<stream::Residuals<I> as bitstream_io::ToBitStream>::to_writer::write_partitions\|", "explicit assertions on a caller-built structure (non-empty power-of-two partition list); parsed structures always satisfy them (2^order partitions)")
r(r"^<stream::SubframeHeaderType as bitstream_io::ToBitStream>::to_writer\|", "order <= 4 / order <= 32 for every parsed or encoder-made header; larger orders only in caller-built values")
r(r"^stream::Frame::read_inner\|unwrap:Option\|", "taken only when bits_per_sample.checked_add(1) is None, i.e. bps = 32: 32 + 1 <= 33 fits SignedBitCount<33>")
r(r"^decode::read_subframes\|unwrap:Option\|Option::expect", "taken only when bits_per_sample.checked_add(1) is None, i.e. bps = 32: 32 + 1 <= 33 fits SignedBitCount<33>")
r(r"^stream::Frame::write_inner\|panic\|", "explicit assertions that a caller-built Frame has the subframe count its channel assignment needs; parsed frames satisfy them")
r(r"^stream::write_subframe\|panic\|", "explicit assertions on a caller-built Subframe (warm-up / coefficient counts equal the order); parsed subframes satisfy them")
r(r"^stream::write_subframe\|unwrap:Result\|", "shift of a parsed subframe is 0..=15; larger only in caller-built values")
r(r"^stream::FrameNumber::try_increment\|assert\|Overflow:Add:u64", "guarded by self.0 < 2^36 - 1")
r(r"^(stream::Subframe::decode::predict|decode::predict)\|assert\|Bounds:", "residuals = channel[split..] with split < channel.len(): never empty")
r(r"^(stream::Subframe::decode::predict|decode::predict)\|length-arg\|slice::split_at_mut", "split ranges over coefficients.len()..channel.len(), so split < len")
r(r"^(stream::Subframe::decode::predict|encode::LpcSubframeParameters::encode_residuals)\|assert\|Overflow:Shr:i64", "shift is the 5-bit non-negative LPC shift (0..=15) for parsed / encoder-made parameters")
r(r"^stream::Subframe::decode::\{closure\}\|generic-arith\|Shl:I", "wasted_bps < bits-per-sample <= 33 for every parsed subframe (checked_sub on the bit count)")
r(r"^(stream::Subframe::decode|decode::read_subframe)\|assert\|Bounds:", "FIXED order comes from subframe type codes 8..=12: 0..=4")
r(r"^decode::read_subframe::\{closure\}\|generic-arith\|ShlAssign:I", "wasted_bps < bits-per-sample <= 33 (effective_bps = checked_sub succeeded)")
r(r"^decode::read_lpc_subframe\|index\|", "predictor order is NonZero<u8> from type codes 32..=63: 1..=32 = array length")
# ---- audio::Frame --------------------------------------------------------------------------------------------------------
r(r"^audio::Frame::bytes_len\|assert\|Overflow:Mul:usize", "<= 4 bytes x 8 channels x 65535 samples")
r(r"^audio::Frame::(channels|channels_mut)\|nonzero-arg\|", "channel_len is the block size of a decoded / about-to-be-encoded frame: >= 1 (block size codes exclude 0; every frame fill is shown non-empty by rule C15.guard 'fills its frame only with a non-empty block')")
r(r"^audio::Frame::fill_from_(buf|samples)\|assert\|Div0:usize", "self.channels is the channel count validated (1..=8) before the writer is constructed")
r(r"^audio::Frame::(fill_from_buf|to_buf)\|panic\|", "bytes_per_sample = ceil(bits/8) with bits in 1..=32: only 1..=4")
r(r"^audio::Frame::fill_from_channels\|", "channel list validated by FlacChannelWriter::write (count == channel count >= 1, equal lengths) / finalize (all buffers drained in lock-step)")
r(r"^audio::Frame::resized_channels\|nonzero-arg\|", "block size from the frame header: 1..=65535")
r(r"^audio::Frame::resized_stereo\|length-arg\|", "buffer was just resized to 2 x block_size")
r(r"^audio::Frame::resize\|assert\|Overflow:Mul:usize", "channels <= 8 x block size <= 65535")
# ---- decoder front ends ------------------------------------------------------------------------------------------------
r(r"^decode::Decoder::read_frame\|assert\|Overflow:Add:u64", "current_sample + block size: bounded by the declared total (<= 2^36) or would need 2^64 samples")
r(r"^decode::Decoder::seek\|panic\|", "the point was selected by the filter sample_offset <= sample")
r(r"^decode::FlacChannelReader::consume\|assert\|Overflow:Add:usize|^decode::FlacSampleReader::consume\|length-arg\|", "BufRead::consume-style caller contract: amt <= what fill_buf returned")
r(r"^decode::FlacChannelReader::fill_buf::\{closure\}\|index\|", "taken only when consumed < pcm_frames = each channel's length")
r(r"^decode::Flac(Channel|Sample)Reader::seek\|assert\|Overflow:(Add|Sub):u64", "loop invariant pos < sample; to_consume <= sample - pos")
r(r"^decode::FlacSampleReader::seek\|assert\|Overflow:Mul:usize", "to_consume <= buffered PCM frames; x channels = buffered samples")
r(r"^decode::FlacChannelReader::seek\|index\|", "fill_buf returns one slice per channel, channels >= 1")
r(r"^decode::FlacSampleReader::read_to_end\|assert\|Overflow:Add:usize", "total decoded samples held in memory")
r(r"^decode::FlacSampleReader::read\|length-arg\|", "to_consume = min(samples.len(), buf.len())")
r(r"^decode::FlacStreamReader::read\|overflow-call\|::shr", "u8 >> 1")
r(r"^decode::read_residuals::read_block\|nonzero-arg\|", "guarded by block_size >= partition_count immediately before (rule C04.guard.rchunks)")
# ---- encoder ------------------------------------------------------------------------------------------------------------
r(r"^encode::Encoder::encode\|assert\|Overflow:Add:u64", "samples written: would need 2^64 samples")
r(r"^encode::Encoder::finalize_inner\|unwrap:Result\|", "points are ascending frame offsets followed by placeholders and capped at the table's size / MAX_POINTS (rule C09.cap)")
r(r"^encode::Encoder::new\|unwrap:Result\|", "placeholders are all Placeholder points capped at MAX_POINTS (rule C09.cap); the sample rate was validated < 2^20 a few lines above, for which SampleRate::try_from is total")
r(r"^encode::EncoderSeekPoint::placeholders::\{closure\}\|assert\|", "sample_offset ranges below total_samples")
r(r"^encode::EncoderSeekPoint::placeholders\|nonzero-arg\|", "block_size >= 16 (Options::block_size, private field)")
r(r"^encode::EncoderSeekPoint::range\|assert\|", "offset < 2^36 + 65535")
r(r"^encode::FlacStreamWriter::write\|assert\|Div0:usize", "the divisor is the channel count, shown to be 1..=8 by the contains() test directly above (the other arm returns ExcessiveChannels)")
r(r"^encode::FlacStreamWriter::write\|index\|::index_mut", "caches.channels is resized to the channel count (>= 1) on the line above the [0] index")
r(r"^encode::FlacStreamWriter::write\|unwrap:Result\|Result::expect", "block size of a frame whose PCM-frame count already passed BlockSize::try_from (1..=65535); channel count already shown to be 1..=8")
r(r"^encode::FlacStreamWriter::write\|unwrap:Result\|Result::unwrap", "get_disjoint_mut([0, 1]) right after resize_with(2, ..)")
r(r"^encode::LpcParameters::best\|panic\|", "unreachable: an empty channel returns InsufficientLpcSamples first (len <= max order)")
r(r"^encode::LpcParameters::best\|unwrap:Result\|", "channel length <= block size <= 65535")
r(r"^encode::LpcParameters::quantize", "precision is one of the constants 7..=13; shift is clamped to -16..=15")
r(r"^encode::LpcSubframeParameters::encode_residuals\|(assert\|Bounds:|length-arg\||index\|)", "split ranges over order..len with order < len (LpcParameters::best rejects len <= max order)")
r(r"^encode::LpcSubframeParameters::encode_residuals\|overflow-sum\|", "<= 32 products of a 32-bit sample and a <= 13-bit coefficient: < 2^50")
r(r"^encode::SeekTableInterval::filter", "seconds <= 255 times sample rate < 2^20; offsets stay below the stream length + one interval")
r(r"^encode::Window::generate\|", "window length = block length <= 65535; np < len / 2 for p in (0, 1)")
r(r"^encode::autocorrelate\|capacity\|", "at most max_lpc_order + 1 <= 33 pushes into ArrayVec<_, 33>")
r(r"^encode::autocorrelate\|panic\|", "debug assertion order <= 32, guaranteed by Options::max_lpc_order")
r(r"^encode::correlate_channels::\{closure\}(::\{closure\})?\|assert\|Overflow:Add:u64|^encode::correlate_channels\|assert\|Overflow:Add:u64", "sums of <= 65535 magnitudes below 2^32")
r(r"^encode::correlate_channels(_exhaustive)?::\{closure\}(::\{closure\})?\|overflow-call\|::(add|sub)", "only when bits-per-sample <= 31 (checked_add(1) is Some): in-range samples have |x| <= 2^30, so l + r and l - r fit i32")
r(r"^encode::correlate_channels_exhaustive\|assert\|Overflow:Add:u32", "bits written by two subframes of <= 65535 x 33 bits")
r(r"^encode::correlate_channels(_exhaustive)?\|panic\|", "MidSide is not among the candidates of this arm")
r(r"^encode::correlate_channels(_exhaustive)?\|unwrap:Option\|", "min over a non-empty array literal")
r(r"^encode::encode_fixed_subframe", "fixed_orders holds the channel plus at most 4 difference buffers (capacity 5), each shorter by one and non-empty; order k only exists when k < len")
r(r"^encode::encode_frame\|", "frame has 1..=8 channels of one non-empty block (<= 65535 samples): guaranteed by the three front-ends (rule C08.trunc) ; caches resized before indexing")
r(r"^encode::encode_subframe::\{closure\}\|overflow-call\|::shr", "wasted_bps is a trailing-zero count below 32")
r(r"^encode::encode_subframe\|assert\|Bounds:|^encode::encode_subframe\|panic\|", "channel is one non-empty block")
r(r"^encode::encode_subframe\|assert\|Overflow:Mul:u32", "<= 65535 samples x <= 33 bits")
r(r"^encode::encode_subframe\|unwrap:Option\|", "wasted_bps < bits-per-sample for in-range samples (a sample with bps or more trailing zeros would be out of range); min over a two-element array")
r(r"^encode::exact_div", "divisor checked against zero first (rhs != 0 && ..)")
r(r"^encode::generate_seektable::\{closure\}::\{closure\}\|assert\|", "frame offset is counted from the start of the file, the metadata length is what the same counter had after the blocks")
r(r"^encode::generate_seektable::\{closure\}::\{closure\}\|assert\|", "running sample offset of a stream")
r(r"^encode::generate_seektable::\{closure\}\|unwrap:Result\|", "ascending frame offsets capped at MAX_POINTS (rule C09.cap)")
r(r"^encode::lp_coefficients\|", "autocorrelate returns max_order + 1 >= 2 values because the channel is longer than the order; <= 32 coefficient sets of <= 32 coefficients")
r(r"^encode::subframe_bits_by_order", "order <= 32 < sample_count; 32 x (33 + 15) bits")
r(r"^encode::update_md5\|panic\|", "bytes_per_sample = ceil(bits/8) with bits in 1..=32")
r(r"^encode::write_residuals::Partition::new\|", "partition <= 65535 samples; rice <= 30; sum >> (rice - 1) <= 2 x samples because rice = ceil(log2(sum / samples)); ilog2 only under sum > 0; sums of <= 65535 values below 2^32")
r(r"^encode::write_residuals::best_partitions::\{closure\}\|assert\|Overflow:Shl:usize", "partition order <= 6 (clamped to log2 of the partition buffer, rule C15.guard.partitions)")
r(r"^encode::write_residuals::best_partitions::\{closure\}\|", "partition_count = 2^order divides block_size (order <= trailing zeros of a non-zero block size): quotient >= 1")
r(r"^encode::write_residuals::write_partitions\|nonzero-arg\|", "best_partitions always returns at least one partition")

r(r"^(<audio::MultiZip<I> as std::iter::(FromIterator<I>>::from_iter|Iterator>::next)|audio::Frame::(iter|iter_mut)|encode::Encoder::encode|encode::FlacChannelWriter::finalize_inner|encode::FlacStreamWriter::write)\|capacity\|collect:ArrayVec<8>", "one item per channel; the channel count is 1..=8 (validated by Encoder::new / FlacStreamWriter::write, or decoded from the 4-bit channel assignment)")
r(r"^encode::LpcParameters::quantize\|capacity\|collect:ArrayVec<32>", "maps an ArrayVec<f64, 32> one to one")
r(r"^encode::lp_coefficients\|capacity\|collect:ArrayVec<32>", "order i + 1 <= 32 coefficients")
r(r"^encode::write_residuals::best_partitions::\{closure\}\|capacity\|collect:ArrayVec<64>", "at most 2^order <= 64 chunks because the order is clamped to log2(MAX_PARTITIONS) (rule C15.guard.partitions)")
r(r"^encode::write_residuals::best_partitions::\{closure\}\|capacity\|", "a single element")
r(r"^encode::write_residuals::try_reduce_rice\|capacity\|", "maps an ArrayVec<_, 64> one to one")

sys.path.insert(0, "/verif/analysis")
from facts import Facts, strip_generics
from core import CallGraph, callee_name
from panics import Program, enumerate_sites, discharge
from rules.groups import GROUPS
import loops

facts_path = sys.argv[1] if len(sys.argv) > 1 else "/verif/work/facts-default.json"
F = Facts(facts_path)
cg = CallGraph(F)
prog = Program(F)
roots = []
for g, fn in GROUPS.items():
    roots += fn(F)
reach = cg.reach(roots)
cnt = Counter()
example = {}
for k in sorted(reach):
    b = F.by_key.get(k)
    if b is None or b.promoted is not None:
        continue
    ss = enumerate_sites(b)
    if not ss:
        continue
    discharge(F, b, ss, prog.analysis(b))
    for s_ in ss:
        if not s_.discharged:
            cnt[s_.key()] += 1
            example.setdefault(s_.key(), s_.loc())
out = {}
missing = []
for k, n in sorted(cnt.items()):
    why = None
    for pat, w in R:
        if pat.search(k):
            why = w
            break
    if why is None:
        missing.append(k)
        continue
    out[k] = {"n": n, "why": why}
json.dump(out, open("/verif/spec/audit_panics.json", "w"), indent=1)
print(len(out), "audited keys,", sum(v["n"] for v in out.values()), "sites;", len(missing), "keys without a reviewed reason")
for m in missing:
    print("  MISSING", m, example[m])

# ---------------------------------------------------------------------------------------------------------
# engine C tables
# ---------------------------------------------------------------------------------------------------------
LOOPS = {
    "<decode::FlacByteReader<R, E> as std::io::Seek>::seek": ("BufRead>::consume$|::consume$", "each trip consumes to_skip >= 1 buffered bytes (buffer non-empty, desired_pos > new_pos) or returns UnexpectedEof"),
    "decode::FlacChannelReader::seek": ("::consume$", "each trip consumes >= 1 PCM frame or returns InvalidSeek on an empty buffer"),
    "decode::FlacSampleReader::seek": ("::consume$", "each trip consumes >= 1 PCM frame or returns InvalidSeek on an empty buffer"),
    "decode::FlacSampleReader::read_to_end": ("::consume$", "each trip consumes the whole non-empty buffer; an empty buffer ends the loop"),
    "decode::FlacStreamReader::read": ("BufRead::skip_until$|::skip_until$", "skip_until consumes through the next 0xFF (>= 1 byte) or reaches end of input, where fill_buf returns [] and the function returns UnexpectedEof"),
    "metadata::trim_nulls": (None, "`while let [rest @ .., 0] = s { s = rest }`: the slice shrinks by one element per trip"),
    "metadata::PictureMetrics::try_jpeg": ("ByteRead>?::read$", "each trip reads at least the two marker bytes; end of data is an error that leaves the loop"),
    "metadata::PictureMetrics::try_png::plte_colors": ("ByteRead>?::read$", "each trip reads an 8-byte chunk header; end of data is an error that leaves the loop"),
}
ALLOCS = [
    (r"^<decode::FlacByteReader<R, E> as std::io::(Read>::read|BufRead>::fill_buf)\|resize$", "frame.bytes_len() <= 4 bytes x 8 channels x 65535 samples (about 2 MiB)"),
    (r"^audio::Frame::resize\|resize$", "channels <= 8 x block size <= 65535"),
    (r"^decode::read_subframes\|from_elem$", "one block: side.len() = block size <= 65535"),
    (r"\|read_to_vec$", "bitstream-io's read_to_vec fills in 4096-byte steps, so memory grows only as input is consumed; inside a metadata block it is additionally capped by the block's LimitedReader (< 16 MiB)"),
    (r"^metadata::contiguous::Contiguous::(try_collect|with_capacity)\|with_capacity$", "capacity = min(size hint, MAX): at most 932067 seek points (about 22 MiB), 254 tracks or 256 index points - a constant"),
    (r"^encode::", "encoder-side buffer sized by the caller's own block / input"),
    (r"^<encode::|^audio::Frame::fill_from", "encoder-side buffer sized by the caller's own input"),
    (r"^metadata::", "sized by caller-supplied or already bounded values"),
]
REC = [
    (r"BlockIterator", "BlockIterator::next calls itself once after the 4-byte tag is read (tag_read is then set); read_block's closures are its own lexical children: depth <= 2"),
    (r"^encode::Window::generate$", "Tukey(p >= 1) -> Hann and Tukey(NaN) -> Tukey(0.5): depth <= 2"),
    (r"Adjacent>::(is_next|valid_first)", "Track's Adjacent impl calls the Adjacent impls of its offset / number / index types: a fixed nesting of depth 2 (class-hierarchy over-approximation links them)"),
    (r"Counter>::checked_", "trait-dispatch over-approximation inside the bit counter; no self call in the source"),
    (r"as_block_ref", "&T forwards to T: one level per reference"),
    (r"::fmt$|Display", "Display impls write nested Display values of other types (class-hierarchy over-approximation)"),
    (r"from_iter|::from$|to_writer|BlockHeader::new|try_from|::into$", "conversion / serialiser dispatch over-approximation: the callee is an impl for another type (e.g. collect() into ArrayVec inside MultiZip::from_iter; bits::<BlockBits>() runs the block's own to_writer once into a counting writer)"),
]
SRC = {
    "encode::Encoder::finalize_inner": ("Iterator::take$", "repeat(Placeholder) is chained and cut with take(points_len)"),
    "metadata::write_blocks::iter_last": ("Peekable", "from_fn wraps a peekable finite iterator and ends when it does"),
    "encode::Window::generate": ("Iterator::zip$", "0u16.. is zipped with the window slice (<= 65535 elements)"),
    "encode::Window::generate::{closure}": ("", "n/a"),
    "encode::subframe_bits_by_order": ("Iterator::zip$", "1.. is zipped with at most 32 coefficient sets"),
    "decode::FlacChannelReader::fill_buf::{closure}": ("", "`&c[self.consumed..]` is a RangeFrom used as a slice index, not iterated"),
}
alo = {}
for k in sorted(reach):
    b = F.by_key.get(k)
    if b is None or b.promoted is not None:
        continue
    key = loops.fn_key(b)
    an = None
    for bi, t in b.calls():
        nm = callee_name(t)
        if loops.ALLOC.search(nm):
            if an is None:
                an = prog.analysis(b)
            st = an.state_at_term(bi)
            arg = t["a"][1] if len(t["a"]) > 1 else (t["a"][0] if t["a"] else None)
            if "from_elem" in nm or (re.search(r"with_capacity$", nm) and len(t["a"]) == 1):
                arg = t["a"][-1]
            v = an.operand(st, arg) if (st is not None and arg is not None) else None
            hi = getattr(v, "hi", None)
            if st is None or (hi is not None and hi <= loops.ALLOC_LIMIT):
                continue
            akey = "%s|%s" % (key, strip_generics(nm).rsplit("::", 1)[-1])
            alo[akey] = alo.get(akey, 0) + 1
allocs = {}
for akey, n in sorted(alo.items()):
    why = None
    for pat, w in ALLOCS:
        if re.search(pat, akey):
            why = w
            break
    if why is None:
        print("  MISSING ALLOC", akey)
        continue
    allocs[akey] = {"n": n, "why": why}
rec = []
for comp in loops.call_sccs(cg, reach):
    names = sorted({re.sub(r"\{closure#\d+\}", "{closure}", strip_generics(x) if not x.startswith("<") else x) for x in comp})
    why = None
    for pat, w in REC:
        if any(re.search(pat, n) for n in names):
            why = w
            break
    if why is None:
        print("  MISSING REC", names)
        continue
    rec.append({"members": names, "why": why})
json.dump({"loops": {k: {"progress": v[0], "why": v[1]} for k, v in LOOPS.items()}, "allocs": allocs, "recursion": rec,
           "infinite_sources": {k: {"consumer": v[0], "why": v[1]} for k, v in SRC.items()}}, open("/verif/spec/audit_loops.json", "w"), indent=1)
print(len(LOOPS), "loops,", len(allocs), "alloc keys,", len(rec), "recursion cycles audited")
