E = "src/encode.rs"; D = "src/decode.rs"; S = "src/stream.rs"; M = "src/metadata/mod.rs"; CU = "src/metadata/cuesheet.rs"
MUTS = [
 ("upd.no_copy", M, "        std::io::copy(&mut r, &mut tmp).map_err(Error::Io)?;\n", "", ["C10"]),
 ("upd.copy_first", M, "        write_blocks(&mut tmp, blocks)?;\n        std::io::copy(&mut r, &mut tmp).map_err(Error::Io)?;", "        std::io::copy(&mut r, &mut tmp).map_err(Error::Io)?;\n        write_blocks(&mut tmp, blocks)?;", ["C10"]),
 ("upd.start_zero", M, "let start = std::io::SeekFrom::Start(original.stream_position().map_err(Error::Io)?);", "original.stream_position().map_err(Error::Io)?;\n    let start = std::io::SeekFrom::Start(0);", ["C10"]),
 ("upd.grow_twice", M, "match grow_padding(&mut blocks, old_size - new_size) {", "match grow_padding(&mut blocks, old_size - new_size + 1) {", ["C10"]),
 ("upd.equal_no_seek", M, "            // blocks are the same size, so no need to adjust padding\n            original.seek(start).map_err(Error::Io)?;\n", "            // blocks are the same size, so no need to adjust padding\n", ["C10"]),
 ("upd.dryrun_other", M, "        write_blocks(&mut new_size, blocks.blocks())?;\n        new_size.count", "        write_blocks(&mut new_size, blocks.blocks())?;\n        new_size.count + 0 * old_size", ["C10"]),
 ("wb.last_flag", M, "Some((iter.peek().is_none(), item))", "Some((iter.peek().is_some(), item))", ["C11"]),
 ("wb.finished_flag", M, "self.finished = header.last;", "self.finished = !header.last;", ["C11", "C12"]),
 ("wb.size_zero_check", M, "                    match reader.into_reader().size {\n                        0 => {", "                    match reader.into_reader().size {\n                        _ if true => {", ["C11", "C05"]),
 ("vc.be_len", M, "            let size = r.read_as_to::<LittleEndian, u32>()?.try_into().unwrap();", "            let size = r.read_as_to::<BigEndian, u32>()?.try_into().unwrap();", ["C11"]),
 ("vc.count_minus", M, "            fields: (0..(r.read_as_to::<LittleEndian, u32>()?))", "            fields: (1..(r.read_as_to::<LittleEndian, u32>()?))", ["C11"]),
 ("vc.write_count_vendor", M, "        write_string(w, &self.vendor_string)?;\n        w.write_as_from::<LittleEndian, u32>(\n            self.fields\n                .len()", "        write_string(w, &self.vendor_string)?;\n        w.write_as_from::<LittleEndian, u32>(\n            self.vendor_string\n                .len()", ["C11"]),
 ("lim.size_min", M, "                let size = self.size.min(buf.len());\n                self.reader.read(&mut buf[0..size])", "                let size = self.size.max(buf.len()).min(buf.len());\n                self.reader.read(&mut buf[0..size])", ["C11", "C12", "C07"]),
]
