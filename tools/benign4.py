E = "src/encode.rs"; D = "src/decode.rs"; S = "src/stream.rs"; M = "src/metadata/mod.rs"; CU = "src/metadata/cuesheet.rs"; L = "src/lib.rs"; C = "src/crc.rs"; A = "src/audio.rs"
ALL = ["C01","C02","C03","C04","C05","C06","C07","C08","C09","C10","C11","C12","C13","C14","C15","C16","C17","C19","C20"]
MUTS = [
 ("b4.width_add7", A, "        self.bits_per_sample.div_ceil(8) as usize\n", "        ((self.bits_per_sample + 7) / 8) as usize\n", ALL),
 ("b4.byteslen_commute", A, "        self.bytes_per_sample() * self.samples.len()\n", "        self.samples.len() * self.bytes_per_sample()\n", ALL),
]
