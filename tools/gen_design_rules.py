#!/usr/bin/env python3
"""rewrites DESIGN.md section 9.6 (between RULES markers) from the rule modules' docstrings and the latest evidence"""
import ast, glob, json, os, re
out = []
for i in range(1, 21):
    pid = "C%02d" % i
    src = open("/verif/analysis/rules/%s.py" % pid).read()
    doc = ast.get_docstring(ast.parse(src)) or ""
    ev = {}
    try:
        ev = json.load(open("/verif/evidence/%s.json" % pid))
    except Exception:
        pass
    cov = ev.get("coverage", {})
    out.append("#### %s" % doc.split("\n", 1)[0])
    out.append("")
    out.append("```")
    out.append(doc.split("\n", 1)[1].strip("\n") if "\n" in doc else "")
    out.append("```")
    pr = cov.get("per_rule", {})
    if pr:
        out.append("Last run (%s tier): %d rule instances; per rule: %s." % (ev.get("tier"), cov.get("obligations", 0), ", ".join("%s %d" % (k, v["instances"]) for k, v in sorted(pr.items()))))
    out.append("")
txt = "\n".join(out)
p = "/verif/DESIGN.md"
s = open(p).read()
block = "<!-- RULES-BEGIN -->\n" + txt + "\n<!-- RULES-END -->"
if "<!-- RULES-BEGIN -->" in s:
    s = re.sub(r"<!-- RULES-BEGIN -->.*<!-- RULES-END -->", lambda _: block, s, flags=re.S)
else:
    marker = "---------------------------------------------------------------------------\n\n## Appendix A."
    sec = "### 9.6 What each check decides, as built (generated from the rule modules)\n\nEach block below is the docstring of `analysis/rules/<id>.py`: the rule families that make up the check, what each decides, and what is *not* decided. Where a family is shared between properties (because it is a necessary condition of several) it appears under each of them with that property's prefix.\n\n" + block + "\n\n"
    s = s.replace(marker, sec + marker, 1)
open(p, "w").write(s)
print("ok", len(txt))
