#!/usr/bin/env python3
"""rewrites DESIGN.md section 9.6 (between RULES markers) from the rule modules' docstrings and the latest evidence"""
import ast, glob, json, os, re
out = []
for i in range(1, 21):
    pid = "C%02d" % i
    src = open("/verif/analysis/rules/%s.py" % pid).read()
    doc = ast.get_docstring(ast.parse(src)) or ""
    ev = {}
    try:
        ev = json.load(open("/verif/evidence/%s.json" % pid))
    except Exception:
        pass
    cov = ev.get("coverage", {})
    out.append("#### %s" % doc.split("\n", 1)[0])
    out.append("")
    out.append("```")
    out.append(doc.split("\n", 1)[1].strip("\n") if "\n" in doc else "")
    out.append("```")
    pr = cov.get("per_rule", {})
    if pr:
        out.append("Last run (%s tier): %d rule instances; per rule: %s." % (ev.get("tier"), cov.get("obligations", 0), ", ".join("%s %d" % (k, v["instances"]) for k, v in sorted(pr.items()))))
    out.append("")
import subprocess
rows = []
for i in range(1, 21):
    pid = "C%02d" % i
    src = open("/verif/analysis/rules/%s.py" % pid).read()
    for m in re.finditer(r'compose\(ctx, rep, "(C\d\d)", "([^"]+)", r"([^"]+)"\)', src):
        rows.append("| %s | %s | %s | %s.* |" % (pid, m.group(1), m.group(3).strip("^$").replace("|", ", ").replace("\\.", "."), m.group(2)))
matrix = "Rule families composed from other modules (one level deep, `rules/common.py: compose`); function-level sharing (`C08.protocol`, `iolib.count_rules`, `C17.decoder_*_rules`, `castlib`, `cachelib`, `invlib`, ...) is listed in the module docstrings above.\n\n| check | takes from | families | reported as |\n|---|---|---|---|\n" + "\n".join(rows) + "\n"
out.append("#### Composition matrix  <!-- COMPOSE-MATRIX -->")
out.append("")
out.append(matrix)
txt = "\n".join(out)
p = "/verif/DESIGN.md"
s = open(p).read()
block = "<!-- RULES-BEGIN -->\n" + txt + "\n<!-- RULES-END -->"
if "<!-- RULES-BEGIN -->" in s:
    s = re.sub(r"<!-- RULES-BEGIN -->.*<!-- RULES-END -->", lambda _: block, s, flags=re.S)
else:
    marker = "---------------------------------------------------------------------------\n\n## Appendix A."
    sec = "### 9.6 What each check decides, as built (generated from the rule modules)\n\nEach block below is the docstring of `analysis/rules/<id>.py`: the rule families that make up the check, what each decides, and what is *not* decided. Where a family is shared between properties (because it is a necessary condition of several) it appears under each of them with that property's prefix.\n\n" + block + "\n\n"
    s = s.replace(marker, sec + marker, 1)
open(p, "w").write(s)
print("ok", len(txt))
