#!/usr/bin/env python3
"""rewrites the seeded-changes table in DESIGN.md (between the SEEDED-TABLE markers) from seeded/*/meta.json"""
import json, glob, os, re
rows = []
for f in sorted(glob.glob("/verif/seeded/*/meta.json")):
    m = json.load(open(f))
    rows.append(m)
out = ["| id | property | what was changed | reported by (rule) | detection |", "|---|---|---|---|---|"]
for m in rows:
    summ = re.sub(r"\s+", " ", m["summary"] or "")[:170].replace("|", "/")
    out.append("| %s | %s | %s | %s | %s |" % (m["id"], m["property"], summ, ", ".join(m["rules_firing"][:3]) or "-", m["detection"]))
by = {}
for m in rows:
    k = (m["round"], m["detection"])
    by[k] = by.get(k, 0) + 1
stats = "; ".join("round %d: %s" % (r, ", ".join("%d %s" % (n, d) for (rr, d), n in sorted(by.items()) if rr == r)) for r in sorted({k[0] for k in by}))
txt = "\n".join(out) + "\n\nCounts: " + stats + ".\n"
p = "/verif/DESIGN.md"
s = open(p).read()
if "<!-- SEEDED-TABLE-BEGIN -->" in s:
    s = re.sub(r"<!-- SEEDED-TABLE-BEGIN -->.*<!-- SEEDED-TABLE-END -->", lambda _: "<!-- SEEDED-TABLE-BEGIN -->\n" + txt + "<!-- SEEDED-TABLE-END -->", s, flags=re.S)
else:
    s = s.replace("SEEDED_TABLE_PLACEHOLDER", "<!-- SEEDED-TABLE-BEGIN -->\n" + txt + "<!-- SEEDED-TABLE-END -->")
open(p, "w").write(s)
print(stats)
