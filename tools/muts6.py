E = "src/encode.rs"; D = "src/decode.rs"; S = "src/stream.rs"; M = "src/metadata/mod.rs"; CU = "src/metadata/cuesheet.rs"; L = "src/lib.rs"; C = "src/crc.rs"
MUTS = [
 ("e13.flush_dropped", M, "        w.flush().map_err(Error::Io)\n", "        let _ = w.flush();\n        Ok(())\n", ["C13"]),
 ("e13.rebuild_write_swallowed", M, "            .and_then(|mut f| f.write_all(tmp.as_slice()))\n            .map_err(Error::Io)", "            .map(|mut f| {\n                let _ = f.write_all(tmp.as_slice());\n            })\n            .map_err(Error::Io)", ["C13", "C10"]),
 ("e13.final_write_ok", E, "            writer.seek(std::io::SeekFrom::Start(self.start))?;\n            write_blocks(writer.by_ref(), self.blocks.blocks())", "            writer.seek(std::io::SeekFrom::Start(self.start))?;\n            write_blocks(writer.by_ref(), self.blocks.blocks()).ok();\n            Ok(())", ["C13", "C09"]),
 ("e13.seek_ignored", E, "            writer.seek(std::io::SeekFrom::Start(self.start))?;\n            write_blocks(writer.by_ref(), self.blocks.blocks())", "            let _ = writer.seek(std::io::SeekFrom::Start(self.start));\n            write_blocks(writer.by_ref(), self.blocks.blocks())", ["C13", "C09", "C14"]),
 ("e13.flush_noop", E, "        // but we can at least flush our internal writer\n        self.encoder.writer.flush()", "        // but we can at least flush our internal writer\n        Ok(())", ["C13"]),
 ("e13.crc_flush_noop", C, "    fn flush(&mut self) -> std::io::Result<()> {\n        self.writer.flush()\n    }\n}\n\n/// A frame header's CRC-8 checksum", "    fn flush(&mut self) -> std::io::Result<()> {\n        Ok(())\n    }\n}\n\n/// A frame header's CRC-8 checksum", ["C13"]),
 ("e13.io_conv", L, "            Error::Io(io) => io,\n", "            Error::Io(io) => std::io::Error::new(std::io::ErrorKind::InvalidData, io.to_string()),\n", ["C13"]),
 ("e13.mismatch_ok", E, "                    if expected.get() != self.samples_written {\n                        return Err(Error::SampleCountMismatch);\n                    }", "                    if expected.get() < self.samples_written {\n                        return Err(Error::SampleCountMismatch);\n                    }", ["C15", "C09"]),
 ("e14.finalized_late", E, "        if !self.finalized {\n            use crate::metadata::SeekTable;\n\n            self.finalized = true;\n", "        if !self.finalized {\n            use crate::metadata::SeekTable;\n", ["C13", "C14", "C09"]),
 ("e19.le", E, "    if best.written() < verbatim_len {", "    if best.written() <= verbatim_len {", ["C19"]),
 ("e19.len_bits", E, "    let verbatim_len = channel.len() as u32 * u32::from(bits_per_sample);", "    let verbatim_len = channel.len() as u32 * 32;", ["C19"]),
 ("e19.min_max", E, "                    .min_by_key(|c| c.written())\n                    .unwrap(),\n                (Err(_), Ok(())) => lpc_output,", "                    .max_by_key(|c| c.written())\n                    .unwrap(),\n                (Err(_), Ok(())) => lpc_output,", ["C19"]),
 ("e16.crc16_gate", D, "", "", []),
]
MUTS = [m for m in MUTS if m[2]]
