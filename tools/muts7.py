E = "src/encode.rs"; D = "src/decode.rs"; S = "src/stream.rs"; M = "src/metadata/mod.rs"; CU = "src/metadata/cuesheet.rs"; L = "src/lib.rs"; C = "src/crc.rs"
MUTS = [
 ("sr.io_swallowed", D, "                        // a failing reader is not a bad header\n                        Err(Error::Io(err)) => return Err(Error::Io(err)),\n", "", ["C13", "C16"]),
 ("sr.crc_inverted", D, "        if crc16_reader.into_checksum().valid() {\n            self.samples.clear();", "        if !crc16_reader.into_checksum().valid() {\n            self.samples.clear();", ["C16", "C05"]),
 ("sr.samples_not_cleared", D, "        if crc16_reader.into_checksum().valid() {\n            self.samples.clear();\n            self.samples.extend(self.buf.iter());", "        if crc16_reader.into_checksum().valid() {\n            self.samples.extend(self.buf.iter());", ["C16", "C07"]),
 ("sr.header_err_fatal", D, "                        Err(_) => { /* not a frame header, keep looking */ }", "                        Err(e) => return Err(e),", ["C16"]),
 ("sr.sync_mask", D, "Ok([byte, ..]) if byte >> 1 == 0b1111100 => {", "Ok([byte, ..]) if byte >> 2 == 0b111110 => {", ["C16"]),
 ("sr.skip_until_fe", D, "            self.reader.skip_until(0b11111111)?;", "            self.reader.skip_until(0b11111110)?;", ["C16"]),
 ("sr.channels_const", D, "                channels: header.channel_assignment.count(),", "                channels: 2,", ["C16"]),
 ("v.md5_skip", D, "", "", []),
]
MUTS = [m for m in MUTS if m[2]]
