#!/bin/bash
# confirm_seed.sh <seed_out_dir> <name>  : confirm a seeded change in a scratch worktree of /repo
#  1. demo passes on the unchanged tree  2. patch applies  3. demo fails with it  4. existing suite passes with it
# writes <seed_out_dir>/confirm.json ; removes the worktree and its build output afterwards
set -u
SRC="$1"; NAME="$2"
WT=/tmp/confirm-$NAME
rm -rf "$WT"; git -C /repo worktree prune
git -C /repo worktree add -q --detach "$WT" HEAD || exit 2
cp /repo/Cargo.lock "$WT/" 2>/dev/null
export CARGO_NET_OFFLINE=true CARGO_TARGET_DIR="$WT/target"
cd "$WT"
cp "$SRC/seed_demo.rs" tests/seed_demo.rs
cargo test --offline $DEMO_FLAGS --test seed_demo >"$WT/demo_clean.log" 2>&1; D0=$?
P="$SRC/patch.diff"; [ -f "$SRC/patch_rebased.diff" ] && P="$SRC/patch_rebased.diff"; git apply "$P" >"$WT/apply.log" 2>&1; AP=$?
cargo test --offline $DEMO_FLAGS --test seed_demo >"$WT/demo_mut.log" 2>&1; D1=$?
rm -f tests/seed_demo.rs
cargo nextest run --workspace --no-fail-fast --tool-config-file pb:/w/lib/nextest.toml --profile pb --test-threads 4 --offline >"$WT/suite.log" 2>&1; S=$?
SUM=$(grep -E "Summary|tests run" "$WT/suite.log" | tail -1 | sed 's/"/ /g')
cat > "$SRC/confirm.json" <<EOJ
{"name": "$NAME", "demo_on_clean_exit": $D0, "patch_applies_exit": $AP, "demo_with_change_exit": $D1, "suite_with_change_exit": $S,
 "suite_summary": "$SUM", "confirmed": $([ $D0 -eq 0 ] && [ $AP -eq 0 ] && [ $D1 -ne 0 ] && [ $S -eq 0 ] && echo true || echo false)}
EOJ
cd /; git -C /repo worktree remove --force "$WT"; rm -rf "$WT"
cat "$SRC/confirm.json"
