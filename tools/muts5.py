E = "src/encode.rs"; D = "src/decode.rs"; S = "src/stream.rs"; M = "src/metadata/mod.rs"; CU = "src/metadata/cuesheet.rs"; L = "src/lib.rs"
MUTS = [
 ("cue.first_index_nonzero", M, "if parsed.tracks.is_empty() && offset.into() != 0 {", "if offset.into() != 0 {", ["C20"]),
 ("cue.rel_offset_dropped", M, "                                offset: offset - *track_offset,", "                                offset,", ["C20"]),
 ("cue.track_offset_default", M, "                            *track_offset = Some(offset);\n\n                            cuesheet::Index {\n                                number,\n                                offset: O::default(),", "                            *track_offset = Some(offset);\n\n                            cuesheet::Index {\n                                number,\n                                offset,", ["C20"]),
 ("cue.flags_pre_nonaudio", M, "                        wip_track.pre_emphasis = true;", "                        wip_track.non_audio = true;", ["C20"]),
 ("cue.late_isrc_dropped", M, "                    if !wip_track.index_points.is_empty() {\n                        return Err(CuesheetError::LateISRC)?;\n                    }\n", "", ["C20"]),
 ("cue.secs_75", CU, "frames.checked_add(ff + ss * 75)", "frames.checked_add(ff + ss * 60)", ["C20"]),
 ("cue.mm_60", CU, "mm.checked_mul(75 * 60)", "mm.checked_mul(75 * 75)", ["C20"]),
 ("cue.leadout_gt", CU, "            Some(track) if *track.index_points.last() >= offset => Err(CuesheetError::ShortLeadOut),\n            _ => Ok(LeadOutCDDA {", "            Some(track) if *track.index_points.last() > offset => Err(CuesheetError::ShortLeadOut),\n            _ => Ok(LeadOutCDDA {", ["C20"]),
 ("cue.leadin", M, "                        lead_in_samples: Self::LEAD_IN,", "                        lead_in_samples: 0,", ["C20", "C11"]),
 ("cue.last_track_lost", M, "                ("+'"TRACK"'+", rest) => {\n                    if let Some(finished) = wip_track.replace(WipTrack::new(", "                ("+'"TRACK"'+", rest) => {\n                    if let Some(finished) = wip_track.take().filter(|_| false).or(None).xor(wip_track.replace(WipTrack::new(", []),
]
MUTS = [m for m in MUTS if m[4]]
