#!/usr/bin/env python3
"""patchfacts.py <patch.diff> <out.json> : facts (default configuration) of /repo HEAD with the patch applied, for debugging a rule"""
import os, shutil, subprocess, sys, tempfile
patch, out = os.path.abspath(sys.argv[1]), os.path.abspath(sys.argv[2])
tmp = tempfile.mkdtemp(prefix="patchfacts-")
try:
    subprocess.check_call("git -C /repo archive HEAD | tar -x -C %s" % tmp, shell=True)
    shutil.copy("/repo/Cargo.lock", tmp)
    subprocess.check_call(["patch", "-s", "-p1", "-d", tmp, "-i", patch])
    sys.path.insert(0, "/verif/analysis")
    import run
    run.REPO = tmp
    run.extract("default", tmp, keep=out)
finally:
    shutil.rmtree(tmp, ignore_errors=True)
