#!/usr/bin/env python3
"""refcheck.py <patch.diff> : apply a behaviour-preserving refactoring to a scratch copy of /repo HEAD and run ALL checks on
it; every violation printed is a false alarm"""
import os, shutil, subprocess, sys, tempfile
from concurrent.futures import ThreadPoolExecutor
patch = os.path.abspath(sys.argv[1])
tmp = tempfile.mkdtemp(prefix="refcheck-")
try:
    subprocess.check_call("git -C /repo archive HEAD | tar -x -C %s" % tmp, shell=True)
    shutil.copy("/repo/Cargo.lock", tmp)
    r = subprocess.run(["git", "apply", "--directory", tmp, "--unsafe-paths", patch], cwd="/", capture_output=True, text=True)
    if r.returncode != 0:
        r = subprocess.run(["patch", "-p1", "-d", tmp, "-i", patch], capture_output=True, text=True)
        if r.returncode != 0:
            print("PATCH DOES NOT APPLY"); sys.exit(3)
    sys.path.insert(0, "/verif/analysis")
    import run
    run.REPO = tmp
    env = dict(os.environ, VERIF_REPO=tmp, VERIF_EVIDENCE_DIR=os.path.join(tmp, ".ev"))
    for c in ("default", "rayon"):
        run.extract(c, tmp, keep=os.path.join(tmp, "facts-%s.json" % c))
        env["VERIF_FACTS_" + c.upper()] = os.path.join(tmp, "facts-%s.json" % c)
    props = ["C%02d" % i for i in range(1, 21)]

    def one(p):
        r = subprocess.run([sys.executable, "/verif/analysis/run.py", p, "quick"], env=env, capture_output=True, text=True, cwd="/verif")
        v = [l.strip()[:260] for l in r.stdout.splitlines() if l.startswith("  rule=")]
        return p, r.returncode, v, r.stderr[-300:] if r.returncode not in (0, 1) else ""
    alarms = 0
    with ThreadPoolExecutor(max_workers=6) as ex:
        for p, rc, v, err in ex.map(one, props):
            if rc != 0:
                alarms += 1
                print("%s exit %d" % (p, rc), err)
                for l in v[:3]:
                    print("    ", l)
    print("FALSE ALARMS: %d" % alarms)
finally:
    shutil.rmtree(tmp, ignore_errors=True)
