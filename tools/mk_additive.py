#!/usr/bin/env python3
"""mk_additive.py: build the `benign/A_*` patches - additive maintenance edits (new private field, new public accessor,
new error variant, new derive, named constant, moved item) that change no existing behaviour - from multi-site replacement
specs; each patch is produced against /repo HEAD and must compile. Run `tools/refcheck.py` on each afterwards."""
import os, subprocess, tempfile, shutil, sys
E = "src/encode.rs"; D = "src/decode.rs"; M = "src/metadata/mod.rs"; CU = "src/metadata/cuesheet.rs"; L = "src/lib.rs"
EDITS = {
 "A_encoder_field": [
   (E, "    start: u64,\n    // various encoding options\n", "    start: u64,\n    // number of frames encoded so far (statistics only)\n    frames_encoded: u64,\n    // various encoding options\n"),
   (E, "            samples_written: 0,\n            seekpoints: Vec::new(),", "            samples_written: 0,\n            frames_encoded: 0,\n            seekpoints: Vec::new(),"),
   (E, "        // update running total of samples written\n", "        self.frames_encoded = self.frames_encoded.wrapping_add(1);\n\n        // update running total of samples written\n"),
 ],
 "A_decoder_field": [
   (D, "    // the current sample, in channel-independent samples\n    current_sample: u64,\n", "    // frames decoded so far (statistics only)\n    frames_decoded: u64,\n    // the current sample, in channel-independent samples\n    current_sample: u64,\n"),
   (D, "            blocks,\n            current_sample: 0,\n            buf: Frame::default(),", "            blocks,\n            frames_decoded: 0,\n            current_sample: 0,\n            buf: Frame::default(),"),
   (D, "        self.current_sample += u64::from(u16::from(header.block_size));\n\n        Ok(Some(&self.buf))", "        self.current_sample += u64::from(u16::from(header.block_size));\n        self.frames_decoded = self.frames_decoded.wrapping_add(1);\n\n        Ok(Some(&self.buf))"),
 ],
 "A_pub_accessor": [
   (D, "    /// Returns FLAC metadata blocks\n    #[inline]\n    pub fn metadata(&self) -> &BlockList {\n        self.decoder.metadata()\n    }\n}\n\nimpl<R: std::io::Read + std::io::Seek, E: crate::byteorder::Endianness> FlacByteReader<R, E> {",
       "    /// Returns FLAC metadata blocks\n    #[inline]\n    pub fn metadata(&self) -> &BlockList {\n        self.decoder.metadata()\n    }\n\n    /// Returns the stream's channel count\n    #[inline]\n    pub fn channel_count(&self) -> u8 {\n        self.decoder.metadata().streaminfo().channels.get()\n    }\n}\n\nimpl<R: std::io::Read + std::io::Seek, E: crate::byteorder::Endianness> FlacByteReader<R, E> {"),
 ],
 "A_error_variant": [
   (L, "    /// Too many samples encountered in stream\n    TooManySamples,\n", "    /// Too many samples encountered in stream\n    TooManySamples,\n    /// A feature not supported by this build\n    Unsupported,\n"),
   (L, "            Self::TooManySamples => \"more samples in stream than indicated in STREAMINFO\".fmt(f),\n", "            Self::TooManySamples => \"more samples in stream than indicated in STREAMINFO\".fmt(f),\n            Self::Unsupported => \"unsupported feature\".fmt(f),\n"),
 ],
 "A_derive_debug": [
   (E, "#[derive(Debug)]\nstruct ResidualOverflow;", "#[derive(Debug, Clone, Copy, PartialEq, Eq)]\nstruct ResidualOverflow;"),
 ],
 "A_field_reorder": [
   (E, "    // the writer we're outputting to\n    writer: Counter<W>,\n    // the stream's starting offset in the writer, in bytes\n    start: u64,\n", "    // the number of channel-independent samples written\n    samples_written: u64,\n    // the writer we're outputting to\n    writer: Counter<W>,\n    // the stream's starting offset in the writer, in bytes\n    start: u64,\n"),
   (E, "    frame_number: FrameNumber,\n    // the number of channel-independent samples written\n    samples_written: u64,\n", "    frame_number: FrameNumber,\n"),
   (D, "    reader: R,\n    // all metadata blocks\n    blocks: BlockList,\n", "    // all metadata blocks\n    blocks: BlockList,\n    reader: R,\n"),
 ],
 "A_named_const": [
   (CU, "    const SAMPLES_PER_SECTOR: u64 = 44100 / 75;\n", "    const SAMPLES_PER_SECTOR: u64 = 44100 / 75;\n    const FRAMES_PER_MINUTE: u64 = 75 * 60;\n"),
   (CU, "        mm.checked_mul(75 * 60)\n", "        mm.checked_mul(Self::FRAMES_PER_MINUTE)\n"),
 ],
}


def main():
    out_root = "/verif/benign"
    for name, edits in EDITS.items():
        tmp = tempfile.mkdtemp(prefix="mkadd-")
        try:
            subprocess.check_call("git -C /repo archive HEAD | tar -x -C %s" % tmp, shell=True)
            subprocess.check_call("cd %s && git init -q . && git add -A && git -c user.email=a@b -c user.name=x commit -qm base" % tmp, shell=True)
            for path, old, new in edits:
                fp = os.path.join(tmp, path)
                s = open(fp).read()
                if s.count(old) != 1:
                    print(name, "BAD EDIT: old text occurs", s.count(old), "times:", old[:60].replace("\n", "\\n")); break
                open(fp, "w").write(s.replace(old, new))
            else:
                d = subprocess.run("cd %s && git diff" % tmp, shell=True, capture_output=True, text=True).stdout
                os.makedirs(os.path.join(out_root, name), exist_ok=True)
                open(os.path.join(out_root, name, "patch.diff"), "w").write(d)
                print(name, "ok", len(d.splitlines()), "lines")
        finally:
            shutil.rmtree(tmp, ignore_errors=True)


main()
