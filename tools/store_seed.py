#!/usr/bin/env python3
"""store_seed.py <srcdir> <name> <round> <status> : copy a confirmed seeded change into /verif/seeded/<name>/ and record which
checks report it (re-runs the property's check on a scratch copy).  status: as-written | after-strengthening"""
import json, os, shutil, subprocess, sys, re
src, name, rnd, status = sys.argv[1:5]
conf = json.load(open(os.path.join(src, "confirm.json")))
if not conf.get("confirmed"):
    print("NOT CONFIRMED", name); sys.exit(1)
meta = json.load(open(os.path.join(src, "meta.json")))
prop = meta["property"]
patch = os.path.join(src, "patch_rebased.diff") if os.path.exists(os.path.join(src, "patch_rebased.diff")) else os.path.join(src, "patch.diff")
r = subprocess.run([sys.executable, "/verif/tools/seedcheck.py", patch, prop], capture_output=True, text=True, cwd="/verif")
rules = sorted({l.split("rule=", 1)[1].split(" instance=", 1)[0] for l in r.stdout.splitlines() if l.strip().startswith("rule=")})
first = [l.strip()[:400] for l in r.stdout.splitlines() if l.strip().startswith("rule=")][:2]
caught = "CAUGHT BY: ['%s']" % prop in r.stdout
dst = os.path.join("/verif/seeded", name)
os.makedirs(dst, exist_ok=True)
shutil.copy(patch, os.path.join(dst, "patch.diff"))
shutil.copy(os.path.join(src, "seed_demo.rs"), os.path.join(dst, "seed_demo.rs"))
out = {"id": name, "property": prop, "round": int(rnd), "summary": meta.get("summary"), "needs": meta.get("needs"), "why_tests_pass": meta.get("why_tests_pass"),
       "confirmed": {k: conf[k] for k in ("demo_on_clean_exit", "patch_applies_exit", "demo_with_change_exit", "suite_with_change_exit", "suite_summary")},
       "caught_by": [prop] if caught else [], "rules_firing": rules, "first_reports": first, "detection": status if caught else "MISSED",
       "produced_by": "independent sub-agent given only the property text and a scratch worktree"}
json.dump(out, open(os.path.join(dst, "meta.json"), "w"), indent=1)
print(name, "caught" if caught else "MISSED", rules)
