#!/bin/sh
# run every stored behaviour-preserving patch (benign/*/patch.diff) through all checks, N at a time; prints the ones that alarm
N=${1:-3}
cd /verif
ls -d benign/*/ | xargs -P $N -I{} sh -c 'r=$(python3 tools/refcheck.py {}patch.diff 2>&1 | tail -1); echo "$(basename {}) $r"' | grep -v "ALARMS: 0"
echo "refcheck_all done"
