#!/usr/bin/env python3
"""mutprobe.py <mutations.py> [name-filter]: apply hand-written textual mutations (one at a time) to a scratch copy of /repo
and run the named checks on each; prints caught / MISSED / does-not-compile.  A probe for the checker's sensitivity."""
import os, sys, shutil, subprocess, tempfile, json, re
from concurrent.futures import ThreadPoolExecutor
sys.path.insert(0, "/verif/analysis")
spec = {}
exec(open(sys.argv[1]).read(), spec)
MUTS = spec["MUTS"]
flt = sys.argv[2] if len(sys.argv) > 2 else ""


def one(m):
    name, path, old, new, props = m
    tmp = tempfile.mkdtemp(prefix="mutprobe-")
    try:
        subprocess.check_call("git -C /repo archive HEAD | tar -x -C %s" % tmp, shell=True)
        shutil.copy("/repo/Cargo.lock", tmp)
        fp = os.path.join(tmp, path)
        s = open(fp).read()
        if s.count(old) != 1 and not name.startswith("b.rename"):
            return (name, "BAD-MUTATION (old text occurs %d times)" % s.count(old), [])
        open(fp, "w").write(s.replace(old, new))
        env = dict(os.environ, VERIF_REPO=tmp, VERIF_EVIDENCE_DIR=os.path.join(tmp, ".ev"))
        env.pop("VERIF_FACTS_DEFAULT", None); env.pop("VERIF_FACTS_RAYON", None)
        r = subprocess.run([sys.executable, "-c", "import sys; sys.path.insert(0,'/verif/analysis'); import run; run.extract('default', %r, keep=%r)" % (tmp, os.path.join(tmp, "facts.json"))], env=env, capture_output=True, text=True)
        if not os.path.exists(os.path.join(tmp, "facts.json")):
            return (name, "DOES-NOT-COMPILE " + r.stderr[-300:], [])
        env["VERIF_FACTS_DEFAULT"] = os.path.join(tmp, "facts.json")
        out = []
        caught = []
        for p in props:
            r = subprocess.run([sys.executable, "/verif/analysis/run.py", p, "quick"], env=env, capture_output=True, text=True, cwd="/verif")
            v = [l.strip()[:230] for l in r.stdout.splitlines() if l.startswith("  rule=")]
            if r.returncode == 1:
                caught.append(p)
            elif r.returncode != 0:
                v.append("INFRA exit %d %s" % (r.returncode, r.stderr[-300:]))
            out += v[:2]
        return (name, "caught by %s" % caught if caught else "MISSED", out)
    finally:
        shutil.rmtree(tmp, ignore_errors=True)


todo = [m for m in MUTS if flt in m[0]]
with ThreadPoolExecutor(max_workers=6) as ex:
    for name, res, out in ex.map(one, todo):
        print("%-28s %s" % (name, res))
        for l in out[:2]:
            print("      ", l)
