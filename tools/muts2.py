E = "src/encode.rs"; D = "src/decode.rs"; S = "src/stream.rs"; M = "src/metadata/mod.rs"
MUTS = [
 ("seek.filter_lt", D, ".map(|offset| offset <= sample)", ".map(|offset| offset < sample)", ["C06"]),
 ("seek.next_not_back", D, "                    .next_back()\n                {\n                    Some(SeekPoint::Defined {", "                    .next()\n                {\n                    Some(SeekPoint::Defined {", ["C06"]),
 ("seek.sample_consume_nochan", D, "                    self.consume(to_consume * usize::from(channels));", "                    self.consume(to_consume);", ["C06"]),
 ("seek.sample_bufsamples", D, "            match buf.len() / usize::from(channels) {", "            match buf.len() {", ["C06"]),
 ("seek.byte_ret_newpos", D, "        Ok(desired_pos)\n    }\n}\n\nimpl<R: std::io::Read + std::io::Seek> FlacSampleReader<R> {", "        Ok(new_pos.min(desired_pos).max(desired_pos / bytes_per_pcm_frame * bytes_per_pcm_frame))\n    }\n}\n\nimpl<R: std::io::Read + std::io::Seek> FlacSampleReader<R> {", ["C06"]),
 ("seek.byte_current_plus", D, "(decoder.current_sample * bytes_per_pcm_frame) - (buf.len() as u64);", "(decoder.current_sample * bytes_per_pcm_frame) + (buf.len() as u64);", ["C06"]),
 ("seek.byte_clear_after", D, "        // seeking invalidates current buffer\n        buf.clear();\n", "", ["C06"]),
 ("seek.chan_consumed", D, "        self.consumed = self.decoder.buf.pcm_frames();\n\n        // needed", "        self.consumed = 0;\n\n        // needed", ["C06", "C07"]),
 ("seek.pos_noadvance", D, "                    self.consume(to_consume);\n\n                    // advance current actual position\n                    pos += to_consume as u64;", "                    self.consume(to_consume);\n\n                    // advance current actual position\n                    pos += buf_samples as u64;", ["C06"]),
 ("rf.short_block", D, "(u64::from(block_size) == remaining || block_size > 14)", "(u64::from(block_size) <= remaining || block_size > 14)", ["C05"]),
 ("rf.too_many_lt", D, "(u64::from(u16::from(header.block_size)) <= remaining)", "(u64::from(u16::from(header.block_size)) <= remaining + 1)", ["C05", "C04"]),
 ("rf.cur_sample_before_crc", D, "        if !crc16_reader.into_checksum().valid() {\n            return Err(Error::Crc16Mismatch);\n        }\n\n        self.current_sample += u64::from(u16::from(header.block_size));", "        self.current_sample += u64::from(u16::from(header.block_size));\n\n        if !crc16_reader.into_checksum().valid() {\n            return Err(Error::Crc16Mismatch);\n        }", ["C05"]),
 ("rf.eof_any_kind", D, "Err(Error::Io(err)) if err.kind() == std::io::ErrorKind::UnexpectedEof => {\n                    return Ok(None);", "Err(Error::Io(_)) => {\n                    return Ok(None);", ["C05", "C13"]),
 ("rd.sample_read_nonempty", D, "        if self.buf.is_empty() {\n            match self.decoder.read_frame()? {\n                Some(frame) => {\n                    self.buf.extend(frame.iter());", "        if self.buf.len() < samples.len() {\n            match self.decoder.read_frame()? {\n                Some(frame) => {\n                    self.buf.extend(frame.iter());", ["C07"]),
 ("rd.iter_drop_first", D, "                    self.reader.buf.extend(frame.iter());\n                    self.reader.buf.pop_front().map(Ok)", "                    self.reader.buf.extend(frame.iter().skip(1));\n                    frame.iter().next().map(Ok)", ["C07"]),
]
