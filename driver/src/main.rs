// flacfacts: rustc_private driver that dumps a JSON fact base of the
// type-checked program (MIR after drop elaboration, mir-opt-level 0) of the
// crate named in FLACFACTS_CRATE (default flac_codec).  One write per process.
//
// Usage: RUSTC_WORKSPACE_WRAPPER=flacfacts FLACFACTS_OUT=<file> cargo +nightly check
#![feature(rustc_private)]
#![allow(clippy::all)]

extern crate rustc_abi;
extern crate rustc_driver;
extern crate rustc_hir;
extern crate rustc_interface;
extern crate rustc_lint;
extern crate rustc_middle;
extern crate rustc_span;

use rustc_driver::Compilation;
use rustc_hir::def::DefKind;
use rustc_hir::def_id::{DefId, LOCAL_CRATE};
use rustc_middle::mir::{
    self, AggregateKind, AssertKind, BinOp, Body, BorrowKind, Operand, Place, PlaceElem, Rvalue,
    StatementKind, TerminatorKind, UnwindAction,
};
use rustc_middle::ty::print::{with_no_trimmed_paths, PrintTraitRefExt};
use rustc_middle::ty::{self, Instance, Ty, TyCtxt, TypingEnv};
use rustc_span::{ExpnKind, Span};
use std::fmt::Write as _;

struct Cb;

fn esc(s: &str) -> String {
    let mut o = String::with_capacity(s.len() + 2);
    o.push('"');
    for c in s.chars() {
        match c {
            '"' => o.push_str("\\\""),
            '\\' => o.push_str("\\\\"),
            '\n' => o.push_str("\\n"),
            '\r' => o.push_str("\\r"),
            '\t' => o.push_str("\\t"),
            c if (c as u32) < 0x20 => {
                let _ = write!(o, "\\u{:04x}", c as u32);
            }
            c => o.push(c),
        }
    }
    o.push('"');
    o
}

fn join(v: &[String]) -> String {
    v.join(",")
}

struct Cx<'a, 'tcx> {
    tcx: TyCtxt<'tcx>,
    body: &'a Body<'tcx>,
    def: DefId,
    env: TypingEnv<'tcx>,
}

fn path_of(tcx: TyCtxt<'_>, d: DefId) -> String {
    with_no_trimmed_paths!(tcx.def_path_str(d))
}

fn ty_str(t: Ty<'_>) -> String {
    with_no_trimmed_paths!(format!("{}", t))
}

fn span_json(tcx: TyCtxt<'_>, sp: Span) -> String {
    let sm = tcx.sess.source_map();
    let cs = sp.source_callsite();
    let lo = sm.lookup_char_pos(cs.lo());
    let hi = sm.lookup_char_pos(cs.hi());
    let file = match &lo.file.name {
        rustc_span::FileName::Real(r) => match r.local_path() {
            Some(p) => p.to_string_lossy().to_string(),
            None => format!("{:?}", r),
        },
        o => format!("{:?}", o),
    };
    let mut exp = String::from("null");
    if sp.from_expansion() {
        // outermost named macro / desugaring
        let mut names = vec![];
        let mut s = sp;
        let mut guard = 0;
        while s.from_expansion() && guard < 32 {
            let d = s.ctxt().outer_expn_data();
            match d.kind {
                ExpnKind::Macro(_, n) => names.push(n.to_string()),
                ExpnKind::Desugaring(k) => names.push(format!("desugar:{:?}", k)),
                ExpnKind::AstPass(k) => names.push(format!("astpass:{:?}", k)),
                ExpnKind::Root => {}
            }
            s = d.call_site;
            guard += 1;
        }
        exp = format!("[{}]", join(&names.iter().map(|n| esc(n)).collect::<Vec<_>>()));
    }
    format!(
        "{{\"file\":{},\"line\":{},\"col\":{},\"eline\":{},\"exp\":{}}}",
        esc(&file),
        lo.line,
        lo.col.0 + 1,
        hi.line,
        exp
    )
}

impl<'a, 'tcx> Cx<'a, 'tcx> {
    fn place(&self, p: &Place<'tcx>) -> String {
        let mut projs: Vec<String> = vec![];
        let mut pty = mir::PlaceTy::from_ty(self.body.local_decls[p.local].ty);
        for el in p.projection.iter() {
            let s = match el {
                PlaceElem::Deref => "*".to_string(),
                PlaceElem::Field(f, _) => {
                    let mut name = String::new();
                    match pty.ty.kind() {
                        ty::Adt(adt, _) => {
                            let vidx = pty.variant_index.unwrap_or(rustc_abi::FIRST_VARIANT);
                            if adt.is_enum() || adt.is_struct() || adt.is_union() {
                                if let Some(v) = adt.variants().get(vidx) {
                                    if let Some(fd) = v.fields.get(f) {
                                        name = fd.name.to_string();
                                    }
                                }
                            }
                        }
                        _ => {}
                    }
                    format!(".{}:{}", f.as_usize(), name)
                }
                PlaceElem::Index(l) => format!("[_{}]", l.as_usize()),
                PlaceElem::ConstantIndex { offset, min_length, from_end } => {
                    format!("[c{}{}/{}]", if from_end { "-" } else { "" }, offset, min_length)
                }
                PlaceElem::Subslice { from, to, from_end } => {
                    format!("[s{}:{}{}]", from, if from_end { "-" } else { "" }, to)
                }
                PlaceElem::Downcast(n, vi) => format!(
                    "as {}#{}",
                    n.map(|s| s.to_string()).unwrap_or_default(),
                    vi.as_usize()
                ),
                PlaceElem::OpaqueCast(_) => "opaque".to_string(),
                PlaceElem::UnwrapUnsafeBinder(_) => "unwrapbinder".to_string(),
            };
            projs.push(esc(&s));
            pty = pty.projection_ty(self.tcx, el);
        }
        format!("{{\"l\":{},\"p\":[{}]}}", p.local.as_usize(), join(&projs))
    }

    fn place_ty(&self, p: &Place<'tcx>) -> Ty<'tcx> {
        p.ty(&self.body.local_decls, self.tcx).ty
    }

    fn fn_ref(&self, cdid: DefId, args: ty::GenericArgsRef<'tcx>) -> String {
        let tcx = self.tcx;
        let path = path_of(tcx, cdid);
        let gargs: Vec<String> = args
            .iter()
            .map(|a| esc(&with_no_trimmed_paths!(format!("{}", a))))
            .collect();
        let mut res = String::from("null");
        let mut res_local = false;
        let mut res_kind = String::new();
        if let Ok(Some(inst)) = Instance::try_resolve(tcx, self.env, cdid, args) {
            let rd = inst.def_id();
            res = esc(&path_of(tcx, rd));
            res_local = rd.krate == LOCAL_CRATE;
            res_kind = format!("{:?}", std::mem::discriminant(&inst.def));
            res_kind = match inst.def {
                ty::InstanceKind::Item(_) => "item".into(),
                ty::InstanceKind::Virtual(..) => "virtual".into(),
                ty::InstanceKind::Intrinsic(_) => "intrinsic".into(),
                ty::InstanceKind::ClosureOnceShim { .. } => "closure_once".into(),
                ty::InstanceKind::FnPtrShim(..) => "fnptr_shim".into(),
                ty::InstanceKind::DropGlue(..) => "drop_glue".into(),
                ty::InstanceKind::CloneShim(..) => "clone_shim".into(),
                ty::InstanceKind::ReifyShim(..) => "reify".into(),
                _ => res_kind,
            };
        }
        // trait the callee belongs to, if a trait method
        let mut tr = String::from("null");
        if let Some(t) = tcx.trait_of_assoc(cdid) {
            tr = esc(&path_of(tcx, t));
        }
        // impl-of: if callee is in an impl, the trait implemented
        let mut impl_tr = String::from("null");
        if let Some(imp) = tcx.impl_of_assoc(cdid) {
            if tcx.impl_is_of_trait(imp) {
                let t = tcx.impl_trait_id(imp);
                impl_tr = esc(&path_of(tcx, t));
            }
        }
        format!(
            "{{\"path\":{},\"args\":[{}],\"res\":{},\"res_local\":{},\"res_kind\":{},\"trait\":{},\"impl_trait\":{},\"local\":{}}}",
            esc(&path),
            join(&gargs),
            res,
            res_local,
            esc(&res_kind),
            tr,
            impl_tr,
            cdid.krate == LOCAL_CRATE
        )
    }

    fn konst(&self, c: &mir::ConstOperand<'tcx>) -> String {
        let tcx = self.tcx;
        let t = c.const_.ty();
        let disp = with_no_trimmed_paths!(format!("{}", c.const_));
        let mut v = String::from("null");
        if t.is_integral() || t.is_bool() || t.is_char() {
            if let Some(si) = c.const_.try_eval_scalar_int(tcx, self.env) {
                let size = si.size();
                if t.is_signed() {
                    v = format!("{}", si.to_int(size));
                } else {
                    v = format!("{}", si.to_uint(size));
                }
            }
        }
        let mut f = String::from("null");
        match t.kind() {
            ty::FnDef(d, a) => f = self.fn_ref(*d, a),
            _ => {}
        }
        let mut cl = String::from("null");
        if let ty::Closure(d, _) = t.kind() {
            cl = esc(&path_of(tcx, *d));
        }
        // static reference?
        let mut st = String::from("null");
        if let Some(d) = c.check_static_ptr(tcx) {
            st = esc(&path_of(tcx, d));
        }
        format!(
            "{{\"k\":{{\"ty\":{},\"v\":{},\"s\":{},\"fn\":{},\"cl\":{},\"static\":{}}}}}",
            esc(&ty_str(t)),
            v,
            esc(&disp),
            f,
            cl,
            st
        )
    }

    fn operand(&self, o: &Operand<'tcx>) -> String {
        match o {
            Operand::Copy(p) => format!("{{\"c\":{}}}", self.place(p)),
            Operand::Move(p) => format!("{{\"m\":{}}}", self.place(p)),
            Operand::Constant(c) => self.konst(c),
            other => format!("{{\"x\":{}}}", esc(&format!("{:?}", other))),
        }
    }

    fn rvalue(&self, rv: &Rvalue<'tcx>) -> String {
        let tcx = self.tcx;
        match rv {
            Rvalue::Use(o, ..) => format!("{{\"r\":\"use\",\"o\":{}}}", self.operand(o)),
            Rvalue::Repeat(o, n) => format!(
                "{{\"r\":\"repeat\",\"o\":{},\"n\":{}}}",
                self.operand(o),
                esc(&with_no_trimmed_paths!(format!("{}", n)))
            ),
            Rvalue::Ref(_, bk, p) => {
                let m = matches!(bk, BorrowKind::Mut { .. });
                format!("{{\"r\":\"ref\",\"mut\":{},\"p\":{}}}", m, self.place(p))
            }
            Rvalue::RawPtr(_, p) => format!("{{\"r\":\"rawptr\",\"p\":{}}}", self.place(p)),
            Rvalue::Cast(k, o, t) => format!(
                "{{\"r\":\"cast\",\"ck\":{},\"o\":{},\"ty\":{},\"from\":{}}}",
                esc(&format!("{:?}", k)),
                self.operand(o),
                esc(&ty_str(*t)),
                esc(&ty_str(o.ty(&self.body.local_decls, tcx)))
            ),
            Rvalue::BinaryOp(op, ab) => {
                let (a, b) = &**ab;
                format!(
                    "{{\"r\":\"bin\",\"op\":{},\"a\":{},\"b\":{},\"ty\":{}}}",
                    esc(&format!("{:?}", op)),
                    self.operand(a),
                    self.operand(b),
                    esc(&ty_str(a.ty(&self.body.local_decls, tcx)))
                )
            }
            Rvalue::UnaryOp(op, o) => format!(
                "{{\"r\":\"un\",\"op\":{},\"o\":{},\"ty\":{}}}",
                esc(&format!("{:?}", op)),
                self.operand(o),
                esc(&ty_str(o.ty(&self.body.local_decls, tcx)))
            ),
            Rvalue::Discriminant(p) => format!(
                "{{\"r\":\"disc\",\"p\":{},\"ty\":{}}}",
                self.place(p),
                esc(&ty_str(self.place_ty(p)))
            ),
            Rvalue::Aggregate(ak, ops) => {
                let opsj: Vec<String> = ops.iter().map(|o| self.operand(o)).collect();
                let (kind, adt, var, vi) = match &**ak {
                    AggregateKind::Array(_) => ("array", String::new(), String::new(), 0usize),
                    AggregateKind::Tuple => ("tuple", String::new(), String::new(), 0),
                    AggregateKind::Adt(d, vidx, _, _, _) => {
                        let ad = tcx.adt_def(*d);
                        let v = ad.variant(*vidx);
                        ("adt", path_of(tcx, *d), v.name.to_string(), vidx.as_usize())
                    }
                    AggregateKind::Closure(d, _) => ("closure", path_of(tcx, *d), String::new(), 0),
                    AggregateKind::Coroutine(d, _) => {
                        ("coroutine", path_of(tcx, *d), String::new(), 0)
                    }
                    AggregateKind::CoroutineClosure(d, _) => {
                        ("coroutine_closure", path_of(tcx, *d), String::new(), 0)
                    }
                    AggregateKind::RawPtr(..) => ("rawptr", String::new(), String::new(), 0),
                };
                format!(
                    "{{\"r\":\"agg\",\"ak\":{},\"adt\":{},\"var\":{},\"vi\":{},\"ops\":[{}]}}",
                    esc(kind),
                    esc(&adt),
                    esc(&var),
                    vi,
                    join(&opsj)
                )
            }
            Rvalue::CopyForDeref(p) => format!("{{\"r\":\"use\",\"o\":{{\"c\":{}}}}}", self.place(p)),
            Rvalue::ThreadLocalRef(d) => {
                format!("{{\"r\":\"tls\",\"def\":{}}}", esc(&path_of(tcx, *d)))
            }
            other => format!("{{\"r\":\"other\",\"s\":{}}}", esc(&format!("{:?}", other))),
        }
    }

    fn unwind(&self, u: &UnwindAction) -> String {
        match u {
            UnwindAction::Cleanup(b) => format!("{}", b.as_usize()),
            _ => "null".into(),
        }
    }

    fn terminator(&self, t: &mir::Terminator<'tcx>) -> String {
        let tcx = self.tcx;
        let sp = span_json(tcx, t.source_info.span);
        match &t.kind {
            TerminatorKind::Goto { target } => {
                format!("{{\"t\":\"goto\",\"to\":{}}}", target.as_usize())
            }
            TerminatorKind::SwitchInt { discr, targets } => {
                let dty = discr.ty(&self.body.local_decls, tcx);
                let vs: Vec<String> = targets
                    .iter()
                    .map(|(v, b)| {
                        // present signed values as signed
                        let vv = if dty.is_signed() {
                            let bits = dty.primitive_size(tcx).bits();
                            let sh = 128 - bits;
                            format!("{}", ((v << sh) as i128) >> sh)
                        } else {
                            format!("{}", v)
                        };
                        format!("[{},{}]", vv, b.as_usize())
                    })
                    .collect();
                format!(
                    "{{\"t\":\"switch\",\"o\":{},\"ty\":{},\"v\":[{}],\"else\":{},\"sp\":{}}}",
                    self.operand(discr),
                    esc(&ty_str(dty)),
                    join(&vs),
                    targets.otherwise().as_usize(),
                    sp
                )
            }
            TerminatorKind::Return => "{\"t\":\"ret\"}".into(),
            TerminatorKind::Unreachable => "{\"t\":\"unreach\"}".into(),
            TerminatorKind::UnwindResume => "{\"t\":\"resume\"}".into(),
            TerminatorKind::UnwindTerminate(_) => "{\"t\":\"abort\"}".into(),
            TerminatorKind::Drop { place, target, unwind, .. } => {
                let pt = self.place_ty(place);
                format!(
                    "{{\"t\":\"drop\",\"p\":{},\"ty\":{},\"to\":{},\"uw\":{},\"sp\":{}}}",
                    self.place(place),
                    esc(&ty_str(pt)),
                    target.as_usize(),
                    self.unwind(unwind),
                    sp
                )
            }
            TerminatorKind::Call { func, args, destination, target, unwind, .. } => {
                let fty = func.ty(&self.body.local_decls, tcx);
                let f = match fty.kind() {
                    ty::FnDef(d, a) => self.fn_ref(*d, a),
                    _ => format!(
                        "{{\"path\":null,\"indirect\":{},\"op\":{}}}",
                        esc(&ty_str(fty)),
                        self.operand(func)
                    ),
                };
                let aj: Vec<String> = args.iter().map(|a| self.operand(&a.node)).collect();
                let atys: Vec<String> = args
                    .iter()
                    .map(|a| esc(&ty_str(a.node.ty(&self.body.local_decls, tcx))))
                    .collect();
                // closures / fn items among argument types (peeled refs)
                let mut cls: Vec<String> = vec![];
                for a in args.iter() {
                    let mut t = a.node.ty(&self.body.local_decls, tcx);
                    while let ty::Ref(_, inner, _) = t.kind() {
                        t = *inner;
                    }
                    match t.kind() {
                        ty::Closure(d, _) => cls.push(esc(&path_of(tcx, *d))),
                        ty::FnDef(d, _) => cls.push(esc(&path_of(tcx, *d))),
                        _ => {}
                    }
                }
                format!(
                    "{{\"t\":\"call\",\"f\":{},\"a\":[{}],\"aty\":[{}],\"cls\":[{}],\"d\":{},\"dty\":{},\"to\":{},\"uw\":{},\"sp\":{}}}",
                    f,
                    join(&aj),
                    join(&atys),
                    join(&cls),
                    self.place(destination),
                    esc(&ty_str(self.place_ty(destination))),
                    target.map(|b| b.as_usize().to_string()).unwrap_or("null".into()),
                    self.unwind(unwind),
                    sp
                )
            }
            TerminatorKind::Assert { cond, expected, msg, target, .. } => {
                let (k, ops): (String, Vec<String>) = match &**msg {
                    AssertKind::BoundsCheck { len, index } => {
                        ("Bounds".into(), vec![self.operand(len), self.operand(index)])
                    }
                    AssertKind::Overflow(op, a, b) => (
                        format!("Overflow:{}", binop_name(*op)),
                        vec![self.operand(a), self.operand(b)],
                    ),
                    AssertKind::OverflowNeg(a) => ("Overflow:Neg".into(), vec![self.operand(a)]),
                    AssertKind::DivisionByZero(a) => ("Div0".into(), vec![self.operand(a)]),
                    AssertKind::RemainderByZero(a) => ("Rem0".into(), vec![self.operand(a)]),
                    other => (format!("Other:{:?}", other), vec![]),
                };
                let oty = match &**msg {
                    AssertKind::Overflow(_, a, _)
                    | AssertKind::OverflowNeg(a)
                    | AssertKind::DivisionByZero(a)
                    | AssertKind::RemainderByZero(a) => ty_str(a.ty(&self.body.local_decls, tcx)),
                    _ => String::new(),
                };
                format!(
                    "{{\"t\":\"assert\",\"c\":{},\"expected\":{},\"ak\":{},\"ops\":[{}],\"oty\":{},\"to\":{},\"sp\":{}}}",
                    self.operand(cond),
                    expected,
                    esc(&k),
                    join(&ops),
                    esc(&oty),
                    target.as_usize(),
                    sp
                )
            }
            TerminatorKind::FalseEdge { real_target, .. } => {
                format!("{{\"t\":\"goto\",\"to\":{}}}", real_target.as_usize())
            }
            TerminatorKind::FalseUnwind { real_target, .. } => {
                format!("{{\"t\":\"goto\",\"to\":{}}}", real_target.as_usize())
            }
            other => format!("{{\"t\":\"other\",\"s\":{}}}", esc(&format!("{:?}", other))),
        }
    }

    fn statement(&self, s: &mir::Statement<'tcx>) -> Option<String> {
        match &s.kind {
            StatementKind::Assign(b) => {
                let (p, rv) = &**b;
                Some(format!(
                    "{{\"d\":{},\"rv\":{},\"sp\":{}}}",
                    self.place(p),
                    self.rvalue(rv),
                    span_json(self.tcx, s.source_info.span)
                ))
            }
            StatementKind::SetDiscriminant { place, variant_index } => Some(format!(
                "{{\"d\":{},\"rv\":{{\"r\":\"setdisc\",\"vi\":{}}},\"sp\":{}}}",
                self.place(place),
                variant_index.as_usize(),
                span_json(self.tcx, s.source_info.span)
            )),
            _ => None,
        }
    }
}

fn binop_name(op: BinOp) -> String {
    format!("{:?}", op)
}

fn dump_body<'tcx>(tcx: TyCtxt<'tcx>, did: DefId, body: &Body<'tcx>, promoted: Option<usize>) -> String {
    let env = TypingEnv::post_analysis(tcx, did);
    let cx = Cx { tcx, body, def: did, env };
    let _ = cx.def;
    let kind = tcx.def_kind(did);
    let path = path_of(tcx, did);
    let mut names: Vec<Option<String>> = vec![None; body.local_decls.len()];
    let mut dbg: Vec<String> = vec![];
    for vdi in body.var_debug_info.iter() {
        if let mir::VarDebugInfoContents::Place(p) = &vdi.value {
            if p.projection.is_empty() {
                names[p.local.as_usize()] = Some(vdi.name.to_string());
            }
            dbg.push(format!("{{\"name\":{},\"p\":{}}}", esc(&vdi.name.to_string()), cx.place(p)));
        }
    }
    let locals: Vec<String> = body
        .local_decls
        .iter_enumerated()
        .map(|(l, d)| {
            let user = names[l.as_usize()].is_some();
            format!(
                "{{\"ty\":{},\"name\":{},\"user\":{},\"mut\":{}}}",
                esc(&ty_str(d.ty)),
                names[l.as_usize()].as_ref().map(|n| esc(n)).unwrap_or("null".into()),
                user,
                d.mutability.is_mut()
            )
        })
        .collect();
    let blocks: Vec<String> = body
        .basic_blocks
        .iter()
        .map(|bb| {
            let st: Vec<String> = bb.statements.iter().filter_map(|s| cx.statement(s)).collect();
            let t = bb.terminator.as_ref().map(|t| cx.terminator(t)).unwrap_or("null".into());
            format!("{{\"s\":[{}],\"t\":{},\"cleanup\":{}}}", join(&st), t, bb.is_cleanup)
        })
        .collect();

    // parent (for closures) and impl information
    let mut parent = String::from("null");
    if matches!(kind, DefKind::Closure) {
        let p = tcx.typeck_root_def_id(did);
        parent = esc(&path_of(tcx, p));
    }
    let mut impl_trait = String::from("null");
    let mut self_ty = String::from("null");
    let mut in_trait = String::from("null");
    if matches!(kind, DefKind::AssocFn) {
        if let Some(imp) = tcx.impl_of_assoc(did) {
            if tcx.impl_is_of_trait(imp) {
                let t = tcx.impl_trait_id(imp);
                impl_trait = esc(&path_of(tcx, t));
            }
            let st = tcx.type_of(imp).instantiate_identity().skip_norm_wip();
            self_ty = esc(&ty_str(st));
        }
        if let Some(t) = tcx.trait_of_assoc(did) {
            in_trait = esc(&path_of(tcx, t));
        }
    }
    let vis = if matches!(kind, DefKind::Fn | DefKind::AssocFn) {
        if tcx.visibility(did).is_public() { "pub" } else { "priv" }
    } else {
        "n/a"
    };
    // effective visibility (reachable from outside the crate)
    let mut reach = false;
    if let Some(ld) = did.as_local() {
        if matches!(kind, DefKind::Fn | DefKind::AssocFn) {
            reach = tcx.effective_visibilities(()).is_reachable(ld);
        }
    }
    // closure upvars
    let mut upvars: Vec<String> = vec![];
    if matches!(kind, DefKind::Closure) {
        let cty = tcx.type_of(did).instantiate_identity().skip_norm_wip();
        if let ty::Closure(_, args) = cty.kind() {
            for ut in args.as_closure().upvar_tys() {
                let (is_ref, is_mut, inner) = match ut.kind() {
                    ty::Ref(_, i, m) => (true, m.is_mut(), *i),
                    _ => (false, false, ut),
                };
                let fr = inner.is_freeze(tcx, env);
                upvars.push(format!(
                    "{{\"ty\":{},\"ref\":{},\"mut\":{},\"freeze\":{}}}",
                    esc(&ty_str(ut)),
                    is_ref,
                    is_mut,
                    fr
                ));
            }
        }
    }
    let sig = if matches!(kind, DefKind::Fn | DefKind::AssocFn) {
        with_no_trimmed_paths!(format!("{:?}", tcx.fn_sig(did).instantiate_identity().skip_norm_wip()))
    } else {
        String::new()
    };
    let is_test = false;
    let _ = is_test;
    format!(
        "{{\"path\":{},\"kind\":{},\"promoted\":{},\"parent\":{},\"vis\":{},\"reach\":{},\"impl_trait\":{},\"self_ty\":{},\"in_trait\":{},\"sig\":{},\"argc\":{},\"sp\":{},\"upvars\":[{}],\"dbg\":[{}],\"locals\":[{}],\"blocks\":[{}]}}",
        esc(&path),
        esc(&format!("{:?}", kind)),
        promoted.map(|p| p.to_string()).unwrap_or("null".into()),
        parent,
        esc(vis),
        reach,
        impl_trait,
        self_ty,
        in_trait,
        esc(&sig),
        body.arg_count,
        span_json(tcx, body.span),
        join(&upvars),
        join(&dbg),
        join(&locals),
        join(&blocks)
    )
}

fn dump_adts(tcx: TyCtxt<'_>) -> Vec<String> {
    let mut out = vec![];
    for ldid in tcx.hir_crate_items(()).definitions() {
        let did = ldid.to_def_id();
        let k = tcx.def_kind(did);
        if !matches!(k, DefKind::Struct | DefKind::Enum | DefKind::Union) {
            continue;
        }
        let ad = tcx.adt_def(did);
        let mut vars = vec![];
        for (vi, v) in ad.variants().iter_enumerated() {
            let disc = if ad.is_enum() {
                format!("{}", ad.discriminant_for_variant(tcx, vi).val)
            } else {
                "0".into()
            };
            let fields: Vec<String> = v
                .fields
                .iter()
                .map(|f| {
                    let t = tcx.type_of(f.did).instantiate_identity().skip_norm_wip();
                    format!("{{\"name\":{},\"ty\":{}}}", esc(&f.name.to_string()), esc(&ty_str(t)))
                })
                .collect();
            vars.push(format!(
                "{{\"name\":{},\"idx\":{},\"disc\":{},\"fields\":[{}]}}",
                esc(&v.name.to_string()),
                vi.as_usize(),
                esc(&disc),
                join(&fields)
            ));
        }
        let t = tcx.type_of(did).instantiate_identity().skip_norm_wip();
        let env = TypingEnv::post_analysis(tcx, did);
        let freeze = t.is_freeze(tcx, env);
        out.push(format!(
            "{{\"path\":{},\"kind\":{},\"freeze\":{},\"variants\":[{}],\"sp\":{}}}",
            esc(&path_of(tcx, did)),
            esc(&format!("{:?}", k)),
            freeze,
            join(&vars),
            span_json(tcx, tcx.def_span(did))
        ));
    }
    out
}

fn dump_impls(tcx: TyCtxt<'_>) -> Vec<String> {
    let mut out = vec![];
    for ldid in tcx.hir_crate_items(()).definitions() {
        let did = ldid.to_def_id();
        if !matches!(tcx.def_kind(did), DefKind::Impl { .. }) {
            continue;
        }
        let st = tcx.type_of(did).instantiate_identity().skip_norm_wip();
        let tr = if tcx.impl_is_of_trait(did) {
            let t = tcx.impl_trait_ref(did).instantiate_identity().skip_norm_wip();
            esc(&with_no_trimmed_paths!(format!("{}", t.print_only_trait_path())))
        } else {
            "null".into()
        };
        let trid = if tcx.impl_is_of_trait(did) {
            esc(&path_of(tcx, tcx.impl_trait_id(did)))
        } else {
            "null".into()
        };
        let items: Vec<String> = tcx
            .associated_items(did)
            .in_definition_order()
            .map(|it| {
                format!(
                    "{{\"name\":{},\"path\":{},\"kind\":{}}}",
                    esc(&it.name().to_string()),
                    esc(&path_of(tcx, it.def_id)),
                    esc(&format!("{:?}", it.kind).split('{').next().unwrap_or("").trim().to_string())
                )
            })
            .collect();
        out.push(format!(
            "{{\"self_ty\":{},\"trait\":{},\"trait_id\":{},\"items\":[{}],\"sp\":{}}}",
            esc(&ty_str(st)),
            tr,
            trid,
            join(&items),
            span_json(tcx, tcx.def_span(did))
        ));
    }
    out
}

fn dump_statics(tcx: TyCtxt<'_>) -> Vec<String> {
    let mut out = vec![];
    for ldid in tcx.hir_crate_items(()).definitions() {
        let did = ldid.to_def_id();
        let k = tcx.def_kind(did);
        match k {
            DefKind::Static { .. } => {
                let t = tcx.type_of(did).instantiate_identity().skip_norm_wip();
                let mut bytes = String::from("null");
                let mut ptr_bytes = String::from("null");
                if let Ok(alloc) = tcx.eval_static_initializer(did) {
                    let a = alloc.inner();
                    let n = a.len();
                    let raw = a.inspect_with_uninit_and_ptr_outside_interpreter(0..n);
                    bytes = esc(&raw.iter().map(|b| format!("{:02x}", b)).collect::<String>());
                    // follow one level of pointer (static X: &[T; N] = &[...])
                    for (_, prov) in a.provenance().ptrs().iter() {
                        let ga = tcx.global_alloc(prov.alloc_id());
                        if let rustc_middle::mir::interpret::GlobalAlloc::Memory(m) = ga {
                            let mi = m.inner();
                            let raw2 = mi.inspect_with_uninit_and_ptr_outside_interpreter(0..mi.len());
                            ptr_bytes =
                                esc(&raw2.iter().map(|b| format!("{:02x}", b)).collect::<String>());
                        }
                    }
                }
                let env = TypingEnv::post_analysis(tcx, did);
                out.push(format!(
                    "{{\"path\":{},\"kind\":\"static\",\"ty\":{},\"freeze\":{},\"mutable\":{},\"bytes\":{},\"pointee_bytes\":{},\"sp\":{}}}",
                    esc(&path_of(tcx, did)),
                    esc(&ty_str(t)),
                    t.is_freeze(tcx, env),
                    tcx.is_mutable_static(did),
                    bytes,
                    ptr_bytes,
                    span_json(tcx, tcx.def_span(did))
                ));
            }
            DefKind::Const { .. } | DefKind::AssocConst { .. } => {
                let t = tcx.type_of(did).instantiate_identity().skip_norm_wip();
                let mut v = String::from("null");
                let mut bytes = String::from("null");
                let mut ptrs: Vec<String> = vec![];
                let has_body = tcx.hir_maybe_body_owned_by(ldid).is_some();
                if !has_body {
                    // associated const declared in a trait without a default value
                } else if let Ok(val) = tcx.const_eval_poly(did) {
                    if let Some(si) = val.try_to_scalar_int() {
                        let size = si.size();
                        v = if t.is_signed() {
                            format!("{}", si.to_int(size))
                        } else {
                            format!("{}", si.to_uint(size))
                        };
                    } else if let rustc_middle::mir::ConstValue::Indirect { alloc_id, offset } = val {
                        if let rustc_middle::mir::interpret::GlobalAlloc::Memory(m) =
                            tcx.global_alloc(alloc_id)
                        {
                            let mi = m.inner();
                            let raw = mi.inspect_with_uninit_and_ptr_outside_interpreter(
                                offset.bytes() as usize..mi.len(),
                            );
                            bytes =
                                esc(&raw.iter().map(|b| format!("{:02x}", b)).collect::<String>());
                            for (off, prov) in mi.provenance().ptrs().iter() {
                                if let rustc_middle::mir::interpret::GlobalAlloc::Memory(m2) =
                                    tcx.global_alloc(prov.alloc_id())
                                {
                                    let m2i = m2.inner();
                                    let raw2 = m2i
                                        .inspect_with_uninit_and_ptr_outside_interpreter(0..m2i.len());
                                    ptrs.push(format!(
                                        "{{\"offset\":{},\"bytes\":{}}}",
                                        off.bytes(),
                                        esc(&raw2
                                            .iter()
                                            .map(|b| format!("{:02x}", b))
                                            .collect::<String>())
                                    ));
                                }
                            }
                        }
                    }
                }
                out.push(format!(
                    "{{\"path\":{},\"kind\":\"const\",\"ty\":{},\"v\":{},\"bytes\":{},\"ptrs\":[{}],\"sp\":{}}}",
                    esc(&path_of(tcx, did)),
                    esc(&ty_str(t)),
                    v,
                    bytes,
                    join(&ptrs),
                    span_json(tcx, tcx.def_span(did))
                ));
            }
            _ => {}
        }
    }
    out
}

impl rustc_driver::Callbacks for Cb {
    fn after_analysis<'tcx>(
        &mut self,
        _c: &rustc_interface::interface::Compiler,
        tcx: TyCtxt<'tcx>,
    ) -> Compilation {
        let want = std::env::var("FLACFACTS_CRATE").unwrap_or("flac_codec".into());
        let cname = tcx.crate_name(LOCAL_CRATE).to_string();
        if cname != want {
            return Compilation::Continue;
        }
        let out = match std::env::var("FLACFACTS_OUT") {
            Ok(o) => o,
            Err(_) => return Compilation::Continue,
        };
        let mut bodies: Vec<String> = vec![];
        for ldid in tcx.mir_keys(()) {
            let did = ldid.to_def_id();
            let k = tcx.def_kind(did);
            if !matches!(k, DefKind::Fn | DefKind::AssocFn | DefKind::Closure) {
                continue;
            }
            let body = tcx.optimized_mir(did);
            bodies.push(dump_body(tcx, did, body, None));
            let proms = tcx.promoted_mir(did);
            for (i, pb) in proms.iter_enumerated() {
                bodies.push(dump_body(tcx, did, pb, Some(i.as_usize())));
            }
        }
        let forbid_unsafe = {
            let store = rustc_lint::unerased_lint_store(tcx.sess);
            let mut lv = String::from("unknown");
            for l in store.get_lints() {
                if l.name_lower() == "unsafe_code" {
                    let r = tcx.lint_level_at_node(l, rustc_hir::CRATE_HIR_ID);
                    lv = format!("{:?}", r.level);
                }
            }
            lv
        };
        let adts = dump_adts(tcx);
        let impls = dump_impls(tcx);
        let statics = dump_statics(tcx);
        let features: Vec<String> = tcx
            .sess
            .opts
            .cg
            .target_feature
            .split(',')
            .map(|s| esc(s))
            .collect();
        let _ = features;
        let cfgs: Vec<String> = tcx
            .sess
            .config
            .iter()
            .filter(|(k, _)| k.as_str() == "feature")
            .map(|(_, v)| esc(&v.map(|s| s.to_string()).unwrap_or_default()))
            .collect();
        let s = format!(
            "{{\"crate\":{},\"unsafe_code_level\":{},\"features\":[{}],\"overflow_checks\":{},\"debug_assertions\":{},\"bodies\":[\n{}\n],\"adts\":[\n{}\n],\"impls\":[\n{}\n],\"statics\":[\n{}\n]}}\n",
            esc(&cname),
            esc(&forbid_unsafe),
            join(&cfgs),
            tcx.sess.overflow_checks(),
            tcx.sess.opts.debug_assertions,
            bodies.join(",\n"),
            adts.join(",\n"),
            impls.join(",\n"),
            statics.join(",\n")
        );
        let tmp = format!("{}.tmp.{}", out, std::process::id());
        std::fs::write(&tmp, s).expect("write facts");
        std::fs::rename(&tmp, &out).expect("rename facts");
        Compilation::Continue
    }
}

fn main() {
    let mut args: Vec<String> = std::env::args().collect();
    // RUSTC_WORKSPACE_WRAPPER passes the real rustc path as argv[1]
    if args.len() > 1 && (args[1].ends_with("rustc") || args[1].contains("/rustc")) {
        args.remove(1);
    }
    rustc_driver::run_compiler(&args, &mut Cb);
}
