"""Engine B: enumeration of panic-capable sites and their discharge by interval analysis."""
from core import *
from intervals import *
from intervals import _first_targ, _last_targ, _split_top, _Top

U63 = (1 << 63) - 1


def _ga(t):
    return [a for a in t["f"]["args"] if not a.startswith("'")]


def _int_conv(an, t, args, fallible):
    ga = _ga(t)
    dst = None
    r = ty_range(t["dty"])
    v = args[0] if args else TOP
    if isinstance(v, Tup) and len(v.vs) == 1:
        v = v.vs[0]
    if fallible:
        inner = _first_targ(t["dty"][len("std::result::Result<"):-1]) if t["dty"].startswith("std::result::Result<") else None
        rr = ty_range(inner) if inner else None
        if rr and isinstance(v, Iv):
            lo = rr[0] if v.lo is None else max(v.lo, rr[0])
            hi = rr[1] if v.hi is None else min(v.hi, rr[1])
            if lo > hi:
                return Wrap(Iv(rr[0], rr[1]), ["Err"])
            allin = v.within(rr[0], rr[1])
            return Wrap(Iv(lo, hi), ["Ok"] if allin else None)
        return None
    if r and isinstance(v, Iv):
        if v.within(r[0], r[1]):
            return v
        return Iv(r[0], r[1])
    return None


def _len(an, t, args):
    return Iv(0, U63)


def _min(an, t, args):
    a, b = args[0], args[1]
    if isinstance(a, Iv) and isinstance(b, Iv):
        lo = None if a.lo is None or b.lo is None else min(a.lo, b.lo)
        his = [x for x in (a.hi, b.hi) if x is not None]
        return Iv(lo, min(his) if his else None)
    if isinstance(a, Iv) or isinstance(b, Iv):
        x = a if isinstance(a, Iv) else b
        r = ty_range(t["dty"])
        return Iv(r[0] if r else None, x.hi)
    return None


def _max(an, t, args):
    a, b = args[0], args[1]
    if isinstance(a, Iv) and isinstance(b, Iv):
        hi = None if a.hi is None or b.hi is None else max(a.hi, b.hi)
        los = [x for x in (a.lo, b.lo) if x is not None]
        return Iv(max(los) if los else None, hi)
    return None


def _checked(op):
    def f(an, t, args):
        m = re.search(r"<impl ([a-z0-9]+)>", t["f"].get("res") or "")
        ty = m.group(1) if m else None
        r = ty_range(ty) if ty else None
        a, b = args[0], args[1]
        raw = arith(op, a, b, ty)
        if isinstance(raw, Iv) and r:
            if raw.within(r[0], r[1]) and not (op in ("Div", "Rem") and not (isinstance(b, Iv) and b.excludes(0))):
                return Wrap(raw, ["Some"])
            lo = r[0] if raw.lo is None else max(raw.lo, r[0])
            hi = r[1] if raw.hi is None else min(raw.hi, r[1])
            if lo > hi:
                return Wrap(Iv(r[0], r[1]), ["None"])
            return Wrap(Iv(lo, hi), None)
        return None
    return f


def _sat_sub(an, t, args):
    a, b = args[0], args[1]
    r = ty_range(t["dty"])
    if isinstance(a, Iv) and isinstance(b, Iv) and r and r[0] == 0:
        lo = 0 if a.lo is None or b.hi is None else max(0, a.lo - b.hi)
        return Iv(lo, a.hi if a.hi is not None else r[1])
    return None


def _bits(kind):
    def f(an, t, args):
        m = re.search(r"<impl ([a-z0-9]+)>", t["f"].get("res") or "")
        b = INT_BITS.get(m.group(1), 64) if m else 64
        if kind == "ilog2":
            return Iv(0, b - 1)
        return Iv(0, b)
    return f


def _div_ceil(an, t, args):
    a, b = args[0], args[1]
    if isinstance(a, Iv) and isinstance(b, Iv) and b.lo is not None and b.lo > 0 and a.lo is not None and a.lo >= 0:
        hi = None if a.hi is None else -(-a.hi // b.lo)
        lo = 0 if b.hi is None else -(-a.lo // b.hi)
        return Iv(lo, hi)
    return None


def _nz_get(an, t, args):
    v = args[0]
    if isinstance(v, Tup) and len(v.vs) == 1 and isinstance(v.vs[0], Iv):
        return v.vs[0]
    if isinstance(v, Iv):
        return v
    r = ty_range(t["dty"])
    return Iv(1, r[1]) if r else None


def _nz_new(an, t, args):
    v = args[0]
    if isinstance(v, Iv):
        if v.excludes(0):
            return Wrap(v, ["Some"])
        if v.const() == 0:
            return Wrap(TOP, ["None"])
        lo = v.lo
        if lo is not None and lo == 0:
            lo = 1
        return Wrap(Iv(lo, v.hi), None)
    return None


def _unwrap(an, t, args):
    w = args[0]
    if isinstance(w, Wrap):
        return w.payload
    return None


def _unwrap_or(an, t, args):
    w = args[0]
    if isinstance(w, Wrap) and len(args) > 1:
        return join(w.payload, args[1])
    return None


def _unwrap_or_default(an, t, args):
    w = args[0]
    if isinstance(w, Wrap):
        return join(w.payload, Iv(0, 0))
    return None


def _branch(an, t, args):
    w = args[0]
    if isinstance(w, Wrap):
        vs = None
        if w.variants is not None:
            vs = {"Continue" if v in ("Ok", "Some") else "Break" for v in w.variants}
        return Wrap(w.payload, vs)
    return None


def _passthrough(an, t, args):
    w = args[0]
    if isinstance(w, Wrap):
        vs = None
        if w.variants is not None:
            vs = {{"Some": "Ok", "None": "Err", "Ok": "Ok", "Err": "Err"}.get(v, v) for v in w.variants} if "ok_or" in (t["f"].get("res") or "") else w.variants
        return Wrap(w.payload, vs)
    return None


def _bitread(an, t, args):
    ga = _ga(t)
    # ga = [Self, N, T]
    try:
        n = int(ga[1])
    except Exception:
        return None
    ty = ga[2] if len(ga) > 2 else ""
    r = ty_range(ty)
    if r is None:
        return None
    if ty.startswith("i"):
        return Wrap(Iv(-(1 << (n - 1)), (1 << (n - 1)) - 1), None)
    if ty.startswith("std::num::NonZero<"):
        return Wrap(Iv(1, (1 << n)), None)
    return Wrap(Iv(0, min((1 << n) - 1, r[1])), None)


def _unsigned_abs(an, t, args):
    m = re.search(r"<impl ([a-z0-9]+)>", t["f"].get("res") or "")
    b = INT_BITS.get(m.group(1), 64) if m else 64
    v = args[0]
    if isinstance(v, Iv) and v.lo is not None and v.hi is not None:
        c = [abs(v.lo), abs(v.hi)]
        lo = 0 if v.lo <= 0 <= v.hi else min(c)
        return Iv(lo, max(c))
    return Iv(0, 1 << (b - 1))


def _local_ret(an, t, args):
    """return interval of a small local function (memoised, argument intervals ignored)"""
    f = t["f"]
    if not (f.get("res") and f.get("res_local")):
        return None
    return an.F_ret(f["res"], t["dty"])


SUMMARIES = [(re.compile(p), fn) for p, fn in [
    (r"^bitstream_io::BitRead::read$", _bitread),
    (r"<impl \[T\]>::len$|Vec::<T, A>::len$|VecDeque::<T, A>::len$|<impl str>::len$|ArrayVec::<T, CAP>::len$|String::len$|ExactSizeIterator::len$|::len$", _len),
    (r"std::cmp::Ord::min$|std::cmp::min$|as std::cmp::Ord>::min$", _min),
    (r"std::cmp::Ord::max$|std::cmp::max$|as std::cmp::Ord>::max$", _max),
    (r"core::num::<impl [a-z0-9]+>::checked_add$", _checked("Add")),
    (r"core::num::<impl [a-z0-9]+>::checked_sub$", _checked("Sub")),
    (r"core::num::<impl [a-z0-9]+>::checked_mul$", _checked("Mul")),
    (r"core::num::<impl [a-z0-9]+>::checked_div$", _checked("Div")),
    (r"core::num::<impl [a-z0-9]+>::checked_rem$", _checked("Rem")),
    (r"core::num::<impl [a-z0-9]+>::saturating_sub$", _sat_sub),
    (r"core::num::<impl [a-z0-9]+>::(trailing_zeros|leading_zeros|count_ones|count_zeros)$", _bits("bits")),
    (r"core::num::<impl [a-z0-9]+>::ilog2$", _bits("ilog2")),
    (r"core::num::<impl [a-z0-9]+>::div_ceil$", _div_ceil),
    (r"core::num::<impl [a-z0-9]+>::unsigned_abs$", _unsigned_abs),
    (r"NonZero::<T>::get$", _nz_get),
    (r"NonZero::<T>::new$", _nz_new),
    (r"::Option::<T>::(unwrap|expect)$|::Result::<T, E>::(unwrap|expect)$", _unwrap),
    (r"::Option::<T>::unwrap_or$|::Result::<T, E>::unwrap_or$", _unwrap_or),
    (r"::Option::<T>::unwrap_or_default$|::Result::<T, E>::unwrap_or_default$", _unwrap_or_default),
    (r"Try>::branch$|::Try::branch$", _branch),
    (r"::Option::<T>::ok_or$|::Option::<T>::ok_or_else$|::Result::<T, E>::map_err$|::Option::<&T>::copied$|::Option::<&T>::cloned$|::Option::<T>::filter$|::Result::<T, E>::inspect$", _passthrough),
    (r"^std::convert::(From::from|Into::into)$|::From<.*>>::from$|::Into<.*>>::into$", lambda an, t, a: _int_conv(an, t, a, False)),
    (r"^std::convert::(TryFrom::try_from|TryInto::try_into)$|::TryFrom<.*>>::try_from$|::TryInto<.*>>::try_into$", lambda an, t, a: _int_conv(an, t, a, True)),
    (r".", _local_ret),
]]


# ---------------------------------------------------------------------------------------------------
# site enumeration
# ---------------------------------------------------------------------------------------------------

PANIC_CALLS = [
    # (regex on callee, kind, argument index that must be non-zero / None)
    (r"::Option::<T>::(unwrap|expect)$", "unwrap:Option", None),
    (r"::Result::<T, E>::(unwrap|expect|unwrap_err|expect_err)$", "unwrap:Result", None),
    (r"^core::panicking::|^std::rt::(begin_panic|panic_fmt)|^core::panicking::panic", "panic", None),
    (r"<impl \[T\]>::(chunks|chunks_mut|chunks_exact|chunks_exact_mut|rchunks|rchunks_mut|rchunks_exact|rchunks_exact_mut|windows)$", "nonzero-arg", 1),
    (r"Iterator::step_by$", "nonzero-arg", 1),
    (r"core::num::<impl [a-z0-9]+>::(ilog2|ilog10|ilog)$|NonZero::<T>::ilog2$", "nonzero-arg", 0),
    (r"core::num::<impl [a-z0-9]+>::div_ceil$|core::num::<impl [a-z0-9]+>::(rem_euclid|div_euclid|next_multiple_of)$", "nonzero-arg", 1),
    (r"<impl \[T\]>::(split_at|split_at_mut|copy_from_slice|clone_from_slice|swap|rotate_left|rotate_right|copy_within|select_nth_unstable.*)$", "length-arg", None),
    (r"(Vec|VecDeque)::<T, A>::(drain|remove|swap_remove|insert|split_off|truncate_front)$|<impl str>::split_at$|String::(remove|insert|insert_str|drain|split_off|replace_range)$", "length-arg", None),
    (r"ArrayVec::<T, CAP>::(push|insert|extend_from_slice|try_extend_from_slice)$|<arrayvec::ArrayVec<T, CAP> as std::iter::(Extend|FromIterator)<T>>::(extend|from_iter)$", "capacity", None),
    (r"(Index|IndexMut)<.*>( for .*)?>::(index|index_mut)$|std::ops::(Index::index|IndexMut::index_mut)$", "index", None),
    (r"core::num::<impl [a-z0-9]+>::(abs|pow|next_power_of_two)$", "overflow-call", None),
    (r"^<[iu](8|16|32|64|size) as std::ops::(Add|Sub|Mul|Div|Rem|Shl|Shr|Neg)(Assign)?(<.*>)?>::(add|sub|mul|div|rem|shl|shr|neg)(_assign)?$|^<&[iu](8|16|32|64|size) as std::ops::(Add|Sub|Mul|Div|Rem|Shl|Shr|Neg)(<.*>)?>::", "overflow-call", None),
    (r"Iterator::(sum|product)$", "overflow-sum", None),
    (r"std::time::Duration::new$|Duration::(from_secs_f|mul|add|sub)", "overflow-call", None),
    (r"RefCell<.*>::borrow", "panic", None),
]
PANIC_CALLS = [(re.compile(p), k, a) for p, k, a in PANIC_CALLS]
GENERIC_OPS = re.compile(r"^std::ops::(Add|Sub|Mul|Div|Rem|Shl|Shr|Neg|AddAssign|SubAssign|MulAssign|DivAssign|RemAssign|ShlAssign|ShrAssign)::")


class Site:
    __slots__ = ("body", "block", "kind", "detail", "term", "discharged", "why")

    def __init__(self, body, block, kind, detail, term):
        self.body = body
        self.block = block
        self.kind = kind
        self.detail = detail
        self.term = term
        self.discharged = False
        self.why = ""

    def key(self):
        # closure ordinals are dropped: inserting an unrelated closure must not re-key the audited sites
        fn = strip_generics(self.body.path) if not self.body.path.startswith("<") else self.body.path
        fn = re.sub(r"\{closure#\d+\}", "{closure}", fn)
        return "%s|%s|%s" % (fn, self.kind, self.detail)

    def loc(self):
        sp = self.term.get("sp")
        return "%s:%d" % (sp["file"], sp["line"]) if sp else self.body.loc()


def enumerate_sites(body):
    out = []
    for bi, bl in enumerate(body.blocks):
        if bl["cleanup"]:
            continue
        t = bl["t"]
        if not t:
            continue
        if t["t"] == "assert":
            out.append(Site(body, bi, "assert", "%s:%s" % (t["ak"], t.get("oty") or ""), t))
        elif t["t"] == "call":
            name = t["f"].get("res") or t["f"].get("path") or ""
            path = t["f"].get("path") or ""
            hit = False
            for pat, kind, ai in PANIC_CALLS:
                if pat.search(name):
                    if kind == "overflow-sum" and any(a in ("f64", "f32") for a in t["f"]["args"]):
                        break   # float sums do not panic
                    if kind == "length-arg" and re.search(r"::drain$", name) and any("RangeFull" in x for x in t["aty"]):
                        break   # drain(..) over the full range cannot be out of bounds
                    short = strip_generics(name).rsplit("::", 2)
                    out.append(Site(body, bi, kind, "::".join(short[-2:]) if len(short) > 1 else short[-1], t))
                    hit = True
                    break
            if not hit and re.search(r"Iterator::collect$|FromIterator::from_iter$|FromIterator<.*>>::from_iter$", name):
                tgt = t["dty"]
                m = re.search(r"arrayvec::ArrayVec<.*?, (\d+)>", tgt)
                if m:
                    out.append(Site(body, bi, "capacity", "collect:ArrayVec<%s>" % m.group(1), t))
                    hit = True
            if not hit and t["f"].get("res") is None and GENERIC_OPS.search(path):
                # arithmetic on a generic integer type: overflow-capable in both instantiations
                out.append(Site(body, bi, "generic-arith", path.rsplit("::", 2)[-2] + ":" + (t["f"]["args"][0] if t["f"]["args"] else "?"), t))
    return out


class BodyAnalysis(Analysis):
    RET = {}

    def F_ret(self, callee, dty):
        key = (id(self.F), callee)
        if key in BodyAnalysis.RET:
            return BodyAnalysis.RET[key]
        BodyAnalysis.RET[key] = None   # recursion guard
        cb = self.F.body(callee)
        r = ty_range(dty)
        isopt = dty.startswith("std::option::Option<") or dty.startswith("std::result::Result<")
        if cb is None or (r is None and not isopt) or len(cb.blocks) > 60:
            return None
        try:
            an = BodyAnalysis(self.F, cb, SUMMARIES)
            acc = None
            for rb in cb.return_blocks():
                st = an.state_at_term(rb)
                if st is None:
                    continue
                v = st["v"].get(0)
                if v is None:
                    v = an.default(0)
                acc = join(acc, v)
            if isinstance(acc, (Iv, Wrap)):
                BodyAnalysis.RET[key] = acc
                return acc
        except RecursionError:
            pass
        return None


class Program:
    """whole-crate driver: call-site argument intervals for private functions, per-body analyses on demand"""

    def __init__(self, F, rounds=3):
        self.F = F
        self.args = {}
        self.an = {}
        bodies = [b for b in F.bodies if b.promoted is None]
        for rnd in range(rounds):
            new = {}
            self.an = {}
            for b in bodies:
                if len(b.blocks) > 900:
                    continue
                try:
                    an = self.analysis(b)
                except RecursionError:
                    continue
                for bi, t in b.calls():
                    f = t["f"]
                    if not (f.get("res") and f.get("res_local")):
                        continue
                    cb = F.body(f["res"])
                    if cb is None or cb.kind == "Closure":
                        continue
                    st = an.state_at_term(bi)
                    if st is None:
                        continue
                    vals = [an.operand(st, a) for a in t["a"]]
                    cur = new.setdefault(f["res"], [None] * len(vals))
                    for i, v in enumerate(vals):
                        if i < len(cur):
                            cur[i] = join(cur[i], v)
            changed = new != self.args
            self.args = new
            if not changed:
                break
        self.an = {}

    def arg_values(self, b):
        # functions reachable from outside the crate keep unconstrained arguments
        if b.kind == "Closure" or b.j.get("reach") or b.j.get("impl_trait"):
            return {}
        vals = self.args.get(b.path)
        if not vals:
            return {}
        out = {}
        for i, v in enumerate(vals):
            if isinstance(v, (Iv, Tup, Wrap)):
                out[i + 1] = v
        return out

    def analysis(self, b):
        if b.key not in self.an:
            self.an[b.key] = BodyAnalysis(self.F, b, SUMMARIES, self.arg_values(b))
        return self.an[b.key]


def _stable_root(body, rp):
    """the place is rooted in a local that is written at most once (an argument or a single binding)"""
    return rp is not None and len([d for d in body.defs().get(rp["l"], []) if not d[2]["d"]["p"]]) <= 1


def _le_len_of(body, o, slice_rp, depth=3):
    """operand o is structurally <= len(the slice at slice_rp): it is that slice's len(), or a min() with such a value"""
    if depth < 0 or op_place(o) is None:
        return False
    org = origins(body, o)
    if not org:
        return False
    for k, x in org:
        if k == "place" and x["p"] and x["p"][0].startswith("as Some"):
            # the variable of `for i in a..x.len()`: i < end <= len(x)
            end = _range_loop_end(body, x["l"])
            if end is not None and _le_len_of(body, end, slice_rp, depth - 1):
                continue
            return False
        if k == "place" and x["p"] and x["p"][0].startswith(".0") and len(x["p"]) == 1:
            # the value half of a checked subtraction: len - something <= len
            ds = [d for d in body.defs().get(x["l"], []) if not d[2]["d"]["p"]]
            if len(ds) == 1 and ds[0][1] != "T" and ds[0][2]["rv"]["r"] == "bin" and ds[0][2]["rv"]["op"].startswith("Sub") and _le_len_of(body, ds[0][2]["rv"]["a"], slice_rp, depth - 1):
                continue
            return False
        if k == "bin" and x["op"].startswith("Sub") and _le_len_of(body, x["a"], slice_rp, depth - 1):
            continue
        if k != "call":
            return False
        n = x["f"].get("res") or x["f"].get("path") or ""
        if re.search(r"<impl \[T\]>::len$", n) and x["a"] and root_place(body, x["a"][0]) == slice_rp:
            continue
        if re.search(r"cmp::Ord::min$|cmp::min$|as std::cmp::Ord>::min$", n) and any(_le_len_of(body, a, slice_rp, depth - 1) for a in x["a"]):
            continue
        return False
    return True


def _range_loop_end(body, l):
    """local l holds the result of Range::next() on an iterator made from `start..end` in this body: the `end` operand"""
    ds = [d for d in body.defs().get(l, []) if not d[2]["d"]["p"]]
    if len(ds) != 1 or ds[0][1] != "T":
        return None
    nx = ds[0][2]
    if not re.search(r"for std::ops::Range<A>>::next$", nx["f"].get("res") or nx["f"].get("path") or "") or not nx["a"]:
        return None
    rp = root_place(body, nx["a"][0])          # through the `&mut *&mut iter` re-borrows of the for-loop desugaring
    if rp is None or [e for e in rp["p"] if e != "*"]:
        return None
    il = rp["l"]
    for _ in range(4):
        di = [d for d in body.defs().get(il, []) if not d[2]["d"]["p"]]
        if len(di) == 1 and di[0][1] != "T" and di[0][2]["rv"]["r"] == "use" and op_place(di[0][2]["rv"]["o"]) is not None and not op_place(di[0][2]["rv"]["o"])["p"]:
            il = op_place(di[0][2]["rv"]["o"])["l"]        # `let mut iter = into_iter(..)` moved into the loop's iterator slot
            continue
        break
    if len(di) != 1:
        return None
    src = di[0][2]
    rng = None
    if di[0][1] == "T" and re.search(r"IntoIterator>::into_iter$", src["f"].get("res") or src["f"].get("path") or "") and src["a"]:
        ag = [x for k, x in origins(body, src["a"][0]) if k == "agg" and x.get("adt") == "std::ops::Range"]
        rng = ag[0] if len(ag) == 1 and len(origins(body, src["a"][0])) == 1 else None
    return rng["ops"][1] if rng is not None else None


def _prefix_range(body, t):
    """for an Index / IndexMut call on a slice with `..end` or `0..end`: (slice root place, end operand) when end <= len
    is structurally evident, else None"""
    if len(t["a"]) < 2 or not t["aty"] or not re.match(r"^&(mut )?\[", t["aty"][0]):
        return None
    rp = root_place(body, t["a"][0])
    if not _stable_root(body, rp):
        return None
    rng = [x for k, x in origins(body, t["a"][1]) if k == "agg" and x.get("adt") in ("std::ops::RangeTo", "std::ops::Range")]
    if len(rng) != 1 or len(origins(body, t["a"][1])) != 1:
        return None
    x = rng[0]
    if x["adt"] == "std::ops::Range" and op_int(x["ops"][0]) != 0:
        return None
    end = x["ops"][-1]
    return (rp, end) if _le_len_of(body, end, rp) else None


def _const_range_within_known_len(body, an, st, t):
    """x[a..b] / x[..b] / x[a..] with constant bounds, where the interval state at the site knows a lower bound of x.len()
    (from an `x.len() == 12` / `>= n` test on this path) that covers the bounds"""
    if len(t["a"]) < 2 or not t.get("aty") or not re.match(r"^&(mut )?\[", t["aty"][0]):
        return False
    rp = root_place(body, t["a"][0])
    if not _stable_root(body, rp):
        return False
    org = origins(body, t["a"][1])
    rng = [x for k, x in org if k == "agg" and x.get("adt") in ("std::ops::Range", "std::ops::RangeTo", "std::ops::RangeFrom", "std::ops::RangeInclusive", "std::ops::RangeToInclusive")]
    if len(rng) != 1 or len(org) != 1:
        return False
    x = rng[0]
    bounds = [op_int(o) for o in x["ops"]]
    if any(v is None for v in bounds) or not bounds:
        return False
    need = max(bounds) + (1 if "Inclusive" in x["adt"] else 0)
    if x["adt"] == "std::ops::Range" and bounds[0] > bounds[1]:
        return False
    lo = None
    for _, c in body.calls():
        n = c["f"].get("res") or c["f"].get("path") or ""
        if re.search(r"<impl \[T\]>::len$", n) and c["a"] and root_place(body, c["a"][0]) == rp and not c["d"]["p"]:
            v = an.read(st, {"l": c["d"]["l"], "p": []})
            if isinstance(v, Iv) and v.lo is not None:
                lo = v.lo if lo is None else max(lo, v.lo)
    return lo is not None and lo >= need


def discharge(F, body, sites, an=None):
    """mark sites that the interval analysis proves cannot fire"""
    if not sites:
        return an
    if an is None:
        an = BodyAnalysis(F, body, SUMMARIES)
    for s in sites:
        st = an.state_at_term(s.block)
        if st is None:
            s.discharged = True
            s.why = "unreachable (interval analysis prunes the path)"
            continue
        t = s.term
        if s.kind == "assert" and t["ak"].startswith("Other:") and ("PointerDereference" in t["ak"]) and "vec" in (t["sp"].get("exp") or []):
            s.discharged = True
            s.why = "rustc debug pointer check on the fresh allocation of a vec![] expansion"
            continue
        if s.kind == "assert":
            v = an.operand(st, t["c"])
            want = 1 if t["expected"] else 0
            if isinstance(v, Iv) and v.const() == want:
                s.discharged = True
                s.why = "condition is always %s: operands %s" % (bool(want), [repr(an.operand(st, o)) for o in t["ops"]])
                continue
            if t["ak"] == "Bounds":
                ln, idx = t["ops"]
                if an.knows_lt(st, idx, ln):
                    s.discharged = True
                    s.why = "index < len known on every path"
                    continue
            # relational: the condition local is a comparison whose truth is a known fact
            l = op_local(t["c"])
            c = an.conds.get(l) if l is not None else None
            if c and c[0] in ("Lt", "Le") and t["expected"]:
                if c[0] == "Lt" and an.knows_lt(st, c[1], c[2]):
                    s.discharged = True
                    s.why = "lt fact"
                    continue
        elif s.kind in ("unwrap:Option", "unwrap:Result"):
            w = an.operand(st, t["a"][0])
            if isinstance(w, Wrap) and w.variants is not None and w.variants <= {"Some", "Ok"}:
                s.discharged = True
                s.why = "value is always %s" % sorted(w.variants)
                continue
        elif s.kind == "index" and len(t.get("aty") or []) > 1 and t["aty"][1] == "std::ops::RangeFull":
            s.discharged = True
            s.why = "indexing with the full range `..` cannot fail"
            continue
        elif s.kind == "index" and _const_range_within_known_len(body, an, st, t):
            s.discharged = True
            s.why = "constant range within the slice's length, which an earlier len() test fixed on this path"
            continue
        elif s.kind == "index" and _prefix_range(body, t) is not None:
            s.discharged = True
            s.why = "prefix range whose end is min(.., len of the very slice indexed)"
            continue
        elif s.kind == "length-arg" and re.search(r"<impl \[T\]>::(split_at|split_at_mut)$", t["f"].get("res") or t["f"].get("path") or "") and len(t["a"]) == 2 and \
                _stable_root(body, root_place(body, t["a"][0])) and _le_len_of(body, t["a"][1], root_place(body, t["a"][0])):
            s.discharged = True
            s.why = "split point is structurally <= len of the very slice split (len - .. / min(len, ..))"
            continue
        elif s.kind == "length-arg" and re.search(r"<impl \[T\]>::copy_from_slice$", t["f"].get("res") or t["f"].get("path") or "") and len(t["a"]) == 2:
            # dst[..n].copy_from_slice(&src[..n]) with both prefixes proven in range: equal lengths
            ends = []
            for a in t["a"]:
                cur, src = a, []
                for _ in range(5):      # through re-borrows (&*x) to the call that produced the slice
                    org = origins(body, cur)
                    if len(org) == 1 and org[0][0] == "call":
                        src = [org[0][1]]
                        break
                    if len(org) == 1 and org[0][0] == "ref" and all(e == "*" for e in org[0][1]["p"]["p"]):
                        cur = {"c": {"l": org[0][1]["p"]["l"], "p": []}}
                        continue
                    break
                pr = _prefix_range(body, src[0]) if len(src) == 1 and re.search(r"(Index|IndexMut)<.*>( for .*)?>::(index|index_mut)$", src[0]["f"].get("res") or src[0]["f"].get("path") or "") else None
                ends.append([id(x) for k, x in origins(body, pr[1])] if pr else None)
            if ends[0] and ends[0] == ends[1]:
                s.discharged = True
                s.why = "both slices are prefixes of the same proven length"
                continue
        elif s.kind == "nonzero-arg":
            for pat, kind, ai in PANIC_CALLS:
                if kind == "nonzero-arg" and pat.search(t["f"].get("res") or t["f"].get("path") or ""):
                    v = an.operand(st, t["a"][ai])
                    if isinstance(v, Tup) and len(v.vs) == 1:
                        v = v.vs[0]
                    if isinstance(v, Iv) and v.excludes(0):
                        s.discharged = True
                        s.why = "argument in %r excludes 0" % v
                    break
        elif s.kind == "overflow-call":
            nm = t["f"].get("res") or ""
            m = re.match(r"^<&?([iu](?:8|16|32|64|size)) as std::ops::(Add|Sub|Mul|Div|Rem|Shl|Shr)", nm)
            if m:
                ty, op = m.group(1), m.group(2)
                a = an.operand(st, t["a"][0])
                b = an.operand(st, t["a"][1]) if len(t["a"]) > 1 else TOP
                raw = arith(op, a, b, ty)
                r = ty_range(ty)
                if isinstance(raw, Iv) and r and raw.within(r[0], r[1]) and not (op in ("Div", "Rem") and not (isinstance(b, Iv) and b.excludes(0))):
                    s.discharged = True
                    s.why = "result %r fits %s" % (raw, ty)
    return an
