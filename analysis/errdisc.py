"""Engine D1: error discipline.  Every call whose result is Result<_, io::Error | crate::Error> must have that
result propagated (?, returned, passed on to a combinator/callee) or matched with its Err payload read.
Reports: result dropped unused, converted with ok()/is_ok()/is_err()/unwrap_or*, or matched without reading Err."""
from core import *

SWALLOW = re.compile(r"::Result::<T, E>::(ok|is_ok|is_err|unwrap_or|unwrap_or_default|unwrap_or_else|is_ok_and|is_err_and|iter|into_iter|err)$")
PANIC = re.compile(r"::Result::<T, E>::(unwrap|expect|unwrap_err|expect_err)$")


def err_type(ty):
    """error type of a Result type string, or None"""
    if not ty.startswith("std::result::Result<"):
        return None
    inner = ty[len("std::result::Result<"):-1]
    depth = 0
    for i, c in enumerate(inner):
        if c in "<([":
            depth += 1
        elif c in ">)]":
            depth -= 1
        elif c == "," and depth == 0:
            return inner[i + 1:].strip()
    return None


def is_io_bearing(et):
    return et in ("std::io::Error", "Error") or et == "E"


def uses_of(body, l):
    """(kind, where, detail) for every read of local l"""
    out = []
    for bi, bl in enumerate(body.blocks):
        for si, s in enumerate(bl["s"]):
            rv = s["rv"]
            for o in rv_operands(rv):
                p = op_place(o)
                if p and p["l"] == l:
                    out.append(("stmt", bi, s, p))
            if rv["r"] in ("ref", "disc") and rv["p"]["l"] == l:
                out.append((rv["r"], bi, s, rv["p"]))
        t = bl["t"]
        if not t:
            continue
        if t["t"] == "call":
            for ai, a in enumerate(t["a"]):
                p = op_place(a)
                if p and p["l"] == l:
                    out.append(("callarg", bi, t, ai))
        elif t["t"] == "switch":
            p = op_place(t["o"])
            if p and p["l"] == l:
                out.append(("switch", bi, t, p))
        elif t["t"] == "drop":
            if t["p"]["l"] == l:
                out.append(("drop", bi, t, t["p"]))
    return out


def _reaches_return(body, stmt_uses, depth=4):
    """one of the uses moves the whole value on, through plain moves, into the return place"""
    for u3 in stmt_uses:
        if u3[0] == "stmt" and not u3[3]["p"] and u3[2]["rv"]["r"] == "use" and not u3[2]["d"]["p"]:
            if u3[2]["d"]["l"] == 0:
                return True
            if depth > 0 and _reaches_return(body, [x for x in uses_of(body, u3[2]["d"]["l"]) if x[0] != "drop"], depth - 1):
                return True
    return False


def analyse_body(F, body):
    """yield (key, loc, what) findings for one body"""
    for bi, t in body.calls():
        et = err_type(t["dty"])
        if et is None or not is_io_bearing(et):
            continue
        if body.blocks[bi]["cleanup"]:
            continue
        name = strip_generics(callee_name(t))
        d = t["d"]
        if d["p"]:
            continue  # stored into a field: tracked by its later uses (not modelled)
        l = d["l"]
        if l == 0:
            continue  # returned
        finding = classify(F, body, l, set())
        if finding is not None:
            yield ("%s|%s|%s" % (strip_generics(body.path), name, finding[0]), body.loc(t["sp"]), finding[1])


def classify(F, body, l, seen):
    """None if the Result in local l is propagated/handled, else (kind, text)"""
    if l in seen:
        return None
    seen.add(l)
    us = [u for u in uses_of(body, l)]
    real = [u for u in us if u[0] != "drop"]
    if not real:
        return ("dropped", "result is never examined (dropped)")
    handled = False
    for u in real:
        kind = u[0]
        if kind == "callarg":
            t = u[2]
            nm = callee_name(t)
            if SWALLOW.search(nm):
                return ("swallowed:" + nm.rsplit("::", 1)[1], "error discarded with .%s()" % nm.rsplit("::", 1)[1])
            if PANIC.search(nm):
                return ("unwrapped", "I/O-bearing result is unwrapped (panics on error)")
            # passed on: the callee's own result must be handled in turn if it is again a Result we track
            et2 = err_type(t["dty"])
            if et2 is not None and is_io_bearing(et2) and not t["d"]["p"] and t["d"]["l"] != 0:
                sub = classify(F, body, t["d"]["l"], seen)
                if sub is not None:
                    return sub
            elif re.search(r"Try>::branch$|::Try::branch$", nm):
                pass
            handled = True
        elif kind == "stmt":
            s = u[2]
            # moved/copied into another local or into the return place / an aggregate
            dl = s["d"]["l"]
            if dl == 0 or s["d"]["p"]:
                handled = True
            elif s["rv"]["r"] in ("use",) and not u[3]["p"]:
                sub = classify(F, body, dl, seen)
                if sub is not None:
                    return sub
                handled = True
            else:
                handled = True
        elif kind == "ref":
            s = u[2]
            sub = classify(F, body, s["d"]["l"], seen)
            if sub is not None and sub[0] == "err-arm-ignores-error" and _reaches_return(body, real):
                sub = None      # only looked at through a reference (`if let Ok(n) = &r`), then handed on whole
            if sub is not None:
                return sub
            handled = True
        elif kind == "disc":
            # a match: the Err payload must be read somewhere
            errread = False
            for u2 in real:
                if u2[0] in ("stmt", "ref"):
                    p = u2[3]
                    if any(e.startswith("as Err") for e in p["p"]):
                        errread = True
            # tuple-of-results matches etc. are handled through the aggregate (stmt) case
            if not errread:
                # `if let Ok(x) = r { .. }; r` - the result is looked at and then handed on whole: the error is propagated
                if _reaches_return(body, real):
                    errread = True
            if not errread:
                # is the Err arm returning an error of its own? (e.g. `Err(_) => return Err(X)`)
                return ("err-arm-ignores-error", "matched, but the Err payload is never read: the error is silently replaced or ignored")
            handled = True
    return None if handled else ("unused", "result not propagated")
