"""Forward interval analysis over one MIR body (engine B's discharger).

Abstract values
  Iv(lo, hi)                 integer interval (Python ints; None = unbounded on that side)
  Tup([v0, v1, ..])          tuple / checked-arithmetic pair
  Wrap(payload, variants)    Option/Result/ControlFlow-like: payload value if in a payload-carrying variant;
                             variants = set of possible variant names or None (unknown)
  TOP                        anything
Relational side facts: set of ("lt"|"le", a, b) over canonical operands (locals/consts) learnt from branch
conditions, used for bounds checks `index < len`.
"""
from core import *

INF = None
INT_BITS = {"u8": 8, "u16": 16, "u32": 32, "u64": 64, "usize": 64, "u128": 128,
            "i8": 8, "i16": 16, "i32": 32, "i64": 64, "isize": 64, "i128": 128, "bool": 1, "char": 21}


def ty_range(ty):
    ty = ty.strip()
    if ty.startswith("std::num::NonZero<") and ty.endswith(">"):
        lo, hi = ty_range(ty[len("std::num::NonZero<"):-1]) or (None, None)
        if lo == 0:
            return (1, hi)
        return (lo, hi)
    b = INT_BITS.get(ty)
    if b is None:
        return None
    if ty.startswith("i"):
        return (-(1 << (b - 1)), (1 << (b - 1)) - 1)
    return (0, (1 << b) - 1)


class Iv:
    __slots__ = ("lo", "hi")

    def __init__(self, lo, hi):
        self.lo = lo
        self.hi = hi

    def __eq__(self, o):
        return isinstance(o, Iv) and self.lo == o.lo and self.hi == o.hi

    def __hash__(self):
        return hash((self.lo, self.hi))

    def __repr__(self):
        return "[%s,%s]" % ("-inf" if self.lo is None else self.lo, "+inf" if self.hi is None else self.hi)

    def within(self, lo, hi):
        return self.lo is not None and self.hi is not None and self.lo >= lo and self.hi <= hi

    def excludes(self, v):
        return (self.lo is not None and self.lo > v) or (self.hi is not None and self.hi < v)

    def const(self):
        return self.lo if self.lo is not None and self.lo == self.hi else None


class Tup:
    __slots__ = ("vs",)

    def __init__(self, vs):
        self.vs = list(vs)

    def __eq__(self, o):
        return isinstance(o, Tup) and self.vs == o.vs

    def __hash__(self):
        return hash(tuple(self.vs))

    def __repr__(self):
        return "(%s)" % ",".join(map(repr, self.vs))


class Wrap:
    __slots__ = ("payload", "variants")

    def __init__(self, payload, variants=None):
        self.payload = payload
        self.variants = frozenset(variants) if variants is not None else None

    def __eq__(self, o):
        return isinstance(o, Wrap) and self.payload == o.payload and self.variants == o.variants

    def __hash__(self):
        return hash((self.payload, self.variants))

    def __repr__(self):
        return "Wrap(%r,%s)" % (self.payload, sorted(self.variants) if self.variants is not None else "?")


class _Top:
    def __repr__(self):
        return "T"


TOP = _Top()


def full(ty):
    r = ty_range(ty) if ty else None
    return Iv(r[0], r[1]) if r else TOP


def join(a, b):
    if a is None:
        return b
    if b is None:
        return a
    if a is TOP or b is TOP:
        return TOP
    if isinstance(a, Iv) and isinstance(b, Iv):
        lo = None if a.lo is None or b.lo is None else min(a.lo, b.lo)
        hi = None if a.hi is None or b.hi is None else max(a.hi, b.hi)
        return Iv(lo, hi)
    if isinstance(a, Tup) and isinstance(b, Tup) and len(a.vs) == len(b.vs):
        return Tup([join(x, y) for x, y in zip(a.vs, b.vs)])
    if isinstance(a, Wrap) and isinstance(b, Wrap):
        vs = None if a.variants is None or b.variants is None else a.variants | b.variants
        pa, pb = a.payload, b.payload
        # a value known to carry no payload does not constrain the payload
        if a.variants is not None and not (a.variants & {"Some", "Ok", "Continue"}):
            return Wrap(pb, vs)
        if b.variants is not None and not (b.variants & {"Some", "Ok", "Continue"}):
            return Wrap(pa, vs)
        return Wrap(join(pa, pb), vs)
    return TOP


def widen(old, new, ty=None):
    if old is None:
        return new
    if isinstance(old, Iv) and isinstance(new, Iv):
        r = ty_range(ty) if ty else None
        lo = old.lo if (new.lo is not None and old.lo is not None and new.lo >= old.lo) else (r[0] if r else None)
        hi = old.hi if (new.hi is not None and old.hi is not None and new.hi <= old.hi) else (r[1] if r else None)
        return Iv(lo, hi)
    if isinstance(old, Tup) and isinstance(new, Tup) and len(old.vs) == len(new.vs):
        return Tup([widen(o, n) for o, n in zip(old.vs, new.vs)])
    if isinstance(old, Wrap) and isinstance(new, Wrap):
        vs = None if old.variants is None or new.variants is None else old.variants | new.variants
        return Wrap(widen(old.payload, new.payload), vs)
    return join(old, new)


def _add(a, b):
    return None if a is None or b is None else a + b


def arith(op, a, b, ty):
    """interval of a op b in unbounded integers (caller clamps); returns Iv or TOP"""
    if not isinstance(a, Iv) or not isinstance(b, Iv):
        return TOP
    if op == "Add":
        return Iv(_add(a.lo, b.lo), _add(a.hi, b.hi))
    if op == "Sub":
        return Iv(None if a.lo is None or b.hi is None else a.lo - b.hi, None if a.hi is None or b.lo is None else a.hi - b.lo)
    if op == "Mul":
        if None in (a.lo, a.hi, b.lo, b.hi):
            if a.lo is not None and a.lo >= 0 and b.lo is not None and b.lo >= 0:
                return Iv(a.lo * b.lo, None)
            return Iv(None, None)
        c = [a.lo * b.lo, a.lo * b.hi, a.hi * b.lo, a.hi * b.hi]
        return Iv(min(c), max(c))
    if op == "Div":
        if b.lo is not None and b.lo > 0 and a.lo is not None and a.lo >= 0:
            return Iv(a.lo // b.hi if b.hi is not None else 0, None if a.hi is None else a.hi // b.lo)
        return Iv(None, None)
    if op == "Rem":
        if b.lo is not None and b.lo > 0 and b.hi is not None and a.lo is not None and a.lo >= 0:
            hi = b.hi - 1
            if a.hi is not None:
                hi = min(hi, a.hi)
            return Iv(0, hi)
        if b.hi is not None and b.lo is not None:
            m = max(abs(b.lo), abs(b.hi)) - 1
            return Iv(-m, m)
        return Iv(None, None)
    if op == "Shl":
        if a.lo is not None and a.lo >= 0 and b.lo is not None and b.lo >= 0 and b.hi is not None and b.hi < 128 and a.hi is not None:
            return Iv(a.lo << b.lo, a.hi << b.hi)
        return Iv(None, None)
    if op == "Shr":
        if a.lo is not None and a.lo >= 0 and b.lo is not None and b.lo >= 0:
            return Iv(0 if b.hi is None else (a.lo >> min(b.hi, 200)), None if a.hi is None else a.hi >> b.lo)
        if b.lo is not None and b.lo >= 0 and a.lo is not None and a.hi is not None:
            return Iv(min(a.lo, a.lo >> b.lo), max(a.hi, a.hi >> b.lo))
        return Iv(None, None)
    if op == "BitAnd":
        if b.lo is not None and b.lo >= 0 and b.hi is not None:
            return Iv(0, b.hi if (a.lo is None or a.lo < 0 or a.hi is None) else min(a.hi, b.hi))
        if a.lo is not None and a.lo >= 0 and a.hi is not None:
            return Iv(0, a.hi)
        return Iv(None, None)
    if op in ("BitOr", "BitXor"):
        if a.lo is not None and a.lo >= 0 and b.lo is not None and b.lo >= 0 and a.hi is not None and b.hi is not None:
            n = max(a.hi, b.hi).bit_length()
            return Iv(0, (1 << n) - 1)
        return Iv(None, None)
    return Iv(None, None)


def clamp(v, ty):
    """value of type ty after wrapping arithmetic: keep the interval if it fits, else the whole type"""
    r = ty_range(ty) if ty else None
    if r is None:
        return v
    if isinstance(v, Iv) and v.within(r[0], r[1]):
        return v
    if isinstance(v, Iv):
        lo = v.lo if (v.lo is not None and v.lo >= r[0] and v.lo <= r[1] and v.hi is not None and v.hi <= r[1]) else r[0]
        return Iv(r[0], r[1])
    return Iv(r[0], r[1])


class Analysis:
    """per-body interval analysis; `summaries` maps callee-regex -> function(an, term, argvals) -> value"""

    def __init__(self, F, body, summaries=None, arg_values=None):
        self.F = F
        self.b = body
        self.summ = summaries or []
        self.arg_values = arg_values or {}
        self.IN = {}
        self.conds = {}      # bool local -> (op, a-operand, b-operand) for single-def comparison temps
        self._prep()
        self._solve()

    # ---- preparation -------------------------------------------------------------------------
    def _prep(self):
        b = self.b
        self.single = {}
        for l, ds in b.defs().items():
            whole = [d for d in ds if not d[2]["d"]["p"]]
            if len(whole) == 1 and len(ds) == 1:
                self.single[l] = whole[0]
        for l, (bi, si, d) in self.single.items():
            if si != "T" and d["rv"]["r"] == "bin" and d["rv"]["op"] in ("Eq", "Ne", "Lt", "Le", "Gt", "Ge"):
                self.conds[l] = (d["rv"]["op"], d["rv"]["a"], d["rv"]["b"])
            elif si != "T" and d["rv"]["r"] == "un" and d["rv"]["op"] == "Not":
                src = op_local(d["rv"]["o"])
                self.conds[l] = ("not", src, None)

    def canon(self, o):
        """canonical key of an operand for relational facts: ('c', int) or ('l', local) following single copies"""
        k = o.get("k") if isinstance(o, dict) else None
        if k is not None:
            return ("c", k["v"]) if k["v"] is not None else None
        p = op_place(o) if isinstance(o, dict) else None
        if p is None:
            return None
        if p["p"]:
            return ("p", p["l"], tuple(p["p"]))
        l = p["l"]
        seen = 0
        while l in self.single and seen < 8:
            bi, si, d = self.single[l]
            if si == "T":
                break
            rv = d["rv"]
            if rv["r"] == "use":
                q = op_place(rv["o"])
                if q is None:
                    kk = rv["o"].get("k")
                    if kk and kk["v"] is not None:
                        return ("c", kk["v"])
                    break
                if q["p"]:
                    return ("p", q["l"], tuple(q["p"]))
                l = q["l"]
                seen += 1
                continue
            break
        return ("l", l)

    # ---- evaluation --------------------------------------------------------------------------------
    def local_ty(self, l):
        return self.b.locals[l]["ty"]

    def read(self, st, p):
        v = st["v"].get(p["l"])
        if v is None:
            v = self.default(p["l"])
        ty = None
        for e in p["p"]:
            if e == "*":
                continue
            if e.startswith("as "):
                continue
            if e.startswith("."):
                idx = int(e[1:].split(":")[0])
                if isinstance(v, Tup):
                    v = v.vs[idx] if idx < len(v.vs) else TOP
                elif isinstance(v, Wrap) and idx == 0:
                    v = v.payload
                else:
                    v = TOP
            else:
                v = TOP
        return v if v is not None else TOP

    def default(self, l):
        if l in self.arg_values:
            return self.arg_values[l]
        r = full(self.local_ty(l))
        return r

    def operand(self, st, o, want_ty=None):
        k = o.get("k")
        if k is not None:
            if k["v"] is not None:
                return Iv(k["v"], k["v"])
            return full(k["ty"])
        p = op_place(o)
        if p is None:
            return TOP
        v = self.read(st, p)
        if v is TOP and want_ty:
            return full(want_ty)
        return v

    def rvalue(self, st, rv, dest_ty):
        r = rv["r"]
        if r == "use":
            v = self.operand(st, rv["o"], dest_ty)
            return v
        if r == "cast":
            v = self.operand(st, rv["o"], rv.get("from"))
            tr = ty_range(rv["ty"])
            if tr is None:
                return TOP
            ad = self.F.adts.get(base_path(rv.get("from") or ""))
            if ad is not None and ad["kind"] == "Enum" and not isinstance(v, Iv):
                ds = [int(x["disc"]) for x in ad["variants"]]
                if ds:
                    v = Iv(min(ds), max(ds))
            if isinstance(v, Iv) and v.within(tr[0], tr[1]):
                return v
            return Iv(tr[0], tr[1])
        if r == "bin":
            op = rv["op"]
            ty = rv.get("ty")
            a = self.operand(st, rv["a"], ty)
            bty = ty if op not in ("Shl", "Shr", "ShlUnchecked", "ShrUnchecked") else None
            b = self.operand(st, rv["b"], bty)
            if op in ("Eq", "Ne", "Lt", "Le", "Gt", "Ge"):
                res = self.compare(op, a, b)
                return res
            if op.endswith("WithOverflow"):
                base = op[:-len("WithOverflow")]
                raw = arith(base, a, b, ty)
                tr = ty_range(ty)
                if isinstance(raw, Iv) and tr and raw.within(tr[0], tr[1]):
                    return Tup([raw, Iv(0, 0)])
                return Tup([full(ty), Iv(0, 1)])
            base = op.replace("Unchecked", "")
            raw = arith(base, a, b, ty)
            return clamp(raw, ty if base not in () else ty)
        if r == "un":
            v = self.operand(st, rv["o"], rv.get("ty"))
            if rv["op"] == "Neg" and isinstance(v, Iv):
                return clamp(Iv(None if v.hi is None else -v.hi, None if v.lo is None else -v.lo), rv.get("ty"))
            if rv["op"] == "Not" and rv.get("ty") == "bool" and isinstance(v, Iv) and v.const() is not None:
                return Iv(1 - v.const(), 1 - v.const())
            if rv["op"] == "PtrMetadata":
                return Iv(0, (1 << 63) - 1)
            return full(dest_ty)
        if r == "agg":
            if rv["ak"] == "tuple":
                return Tup([self.operand(st, o) for o in rv["ops"]])
            if rv["ak"] == "adt":
                adt, var = rv["adt"], rv["var"]
                if adt in ("std::option::Option", "std::result::Result", "std::ops::ControlFlow"):
                    pay = self.operand(st, rv["ops"][0]) if rv["ops"] and var in ("Some", "Ok", "Continue") else None
                    return Wrap(pay if pay is not None else TOP, [var])
                # newtype structs over one integer keep the interval (BlockSize(u32), Crc8(u8) ..)
                ad = self.F.adts.get(adt)
                if ad and ad["kind"] == "Struct" and len(rv["ops"]) == 1:
                    return Tup([self.operand(st, rv["ops"][0])])
                if ad and ad["kind"] == "Struct":
                    return Tup([self.operand(st, o) for o in rv["ops"]])
            return TOP
        if r == "disc":
            v = self.read(st, rv["p"])
            if isinstance(v, Wrap) and v.variants is not None and len(v.variants) == 1:
                name = next(iter(v.variants))
                d = {"None": 0, "Some": 1, "Ok": 0, "Err": 1, "Continue": 0, "Break": 1}.get(name)
                if d is not None:
                    return Iv(d, d)
            return full(dest_ty)
        if r == "repeat":
            return TOP
        return full(dest_ty) if dest_ty else TOP

    @staticmethod
    def compare(op, a, b):
        if isinstance(a, Iv) and isinstance(b, Iv):
            def lt(x, y):   # x < y always?
                return x.hi is not None and y.lo is not None and x.hi < y.lo

            def le(x, y):
                return x.hi is not None and y.lo is not None and x.hi <= y.lo
            if op == "Lt":
                if lt(a, b):
                    return Iv(1, 1)
                if le(b, a):
                    return Iv(0, 0)
            elif op == "Le":
                if le(a, b):
                    return Iv(1, 1)
                if lt(b, a):
                    return Iv(0, 0)
            elif op == "Gt":
                if lt(b, a):
                    return Iv(1, 1)
                if le(a, b):
                    return Iv(0, 0)
            elif op == "Ge":
                if le(b, a):
                    return Iv(1, 1)
                if lt(a, b):
                    return Iv(0, 0)
            elif op == "Eq":
                if a.const() is not None and a.const() == b.const():
                    return Iv(1, 1)
                if lt(a, b) or lt(b, a):
                    return Iv(0, 0)
            elif op == "Ne":
                if a.const() is not None and a.const() == b.const():
                    return Iv(0, 0)
                if lt(a, b) or lt(b, a):
                    return Iv(1, 1)
        return Iv(0, 1)

    def call(self, st, t):
        name = t["f"].get("res") or t["f"].get("path") or ""
        path = t["f"].get("path") or ""
        args = [self.operand(st, a) for a in t["a"]]
        for pat, fn in self.summ:
            if pat.search(name) or pat.search(path):
                v = fn(self, t, args)
                if v is not None:
                    return v
        # default: by result type
        return self.by_type(t["dty"])

    def by_type(self, ty):
        r = ty_range(ty)
        if r:
            return Iv(r[0], r[1])
        for w in ("std::option::Option<", "std::result::Result<", "std::ops::ControlFlow<"):
            if ty.startswith(w):
                inner = _first_targ(ty[len(w):-1]) if not w.startswith("std::ops::Control") else _last_targ(ty[len(w):-1])
                return Wrap(self.by_type(inner) if inner else TOP, None)
        if ty.startswith("(") and ty.endswith(")") and ty != "()":
            parts = _split_top(ty[1:-1])
            return Tup([self.by_type(p) for p in parts])
        bp = base_path(ty)
        ad = self.F.adts.get(bp)
        if ad and ad["kind"] == "Struct" and len(ad["variants"][0]["fields"]) == 1 and "<" not in ty:
            return Tup([self.by_type(ad["variants"][0]["fields"][0]["ty"])])
        return TOP

    # ---- fixpoint ---------------------------------------------------------------------------------------
    def _solve(self):
        b = self.b
        init = {"v": {}, "f": frozenset()}
        self.IN = {0: init}
        work = [0]
        visits = {}
        order = {x: i for i, x in enumerate(b.rpo())}
        while work:
            work.sort(key=lambda x: -order.get(x, 0))
            bi = work.pop()
            visits[bi] = visits.get(bi, 0) + 1
            if visits[bi] > 40:
                continue
            st = {"v": dict(self.IN[bi]["v"]), "f": self.IN[bi]["f"]}
            outs = self.transfer(bi, st)
            for succ, sst in outs:
                old = self.IN.get(succ)
                if old is None:
                    self.IN[succ] = sst
                    work.append(succ)
                    continue
                merged = self.merge(old, sst, visits.get(succ, 0) >= 3)
                if merged["v"] != old["v"] or merged["f"] != old["f"]:
                    self.IN[succ] = merged
                    if succ not in work:
                        work.append(succ)

    def merge(self, a, b, do_widen):
        v = {}
        for l in set(a["v"]) | set(b["v"]):
            x, y = a["v"].get(l), b["v"].get(l)
            if x is None:
                x = self.default(l)
            if y is None:
                y = self.default(l)
            j = join(x, y)
            if do_widen:
                j = widen(x, j, self.local_ty(l))
            v[l] = j
        return {"v": v, "f": a["f"] & b["f"]}

    def kill_facts(self, st, l):
        st["f"] = frozenset(f for f in st["f"] if ("l", l) not in (f[1], f[2]) and not any(isinstance(x, tuple) and x[0] == "p" and x[1] == l for x in (f[1], f[2])))

    def assign(self, st, d, val):
        l = d["l"]
        if not d["p"]:
            st["v"][l] = val
            self.kill_facts(st, l)
        else:
            # partial write: field of a tracked tuple, else forget
            cur = st["v"].get(l)
            if len(d["p"]) == 1 and d["p"][0].startswith(".") and isinstance(cur, Tup):
                idx = int(d["p"][0][1:].split(":")[0])
                if idx < len(cur.vs):
                    vs = list(cur.vs)
                    vs[idx] = val
                    st["v"][l] = Tup(vs)
                    return
            if d["p"][0] == "*":
                # write through a reference: invalidate everything that might alias (conservative: all non-temporaries of that type)
                self.invalidate_refs(st)
                return
            st["v"][l] = TOP
            self.kill_facts(st, l)

    def invalidate_refs(self, st):
        # locals whose address was taken may change
        for l in self.addr_taken():
            if l in st["v"]:
                st["v"][l] = self.default(l) if not isinstance(self.default(l), _Top) else TOP
            self.kill_facts(st, l)

    def addr_taken(self):
        if not hasattr(self, "_at"):
            s = set()
            for bl in self.b.blocks:
                for x in bl["s"]:
                    if x["rv"]["r"] == "ref" and x["rv"]["mut"]:
                        s.add(x["rv"]["p"]["l"])
            self._at = s
        return self._at

    def transfer(self, bi, st, observe=None):
        b = self.b
        bl = b.blocks[bi]
        for si, s in enumerate(bl["s"]):
            rv = s["rv"]
            if rv["r"] == "setdisc":
                continue
            if observe:
                observe("stmt", bi, si, s, st)
            dty = self.local_ty(s["d"]["l"]) if not s["d"]["p"] else None
            val = self.rvalue(st, rv, dty)
            self.assign(st, s["d"], val)
        t = bl["t"]
        if t is None:
            return []
        if observe:
            observe("term", bi, None, t, st)
        k = t["t"]
        if k == "goto":
            return [(t["to"], st)]
        if k == "ret" or k in ("unreach", "resume", "abort"):
            return []
        if k == "drop":
            return [(t["to"], st)]
        if k == "assert":
            # after the assert the condition holds
            nst = {"v": dict(st["v"]), "f": st["f"]}
            self.refine(nst, t["c"], t["expected"])
            return [(t["to"], nst)]
        if k == "call":
            val = self.call(st, t)
            nst = {"v": dict(st["v"]), "f": st["f"]}
            # a call may write through &mut arguments
            if any(ty.startswith("&mut") or ty.startswith("&'") and " mut " in ty for ty in t["aty"]):
                self.invalidate_refs(nst)
            self.assign(nst, t["d"], val)
            return [(t["to"], nst)] if t["to"] is not None else []
        if k == "switch":
            outs = []
            v = self.operand(st, t["o"], t["ty"])
            listed = [x for x, _ in t["v"]]
            targets = {}
            for val, tb in t["v"]:
                targets.setdefault(tb, []).append(val)
            for tb, vals in targets.items():
                if isinstance(v, Iv) and all(v.excludes(x) for x in vals):
                    continue
                nst = {"v": dict(st["v"]), "f": st["f"]}
                if len(vals) == 1 and tb != t["else"]:
                    self.refine_switch(nst, t, vals[0], True)
                outs.append((tb, nst))
            # otherwise
            if not (isinstance(v, Iv) and v.lo is not None and v.hi is not None and all(x in listed for x in range(v.lo, min(v.hi, v.lo + 300) + 1)) and v.hi - v.lo < 300):
                nst = {"v": dict(st["v"]), "f": st["f"]}
                for x in listed:
                    self.refine_switch(nst, t, x, False)
                if t["else"] in targets:
                    # merged with a listed target: no refinement
                    outs = [(tb, s2) if tb != t["else"] else (tb, {"v": dict(st["v"]), "f": st["f"]}) for tb, s2 in outs]
                else:
                    outs.append((t["else"], nst))
            return outs
        return []

    # ---- refinement ----------------------------------------------------------------------------------------------
    def refine_switch(self, st, t, val, equal):
        o = t["o"]
        l = op_local(o)
        ty = t["ty"]
        if ty == "bool" and l is not None:
            want = (val == 1) if equal else (val != 1)
            self.refine(st, o, want)
            if l is not None and not equal:
                pass
            return
        # integer scrutinee: narrow its interval
        p = op_place(o)
        if p is None or p["p"]:
            # payload of an enum etc: narrow through the base local if it is a Wrap payload
            if p is not None and isinstance(st["v"].get(p["l"]), Wrap) and [e for e in p["p"] if not e.startswith("as ")] == [".0:0"]:
                w = st["v"][p["l"]]
                if isinstance(w.payload, Iv):
                    st["v"][p["l"]] = Wrap(self.narrow_iv(w.payload, val, equal), w.variants)
            return
        cur = st["v"].get(l) or self.default(l)
        if isinstance(cur, Iv):
            st["v"][l] = self.narrow_iv(cur, val, equal)
        # discriminant: narrow the scrutinised Wrap
        if l in self.single:
            bi, si, d = self.single[l]
            if si != "T" and d["rv"]["r"] == "disc":
                src = d["rv"]["p"]
                if not src["p"]:
                    w = st["v"].get(src["l"]) or self.default(src["l"])
                    dty = d["rv"]["ty"]
                    names = self.disc_names(dty)
                    if names and isinstance(w, Wrap):
                        if equal:
                            nm = names.get(val)
                            if nm:
                                st["v"][src["l"]] = Wrap(w.payload, [nm])
                        else:
                            cur_vs = w.variants if w.variants is not None else frozenset(names.values())
                            nm = names.get(val)
                            st["v"][src["l"]] = Wrap(w.payload, cur_vs - {nm})
            elif si != "T" and d["rv"]["r"] == "use":
                # copy of another local: narrow that too
                q = op_place(d["rv"]["o"])
                if q and not q["p"]:
                    c2 = st["v"].get(q["l"]) or self.default(q["l"])
                    if isinstance(c2, Iv):
                        st["v"][q["l"]] = self.narrow_iv(c2, val, equal)

    @staticmethod
    def disc_names(ty):
        t = ty.lstrip("&").strip()
        if t.startswith("mut "):
            t = t[4:]
        if t.startswith("std::option::Option<"):
            return {0: "None", 1: "Some"}
        if t.startswith("std::result::Result<"):
            return {0: "Ok", 1: "Err"}
        if t.startswith("std::ops::ControlFlow<"):
            return {0: "Continue", 1: "Break"}
        return None

    @staticmethod
    def narrow_iv(iv, val, equal):
        if equal:
            return Iv(val, val)
        lo, hi = iv.lo, iv.hi
        if lo is not None and lo == val:
            lo = val + 1
        if hi is not None and hi == val:
            hi = val - 1
        return Iv(lo, hi)

    def refine(self, st, o, truth, depth=0):
        """assume boolean operand o == truth"""
        l = op_local(o)
        if l is None or depth > 4:
            return
        st["v"][l] = Iv(1, 1) if truth else Iv(0, 0)
        c = self.conds.get(l)
        if c is None:
            # tuple field of a checked op: `(_x.1) == false`
            return
        op, a, b = c
        if op == "not":
            if a is not None:
                self.refine(st, {"c": {"l": a, "p": []}}, not truth, depth + 1)
            return
        if not truth:
            op = {"Eq": "Ne", "Ne": "Eq", "Lt": "Ge", "Le": "Gt", "Gt": "Le", "Ge": "Lt"}[op]
        self.apply_cmp(st, op, a, b)

    def apply_cmp(self, st, op, a, b):
        va, vb = self.operand(st, a), self.operand(st, b)
        ca, cb = self.canon(a), self.canon(b)
        # relational fact
        if ca and cb:
            if op == "Lt":
                st["f"] = st["f"] | {("lt", ca, cb)}
            elif op == "Le":
                st["f"] = st["f"] | {("le", ca, cb)}
            elif op == "Gt":
                st["f"] = st["f"] | {("lt", cb, ca)}
            elif op == "Ge":
                st["f"] = st["f"] | {("le", cb, ca)}
            elif op == "Eq":
                st["f"] = st["f"] | {("le", ca, cb), ("le", cb, ca)}
            elif op == "Ne":
                st["f"] = st["f"] | {("ne", ca, cb), ("ne", cb, ca)}
        if not isinstance(va, Iv) or not isinstance(vb, Iv):
            return
        na, nb = va, vb
        if op == "Lt":
            na = Iv(va.lo, va.hi if vb.hi is None else (vb.hi - 1 if va.hi is None else min(va.hi, vb.hi - 1)))
            nb = Iv(vb.lo if va.lo is None else (va.lo + 1 if vb.lo is None else max(vb.lo, va.lo + 1)), vb.hi)
        elif op == "Le":
            na = Iv(va.lo, va.hi if vb.hi is None else (vb.hi if va.hi is None else min(va.hi, vb.hi)))
            nb = Iv(vb.lo if va.lo is None else (va.lo if vb.lo is None else max(vb.lo, va.lo)), vb.hi)
        elif op == "Gt":
            nb = Iv(vb.lo, vb.hi if va.hi is None else (va.hi - 1 if vb.hi is None else min(vb.hi, va.hi - 1)))
            na = Iv(va.lo if vb.lo is None else (vb.lo + 1 if va.lo is None else max(va.lo, vb.lo + 1)), va.hi)
        elif op == "Ge":
            nb = Iv(vb.lo, vb.hi if va.hi is None else (va.hi if vb.hi is None else min(vb.hi, va.hi)))
            na = Iv(va.lo if vb.lo is None else (vb.lo if va.lo is None else max(va.lo, vb.lo)), va.hi)
        elif op == "Eq":
            lo = va.lo if vb.lo is None else (vb.lo if va.lo is None else max(va.lo, vb.lo))
            hi = va.hi if vb.hi is None else (vb.hi if va.hi is None else min(va.hi, vb.hi))
            na = nb = Iv(lo, hi)
        elif op == "Ne":
            if vb.const() is not None:
                na = self.narrow_iv(va, vb.const(), False)
            if va.const() is not None:
                nb = self.narrow_iv(vb, va.const(), False)
        self.store_operand(st, a, na)
        self.store_operand(st, b, nb)

    def store_operand(self, st, o, v):
        p = op_place(o) if isinstance(o, dict) else None
        if p is None or p["p"]:
            return
        l = p["l"]
        st["v"][l] = v
        # propagate to the copy source of single-def temps so later uses of the source benefit
        seen = 0
        while l in self.single and seen < 6:
            bi, si, d = self.single[l]
            if si == "T" or d["rv"]["r"] not in ("use", "cast"):
                break
            if d["rv"]["r"] == "cast":
                # widening casts only
                fr, to = ty_range(d["rv"].get("from", "")), ty_range(d["rv"]["ty"])
                if not fr or not to or not (to[0] <= fr[0] and fr[1] <= to[1]):
                    break
            q = op_place(d["rv"]["o"])
            if q is None or q["p"]:
                break
            l = q["l"]
            cur = st["v"].get(l) or self.default(l)
            if isinstance(cur, Iv) and isinstance(v, Iv):
                lo = cur.lo if v.lo is None else (v.lo if cur.lo is None else max(cur.lo, v.lo))
                hi = cur.hi if v.hi is None else (v.hi if cur.hi is None else min(cur.hi, v.hi))
                st["v"][l] = Iv(lo, hi)
            seen += 1

    # ---- queries at a program point -------------------------------------------------------------------------------
    def state_at_term(self, bi):
        """abstract state just before the terminator of block bi (None if unreachable)"""
        if bi not in self.IN:
            return None
        st = {"v": dict(self.IN[bi]["v"]), "f": self.IN[bi]["f"]}
        bl = self.b.blocks[bi]
        for s in bl["s"]:
            rv = s["rv"]
            if rv["r"] == "setdisc":
                continue
            dty = self.local_ty(s["d"]["l"]) if not s["d"]["p"] else None
            self.assign(st, s["d"], self.rvalue(st, rv, dty))
        return st

    def knows_lt(self, st, a, b):
        """is a < b known from intervals or relational facts?"""
        va, vb = self.operand(st, a), self.operand(st, b)
        if isinstance(va, Iv) and isinstance(vb, Iv) and va.hi is not None and vb.lo is not None and va.hi < vb.lo:
            return True
        ca, cb = self.canon(a), self.canon(b)
        if ca and cb and ("lt", ca, cb) in st["f"]:
            return True
        return False


def _split_top(s):
    out, depth, cur = [], 0, ""
    for c in s:
        if c in "<([":
            depth += 1
        elif c in ">)]":
            depth -= 1
        if c == "," and depth == 0:
            out.append(cur.strip())
            cur = ""
        else:
            cur += c
    if cur.strip():
        out.append(cur.strip())
    return out


def _first_targ(s):
    p = _split_top(s)
    return p[0] if p else None


def _last_targ(s):
    p = _split_top(s)
    return p[-1] if p else None
