"""pretty printer for fact-base bodies (debugging aid): python3 pp.py facts.json <regex>"""
import sys, re, json
sys.path.insert(0, __import__("os").path.dirname(__file__))
from facts import *


def pplace(p):
    s = "_%d" % p["l"]
    for e in p["p"]:
        if e == "*":
            s = "(*%s)" % s
        elif e.startswith("."):
            s = s + e
        elif e.startswith("as "):
            s = "(%s %s)" % (s, e)
        else:
            s = s + e
    return s


def pop(o):
    if "c" in o:
        return pplace(o["c"])
    if "m" in o:
        return "move " + pplace(o["m"])
    if "k" in o:
        k = o["k"]
        if k["fn"]:
            return "fn:" + (k["fn"]["res"] or k["fn"]["path"])
        if k["v"] is not None:
            return "%s_%s" % (k["v"], k["ty"])
        return k["s"]
    return str(o)


def prv(r):
    k = r["r"]
    if k == "use":
        return pop(r["o"])
    if k == "ref":
        return ("&mut " if r["mut"] else "&") + pplace(r["p"])
    if k == "cast":
        return "%s as %s (%s)" % (pop(r["o"]), r["ty"], r["ck"])
    if k == "bin":
        return "%s(%s, %s)" % (r["op"], pop(r["a"]), pop(r["b"]))
    if k == "un":
        return "%s(%s)" % (r["op"], pop(r["o"]))
    if k == "disc":
        return "discriminant(%s)" % pplace(r["p"])
    if k == "agg":
        n = r["adt"] + ("::" + r["var"] if r["var"] else "") if r["ak"] in ("adt", "closure") else r["ak"]
        return "%s{%s}" % (n, ", ".join(pop(o) for o in r["ops"]))
    if k == "repeat":
        return "[%s; %s]" % (pop(r["o"]), r["n"])
    return json.dumps(r)


def pterm(t):
    k = t["t"]
    if k == "goto":
        return "goto bb%d" % t["to"]
    if k == "switch":
        return "switchInt(%s) -> [%s, otherwise: bb%d]" % (pop(t["o"]), ", ".join("%s: bb%d" % (v, b) for v, b in t["v"]), t["else"])
    if k == "call":
        f = t["f"]
        n = callee_name(t)
        ga = ""
        if f.get("args"):
            ga = "::<" + ", ".join(f["args"]) + ">"
        return "%s = %s%s(%s) -> bb%s  [uw %s] @%d%s" % (pplace(t["d"]), n, ga if not f.get("res") else "  /*" + f["path"] + ga + "*/", ", ".join(pop(a) for a in t["a"]), t["to"], t["uw"], t["sp"]["line"], " exp=%s" % t["sp"]["exp"] if t["sp"]["exp"] else "")
    if k == "assert":
        return "assert(%s == %s, %s(%s)) -> bb%d @%d" % (pop(t["c"]), t["expected"], t["ak"], ", ".join(pop(o) for o in t["ops"]), t["to"], t["sp"]["line"])
    if k == "drop":
        return "drop(%s : %s) -> bb%d" % (pplace(t["p"]), t["ty"], t["to"])
    return k


def ppbody(b, out=sys.stdout):
    out.write("fn %s  [%s %s] %s:%d\n" % (b.key, b.kind, b.j["vis"], b.file, b.line))
    for i, l in enumerate(b.locals):
        out.write("   let _%d: %s%s\n" % (i, l["ty"], "  // " + l["name"] if l["name"] else ""))
    for i, bl in enumerate(b.blocks):
        out.write(" bb%d%s:\n" % (i, " (cleanup)" if bl["cleanup"] else ""))
        for s in bl["s"]:
            out.write("     %s = %s    @%d\n" % (pplace(s["d"]), prv(s["rv"]), s["sp"]["line"]))
        out.write("     %s\n" % pterm(bl["t"]))


if __name__ == "__main__":
    F = Facts(sys.argv[1])
    r = re.compile(sys.argv[2])
    for b in F.bodies:
        if r.search(b.key):
            ppbody(b)
            print()
