"""View normalisation: helper functions that did not exist when the rules were written are folded back into their
callers before any rule runs.

The rule set anchors on the functions of the reviewed tree (spec/known_functions.json).  A refactoring that extracts a
private helper out of one of them must not change any verdict, so a small, non-recursive, non-public function whose
path is not in that inventory is inlined at its call sites (MIR splice: locals and blocks renumbered, arguments
assigned to the parameters, `return` turned into an assignment to the call's destination and a jump to its target).
Closures defined inside such a helper are re-homed under the caller so that `closures_of(caller)` sees them.
Anything unexpected makes the inliner leave the fact base untouched."""
import copy, json, os, re

MAX_BLOCKS = 120
_IDX = re.compile(r"\[_(\d+)\]")


def _ren_place(p, lo):
    return {"l": p["l"] + lo, "p": [_IDX.sub(lambda m: "[_%d]" % (int(m.group(1)) + lo), e) for e in p["p"]]}


def _ren_op(o, lo):
    if not isinstance(o, dict):
        return o
    if "c" in o:
        return {"c": _ren_place(o["c"], lo)}
    if "m" in o:
        return {"m": _ren_place(o["m"], lo)}
    return copy.deepcopy(o)


def _ren_rv(rv, lo, cmap):
    rv = copy.deepcopy(rv)
    for k in ("o", "a", "b", "n"):
        if k in rv and isinstance(rv[k], dict):
            rv[k] = _ren_op(rv[k], lo)
    if "p" in rv and isinstance(rv["p"], dict) and "l" in rv["p"]:
        rv["p"] = _ren_place(rv["p"], lo)
    if "ops" in rv:
        rv["ops"] = [_ren_op(o, lo) for o in rv["ops"]]
    if rv.get("r") == "agg" and rv.get("ak") == "closure" and rv.get("adt") in cmap:
        rv["adt"] = cmap[rv["adt"]]
    return rv


def _ren_term(t, lo, bo, cmap):
    t = copy.deepcopy(t)
    k = t["t"]
    for f in ("to", "uw", "else"):
        if isinstance(t.get(f), int):
            t[f] = t[f] + bo
    if k == "switch":
        t["o"] = _ren_op(t["o"], lo)
        t["v"] = [[v, b + bo] for v, b in t["v"]]
    elif k == "call":
        t["a"] = [_ren_op(a, lo) for a in t["a"]]
        t["d"] = _ren_place(t["d"], lo)
        t["cls"] = [cmap.get(c, c) for c in t.get("cls", [])]
        f = t.get("f") or {}
        if f.get("res") in cmap:
            f["res"] = cmap[f["res"]]
        if f.get("path") in cmap:
            f["path"] = cmap[f["path"]]
        if isinstance(f.get("op"), dict):
            f["op"] = _ren_op(f["op"], lo)      # the callee operand of an indirect call
    elif k == "assert":
        t["c"] = _ren_op(t["c"], lo)
        t["ops"] = [_ren_op(o, lo) for o in t.get("ops", [])]
    elif k == "drop":
        t["p"] = _ren_place(t["p"], lo)
    return t


def _calls_of(body):
    for bi, bl in enumerate(body["blocks"]):
        t = bl["t"]
        if t and t["t"] == "call":
            yield bi, t


def inline_new_helpers(j, known):
    bodies = j["bodies"]
    by_path = {}
    for b in bodies:
        if b["promoted"] is None:
            by_path[b["path"]] = b
    inlined_any = []
    for _round in range(3):
        cands = {}
        for b in bodies:
            if b["promoted"] is not None or b["kind"] not in ("Fn", "AssocFn"):
                continue
            if b["path"] in known or b.get("impl_trait") or b.get("in_trait"):
                continue
            if b.get("vis") == "pub" and b.get("reach"):
                continue                      # a new public entry point is not a helper
            if len(b["blocks"]) > MAX_BLOCKS:
                continue
            if any((t["f"].get("res") == b["path"]) for _, t in _calls_of(b)):
                continue                      # recursive
            cands[b["path"]] = b
        if not cands:
            break
        done = set()
        for caller in list(bodies):
            if caller["path"] in cands and caller["promoted"] is None:
                continue                      # helpers calling helpers are handled in the next round
            if caller["promoted"] is not None:
                continue
            changed = True
            guard = 0
            while changed and guard < 40:
                changed = False
                guard += 1
                for bi, t in list(_calls_of(caller)):
                    res = t["f"].get("res")
                    h = cands.get(res)
                    if h is None or len(t["a"]) != h["argc"]:
                        continue
                    _splice(j, caller, bi, t, h, by_path)
                    done.add(res)
                    changed = True
                    break
        if not done:
            break
        # drop helpers that no longer have a caller
        still = set()
        for b in bodies:
            for _, t in _calls_of(b):
                if t["f"].get("res") in done and b["path"] not in done:
                    still.add(t["f"].get("res"))
        still |= (_fn_value_refs(bodies) & done)      # still handed around as a value somewhere (.and_then(Self::helper))
        gone = done - still
        # (promoted constants of an inlined helper stay: the spliced copy still refers to them)
        j["bodies"] = bodies = [b for b in bodies if b["promoted"] is not None or not (b["path"] in gone or any(b["path"].startswith(g + "::{closure#") for g in gone))]
        by_path = {b["path"]: b for b in bodies if b["promoted"] is None}
        inlined_any += sorted(done)
    return inlined_any


def _thread_try(caller, new_blocks, L, J):
    blocks = caller["blocks"]
    jb = blocks[J]
    jt = jb["t"]
    if not (jt and jt["t"] == "call" and re.search(r"Try>::branch$|::Try::branch$", jt["f"].get("path") or "") and jt["a"]):
        return
    a0 = jt["a"][0].get("m") or jt["a"][0].get("c")
    if not a0 or a0["l"] != L or a0["p"] or jt.get("to") is None or jt["d"]["p"]:
        return
    K = jt["to"]
    kb = blocks[K]
    kt = kb["t"]
    if not (kt and kt["t"] == "switch"):
        return
    sw = (kt["o"].get("m") or kt["o"].get("c") or {})
    dsc = [st for st in kb["s"] if st["d"]["l"] == sw.get("l") and not st["d"]["p"] and st["rv"].get("r") == "disc" and st["rv"]["p"]["l"] == jt["d"]["l"] and not st["rv"]["p"]["p"]]
    if len(dsc) != 1:
        return
    targets = dict((v, tb) for v, tb in kt["v"])
    news = set(new_blocks)

    def assigns(bl, l):
        return any(st["d"]["l"] == l for st in bl["s"]) or (bl["t"] and bl["t"]["t"] == "call" and bl["t"]["d"]["l"] == l)
    for bi in list(new_blocks):
        xb = blocks[bi]
        # a return site of the helper: the last whole assignment in this block builds Ok(..) / Err(..) into some local R0
        site = None
        for st in reversed(xb["s"]):
            rv = st["rv"]
            if not st["d"]["p"] and rv.get("r") == "agg" and rv.get("adt") in ("std::result::Result", "std::option::Option") and rv.get("var") in ("Ok", "Err", "Some", "None"):
                site = (st["d"]["l"], rv["var"])
            break
        xt = xb["t"]
        if xt and xt["t"] == "call" and re.search(r"FromResidual<.*>>::from_residual$|::FromResidual::from_residual$", xt["f"].get("path") or "") and not xt["d"]["p"] and xt.get("to") is not None:
            site = (xt["d"]["l"], "Err")          # an inner `?` of the helper: from_residual always builds the failure value
        if site is None or not (xt and xt["t"] in ("goto", "call")) or (xt["t"] == "call" and site[0] != xt["d"]["l"]):
            continue
        r0, var = site
        # follow the straight-line tail (storage-dead / drop-free gotos) to the block that hands R0 to L and jumps to J
        chain, cur, okc = [], xb["t"]["to"], False
        for _ in range(6):
            if cur == J:
                okc = True
                break
            if cur not in news:
                break
            cb = blocks[cur]
            if not (cb["t"] and cb["t"]["t"] == "goto") or assigns(cb, r0) and not all(
                    st["d"]["l"] != r0 for st in cb["s"]):
                break
            chain.append(cur)
            cur = cb["t"]["to"]
        if not okc:
            continue
        # L must receive R0 (directly in xb when the chain is empty, or in the chain)
        gets = any(st["d"]["l"] == L and not st["d"]["p"] and st["rv"].get("r") == "use" and ((st["rv"]["o"].get("m") or st["rv"]["o"].get("c") or {}).get("l") == r0)
                   for b2 in [xb] + [blocks[c] for c in chain] for st in b2["s"])
        if not gets and r0 != L:
            continue
        if var in ("Ok", "Some"):
            continue            # success sites keep the shared join: the value they deliver stays singly defined
        tgt = targets.get(1, kt.get("else") if len(targets) == 1 and 1 not in targets else None)      # ControlFlow::Break = 1
        if tgt is None or tgt >= len(blocks):
            continue
        # failure sites get their own copy of: tail, Try::branch, switch (resolved) and the Break arm's first block, with the
        # branch result in a fresh local so that the shared copy's result keeps a single definition
        D = jt["d"]["l"]
        D2 = len(caller["locals"])
        caller["locals"].append(copy.deepcopy(caller["locals"][D]))

        def ren(x):
            if isinstance(x, dict):
                if "l" in x and "p" in x and x["l"] == D:
                    x["l"] = D2
                for v in x.values():
                    if isinstance(v, (dict, list)):
                        ren(v)
            elif isinstance(x, list):
                for v in x:
                    ren(v)
            return x
        base = len(blocks)
        clones = [copy.deepcopy(blocks[c]) for c in chain] + [ren(copy.deepcopy(jb)), ren(copy.deepcopy(kb)), ren(copy.deepcopy(blocks[tgt]))]
        for i, cbk in enumerate(clones[:-2]):
            cbk["t"]["to"] = base + i + 1          # gotos of the tail, then the Try::branch call continuing in the cloned switch block
        clones[-2]["t"] = {"t": "goto", "to": base + len(clones) - 1}
        # the resolved switch no longer reads its discriminant temporary: drop that statement from the copy, or the
        # temporary would have two definitions and the shared switch would lose its meaning for def-based reasoning
        clones[-2]["s"] = [st for st in clones[-2]["s"] if not (st["d"]["l"] == sw.get("l") and not st["d"]["p"])]
        blocks.extend(clones)
        if xb["t"]["t"] == "goto":
            xb["t"] = {"t": "goto", "to": base}
        else:
            xb["t"]["to"] = base


def _split_top(s, sep=","):
    out, depth, cur = [], 0, ""
    for ch in s:
        if ch in "<([":
            depth += 1
        elif ch in ">)]":
            depth -= 1
        if ch == sep and depth == 0:
            out.append(cur.strip())
            cur = ""
        else:
            cur += ch
    if cur.strip():
        out.append(cur.strip())
    return out


def _unify(p, c, binds):
    """bind the bare generic parameter names occurring in the helper's parameter type `p` to the corresponding parts of the
    caller's argument type `c` (string-level, conservative: anything unexpected binds nothing)"""
    p = re.sub(r"'\w+ ?", "", p).strip()
    c = re.sub(r"'\w+ ?", "", c).strip()
    if p.startswith("impl ") and p != c:
        binds[p] = c if binds.get(p, c) == c else None       # an anonymous `impl Trait` parameter: the whole spelling
        return
    if re.fullmatch(r"[A-Z][A-Za-z0-9]*", p) and p not in ("Self",):
        if binds.get(p, c) == c:
            binds[p] = c
        else:
            binds[p] = None         # conflicting evidence: do not substitute this one
        return
    for pre in ("&mut ", "&", "*const ", "*mut "):
        if p.startswith(pre) and c.startswith(pre):
            return _unify(p[len(pre):], c[len(pre):], binds)
    if p.startswith("[") and p.endswith("]") and c.startswith("[") and c.endswith("]"):
        pp, cc = _split_top(p[1:-1], ";"), _split_top(c[1:-1], ";")
        if len(pp) == len(cc):
            for x, y in zip(pp, cc):
                _unify(x, y, binds)
        return
    if p.startswith("(") and p.endswith(")") and c.startswith("(") and c.endswith(")"):
        pp, cc = _split_top(p[1:-1]), _split_top(c[1:-1])
        if len(pp) == len(cc):
            for x, y in zip(pp, cc):
                _unify(x, y, binds)
        return
    mp, mc = re.fullmatch(r"([\w:]+)<(.*)>", p), re.fullmatch(r"([\w:]+)<(.*)>", c)
    if mp and mc and mp.group(1) == mc.group(1):
        pp, cc = _split_top(mp.group(2)), _split_top(mc.group(2))
        if len(pp) == len(cc):
            for x, y in zip(pp, cc):
                _unify(x, y, binds)


def _subst_types(x, binds):
    """replace whole-word generic parameter names in every type-carrying string of the spliced copy"""
    if not binds:
        return x
    words = {k: v for k, v in binds.items() if not k.startswith("impl ")}
    impls = {k: v for k, v in binds.items() if k.startswith("impl ")}
    pat = re.compile(r"(?<![\w:])(" + "|".join(re.escape(k) for k in sorted(words, key=len, reverse=True)) + r")(?![\w])(?!::)") if words else None

    def fix(sv):
        for k, v in impls.items():
            sv = sv.replace(k, v)
        return pat.sub(lambda m: words[m.group(1)], sv) if pat else sv
    if isinstance(x, dict):
        for k, v in list(x.items()):
            if k in ("ty", "dty", "from", "indirect") and isinstance(v, str):
                x[k] = fix(v)
            elif k in ("aty", "args") and isinstance(v, list):
                x[k] = [fix(e) if isinstance(e, str) else e for e in v]
            elif isinstance(v, (dict, list)):
                _subst_types(v, binds)
    elif isinstance(x, list):
        for v in x:
            _subst_types(v, binds)
    return x


def devirtualise(j):
    """an indirect call whose callee operand is, in this very body, only ever a copy of one function item (a helper that
    took `fn(..)` and was inlined at a call site passing `Type::method`) becomes the direct call it is"""
    n = 0
    for b in j["bodies"]:
        if b["promoted"] is not None:
            continue
        defs = {}
        for bl in b["blocks"]:
            for st in bl["s"]:
                if not st["d"]["p"]:
                    defs.setdefault(st["d"]["l"], []).append(st["rv"])
            t = bl["t"]
            if t and t["t"] == "call" and not t["d"]["p"]:
                defs.setdefault(t["d"]["l"], []).append(None)
        for bl in b["blocks"]:
            t = bl["t"]
            if not (t and t["t"] == "call" and t["f"].get("path") is None and isinstance(t["f"].get("op"), dict)):
                continue
            o = t["f"]["op"]
            fn = None
            for _ in range(6):
                k = o.get("k")
                if isinstance(k, dict) and isinstance(k.get("fn"), dict):
                    fn = k["fn"]
                    break
                pl = o.get("c") or o.get("m")
                if not isinstance(pl, dict) or pl["p"] or pl["l"] <= b["argc"]:
                    break
                ds = defs.get(pl["l"], [])
                if len(ds) != 1 or ds[0] is None or ds[0].get("r") not in ("use", "cast") or not isinstance(ds[0].get("o"), dict):
                    break
                o = ds[0]["o"]          # (a cast here is the fn item -> fn pointer coercion)
            if fn is not None and (fn.get("res") or fn.get("path")):
                keep_op = t["f"].get("op")
                t["f"] = dict(copy.deepcopy(fn), devirtualised=True, op=keep_op)
                n += 1
    return n


def _fn_value_refs(bodies):
    """paths of functions that occur as function-item constants in operands"""
    out = set()

    def walk(x):
        if isinstance(x, dict):
            k = x.get("k")
            if isinstance(k, dict) and isinstance(k.get("fn"), dict):
                r = k["fn"].get("res") or k["fn"].get("path")
                if r:
                    out.add(r)
            for v in x.values():
                if isinstance(v, (dict, list)):
                    walk(v)
        elif isinstance(x, list):
            for v in x:
                walk(v)
    for b in bodies:
        for bl in b["blocks"]:
            for st in bl["s"]:
                walk(st["rv"])
            t = bl["t"]
            if t and t["t"] == "call":
                walk(t["a"])
    return out


def _splice(j, caller, bi, t, h, by_path):
    lo = len(caller["locals"])
    bo = len(caller["blocks"])
    # re-home the helper's closures under the caller
    cmap = {}
    base = caller["path"]
    n_existing = 0
    for p in by_path:
        m = re.match(re.escape(base) + r"::\{closure#(\d+)\}$", p)
        if m:
            n_existing = max(n_existing, int(m.group(1)) + 1)
    hclos = sorted([p for p in by_path if p.startswith(h["path"] + "::{closure#")], key=lambda p: (p.count("{closure#"), p))
    top = [p for p in hclos if p.count("{closure#") == h["path"].count("{closure#") + 1]
    for i, p in enumerate(top):
        cmap[p] = "%s::{closure#%d}" % (base, n_existing + i)
    for p in hclos:
        if p in cmap:
            continue
        for tp, np_ in list(cmap.items()):
            if p.startswith(tp + "::"):
                cmap[p] = np_ + p[len(tp):]
    for p, np_ in cmap.items():
        cb = copy.deepcopy(by_path[p])
        cb["path"] = np_
        cb["parent"] = np_.rsplit("::{closure#", 1)[0]
        for bl in cb["blocks"]:
            for s in bl["s"]:
                if s["rv"].get("r") == "agg" and s["rv"].get("adt") in cmap:
                    s["rv"]["adt"] = cmap[s["rv"]["adt"]]
            tt = bl["t"]
            if tt and tt["t"] == "call":
                tt["cls"] = [cmap.get(c, c) for c in tt.get("cls", [])]
        j["bodies"].append(cb)
        by_path[np_] = cb
    caller["locals"] += copy.deepcopy(h["locals"])
    for d in h.get("dbg", []) or []:
        caller.setdefault("dbg", []).append({"name": d["name"], "p": _ren_place(d["p"], lo)})
    ret_to = t["to"]
    for bl in h["blocks"]:
        nb = {"s": [], "t": None, "cleanup": bl.get("cleanup", False)}
        for s in bl["s"]:
            nb["s"].append({"d": _ren_place(s["d"], lo), "rv": _ren_rv(s["rv"], lo, cmap), "sp": s.get("sp")})
        ht = bl["t"]
        if ht and ht["t"] == "ret":
            nb["s"].append({"d": copy.deepcopy(t["d"]), "rv": {"r": "use", "o": {"m": {"l": lo, "p": []}}}, "sp": t.get("sp")})
            nb["t"] = {"t": "goto", "to": ret_to} if ret_to is not None else {"t": "unreach"}
        elif ht:
            nb["t"] = _ren_term(ht, lo, bo, cmap)
        caller["blocks"].append(nb)
    blk = caller["blocks"][bi]
    for i, a in enumerate(t["a"]):
        blk["s"].append({"d": {"l": lo + 1 + i, "p": []}, "rv": {"r": "use", "o": copy.deepcopy(a)}, "sp": t.get("sp")})
    blk["t"] = {"t": "goto", "to": bo}
    # `helper(..)?`: a spliced return site that builds Ok(..) / Err(..) knows which way the `?` after the call goes.  The
    # join block (Try::branch) and the switch behind it are duplicated per such return site with the switch resolved, so
    # that path rules (must-pass, dominance, path facts) do not see the infeasible Err-return -> continue path.
    if ret_to is not None and not t["d"]["p"]:
        _thread_try(caller, range(bo, len(caller["blocks"])), t["d"]["l"], ret_to)
    # type parameters of the helper are known types at this call site: bind them from (parameter type, argument type) pairs
    binds = {}
    for i in range(min(h["argc"], len(t.get("aty") or []))):
        _unify(h["locals"][i + 1]["ty"], t["aty"][i], binds)
    binds = {k: v for k, v in binds.items() if v and v != k}
    if binds:
        _subst_types(caller["blocks"][bo:], binds)
        _subst_types(caller["locals"][lo:], binds)
    # a const generic of the helper is a known number at this call site (helper::<4>(..)): substitute it in the spliced copy
    # (only when unambiguous: one integer among the call's generic arguments, one const-parameter name in the helper)
    ints = [a for a in (t["f"].get("args") or []) if re.fullmatch(r"-?\d+", a or "")]
    if len(ints) == 1:
        names = set()

        def consts(x, fix=None):
            if isinstance(x, dict):
                k = x.get("k")
                if isinstance(k, dict) and k.get("v") is None and not k.get("fn") and not k.get("cl") and not k.get("static") and \
                        re.fullmatch(r"[A-Z][A-Z0-9_]*", k.get("s") or "") and re.fullmatch(r"[iu](8|16|32|64|128|size)", k.get("ty") or ""):
                    names.add(k["s"])
                    if fix is not None:
                        k["v"] = fix
                        k["s"] = "%s_%s" % (fix, k["ty"])
                for v in x.values():
                    if isinstance(v, (dict, list)):
                        consts(v, fix)
            elif isinstance(x, list):
                for v in x:
                    consts(v, fix)
        new_blocks = caller["blocks"][bo:]
        consts(new_blocks)
        if len(names) == 1:
            consts(new_blocks, int(ints[0]))


def restore_names(j, inventory):
    """a function of the reviewed tree that is gone, while a new function with the same signature, in the same module /
    impl and with largely the same callees has appeared, was renamed: give it (and every reference to it) its reviewed
    name back so that the rules find their anchor"""
    present = {b["path"] for b in j["bodies"] if b["promoted"] is None}
    missing = [p for p in inventory if p not in present]
    if not missing:
        return []
    new = [b for b in j["bodies"] if b["promoted"] is None and b["kind"] in ("Fn", "AssocFn") and b["path"] not in inventory]
    done = []
    for old in missing:
        rec = inventory[old]
        prefix = old.rsplit("::", 1)[0]
        best, best_sim = None, 0.0
        for b in new:
            if b["path"].rsplit("::", 1)[0] != prefix or b["argc"] != rec["argc"]:
                continue
            if [l["ty"] for l in b["locals"][:b["argc"] + 1]] != rec["tys"]:
                continue
            callees = sorted((t["f"].get("res") or t["f"].get("path") or "?") for _, t in _calls_of(b))
            sa, sb = set(callees), set(rec["callees"])
            sim = (len(sa & sb) / len(sa | sb)) if (sa | sb) else 1.0
            if sim > best_sim:
                best, best_sim = b, sim
        if best is None or best_sim < 0.5:
            continue
        newp = best["path"]
        for b in j["bodies"]:
            if b["path"] == newp or b["path"].startswith(newp + "::{closure#"):
                b["path"] = old + b["path"][len(newp):]
            if b.get("parent") and (b["parent"] == newp or b["parent"].startswith(newp + "::{closure#")):
                b["parent"] = old + b["parent"][len(newp):]
            for bl in b["blocks"]:
                for s in bl["s"]:
                    rv = s["rv"]
                    if rv.get("r") == "agg" and isinstance(rv.get("adt"), str) and rv["adt"].startswith(newp + "::{closure#"):
                        rv["adt"] = old + rv["adt"][len(newp):]
                t = bl["t"]
                if t and t["t"] == "call":
                    f = t["f"]
                    for k in ("res", "path"):
                        if f.get(k) == newp:
                            f[k] = old
                    t["cls"] = [(old + c[len(newp):]) if (c == newp or c.startswith(newp + "::{closure#")) else c for c in t.get("cls", [])]
        new.remove(best)
        done.append("%s <- %s" % (old, newp))
    # second pass: an item that MOVED (a local struct / fn lifted to module level or the reverse): same item name, same
    # trait and method, same arity, largely the same callees - only the enclosing path differs
    still = [p for p in missing if not any(d.startswith(p + " <- ") for d in done)]
    for old in still:
        rec = inventory[old]
        k_old = _item_key(old)
        if k_old is None:
            continue
        cands = []
        for b in new:
            if b["argc"] != rec["argc"] or _item_key(b["path"]) != k_old:
                continue
            callees = sorted((t["f"].get("res") or t["f"].get("path") or "?") for _, t in _calls_of(b))
            sa, sb = set(callees), set(rec["callees"])
            sim = (len(sa & sb) / len(sa | sb)) if (sa | sb) else 1.0
            if sim >= 0.5:
                cands.append(b)
        others = [p for p in still if p != old and _item_key(p) == k_old]
        if len(cands) != 1 or others:
            continue
        best = cands[0]
        newp = best["path"]
        _rename_fn(j, newp, old)
        new.remove(best)
        done.append("%s <- %s (moved)" % (old, newp))
    return done


def _item_key(path):
    """(self type's own name, trait, method) for `<T as Trait>::m`, (type, method) for `a::T::m`; None when too generic"""
    def last_ident(ty):
        ty = re.sub(r"<[^<>]*>", "", re.sub(r"<[^<>]*>", "", re.sub(r"<[^<>]*>", "", ty)))
        ty = ty.replace("&mut ", "").replace("&", "").strip()
        return ty.rsplit("::", 1)[-1]
    m = re.match(r"^<(.+) as (.+)>::(\w+)$", path)
    if m:
        return ("impl", last_ident(m.group(1)), last_ident(m.group(2)), m.group(3))
    segs = re.sub(r"::<[^<>]*(<[^<>]*>[^<>]*)*>", "", path).split("::")
    if len(segs) >= 3 and segs[-2][:1].isupper():
        return ("inherent", segs[-2], segs[-1])
    return None


def _rename_fn(j, newp, old):
    for b in j["bodies"]:
        if b["path"] == newp or b["path"].startswith(newp + "::{closure#"):
            b["path"] = old + b["path"][len(newp):]
        if b.get("parent") and (b["parent"] == newp or b["parent"].startswith(newp + "::{closure#")):
            b["parent"] = old + b["parent"][len(newp):]
        for bl in b["blocks"]:
            for s in bl["s"]:
                rv = s["rv"]
                if rv.get("r") == "agg" and isinstance(rv.get("adt"), str) and rv["adt"].startswith(newp + "::{closure#"):
                    rv["adt"] = old + rv["adt"][len(newp):]
            t = bl["t"]
            if t and t["t"] == "call":
                f = t["f"]
                for k in ("res", "path"):
                    if f.get(k) == newp:
                        f[k] = old
                t["cls"] = [(old + c[len(newp):]) if (c == newp or c.startswith(newp + "::{closure#")) else c for c in t.get("cls", [])]


def restore_field_names(j, verif_dir):
    """a private field that was renamed (same struct, same position, same type) gets its reviewed name back in every
    place projection, so that rules phrased over field names keep their anchors"""
    p = os.path.join(verif_dir, "spec", "known_fields.json")
    if not os.path.exists(p):
        return []
    inv = json.load(open(p))
    taken = set()
    for adt, variants in inv.items():
        for var in variants:
            for i, f in enumerate(var[1]):
                taken.add((i, f))
    ren = {}
    for a in j.get("adts", []):
        old = inv.get(a["path"])
        if old is None or len(old) != len(a["variants"]):
            continue
        for var, v in zip(old, a["variants"]):
            fields = var[1]
            tys = var[2] if len(var) > 2 else [None] * len(fields)
            if len(fields) != len(v["fields"]):
                continue
            new_names = {nf["name"] for nf in v["fields"]}
            for i, (of, nf) in enumerate(zip(fields, v["fields"])):
                if tys[i] is not None and nf.get("ty") != tys[i]:
                    continue        # a different field took the place, not a rename
                # a rename: the reviewed name is gone from the struct and the new name was not in it (anything else is a
                # reordering of fields that kept their names)
                if of != nf["name"] and of not in new_names and nf["name"] not in fields and (i, nf["name"]) not in taken and not nf["name"].isdigit():
                    ren[".%d:%s" % (i, nf["name"])] = ".%d:%s" % (i, of)
                    nf["name"] = of
    if not ren:
        return []

    def fix_place(pl):
        if isinstance(pl, dict) and "p" in pl and isinstance(pl["p"], list):
            pl["p"] = [ren.get(e, e) for e in pl["p"]]

    def fix_op(o):
        if isinstance(o, dict):
            for k in ("c", "m"):
                if k in o:
                    fix_place(o[k])
    for b in j["bodies"]:
        for d in b.get("dbg", []) or []:
            fix_place(d.get("p"))
        for bl in b["blocks"]:
            for st in bl["s"]:
                fix_place(st["d"])
                rv = st["rv"]
                for k in ("o", "a", "b", "n"):
                    if isinstance(rv.get(k), dict):
                        fix_op(rv[k])
                if isinstance(rv.get("p"), dict):
                    fix_place(rv["p"])
                for o in rv.get("ops", []) or []:
                    fix_op(o)
            t = bl["t"]
            if not t:
                continue
            if t["t"] == "call":
                for a_ in t["a"]:
                    fix_op(a_)
                fix_place(t["d"])
            elif t["t"] == "switch":
                fix_op(t["o"])
            elif t["t"] == "assert":
                fix_op(t["c"])
                for o in t.get("ops", []) or []:
                    fix_op(o)
            elif t["t"] == "drop":
                fix_place(t["p"])
    return ["field %s <- %s" % (v, k) for k, v in ren.items()]


def apply(j, verif_dir):
    p = os.path.join(verif_dir, "spec", "known_functions.json")
    if not os.path.exists(p):
        return []
    inventory = json.load(open(p))
    known = set(inventory)
    backup = copy.deepcopy(j["bodies"])
    try:
        renamed = restore_names(j, inventory) if isinstance(inventory, dict) else []
        renamed += restore_field_names(j, verif_dir)
        out = renamed + inline_new_helpers(j, known)
        if out:
            nd = devirtualise(j)
            if nd:
                out.append("devirtualised %d indirect call(s)" % nd)
        return out
    except Exception as e:          # never let view normalisation break a check
        j["bodies"] = backup
        return ["inliner skipped: %r" % (e,)]
