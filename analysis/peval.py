"""Engine A1 helper: conditional constant propagation over one MIR body.

Not an interpreter of the program: it propagates a finite abstract value for one
match scrutinee (each value of an N-bit field, each enum variant, or one
representative per interval induced by the constants the code compares with)
through a loop-free region of ONE function body and reports which exit
(`Ok(variant..)`, `Err(variant)`, a terminal call with a constant argument) that
abstract value reaches.  Unknown values stay unknown; a branch on an unknown
value stops the propagation for that row (reported, never guessed).

Values:
  int                       known integer / bool (as 0/1)
  ("sym", name)             unknown scalar with a name (e.g. the payload of a variant)
  ("expr", op, a, b)        arithmetic over syms/ints
  ("adt", path, var, idx, [fields])
  ("ref", value)            reference to a value
  ("tuple", [values])
  ("fn", name)              zero-sized fn item / closure
  UNK                       nothing known
"""
from core import *

UNK = ("unk",)


class Stop(Exception):
    def __init__(self, why):
        self.why = why


TRANSPARENT = [  # value-transparent single-argument calls
    r"::From<.*>>::from$", r"^std::convert::From::from$", r"^std::convert::Into::into$", r"::Into<.*>>::into$",
    r"::NonZero::<T>::get$", r"^std::clone::Clone::clone$", r"::Clone>::clone$", r"::Option::<T>::unwrap$", r"::Result::<T, E>::unwrap$",
    r"::Option::<T>::expect$", r"::Result::<T, E>::expect$", r"^std::ops::Deref::deref$", r"^std::borrow::Borrow::borrow$",
    r"::Option::<&T>::copied$", r"::Option::<&T>::cloned$", r"^std::io::Read::by_ref$", r"^std::io::Write::by_ref$",
]


def is_int(v):
    return isinstance(v, int) and not isinstance(v, bool)


def mask(v, ty):
    bits = {"u8": 8, "u16": 16, "u32": 32, "u64": 64, "usize": 64, "u128": 128,
            "i8": 8, "i16": 16, "i32": 32, "i64": 64, "isize": 64, "i128": 128, "bool": 1, "char": 32}.get(ty)
    if bits is None or not is_int(v):
        return v
    if ty.startswith("i"):
        v &= (1 << bits) - 1
        if v >> (bits - 1):
            v -= 1 << bits
        return v
    return v & ((1 << bits) - 1)


def binop(op, a, b, ty=None):
    if is_int(a) and is_int(b):
        try:
            if op in ("Add", "AddWithOverflow", "AddUnchecked"):
                r = a + b
            elif op in ("Sub", "SubWithOverflow", "SubUnchecked"):
                r = a - b
            elif op in ("Mul", "MulWithOverflow", "MulUnchecked"):
                r = a * b
            elif op == "Div":
                r = int(a / b) if b else None
            elif op == "Rem":
                r = a - b * int(a / b) if b else None
            elif op == "BitAnd":
                r = a & b
            elif op == "BitOr":
                r = a | b
            elif op == "BitXor":
                r = a ^ b
            elif op in ("Shl", "ShlUnchecked"):
                r = a << b
            elif op in ("Shr", "ShrUnchecked"):
                r = a >> b
            elif op == "Eq":
                return int(a == b)
            elif op == "Ne":
                return int(a != b)
            elif op == "Lt":
                return int(a < b)
            elif op == "Le":
                return int(a <= b)
            elif op == "Gt":
                return int(a > b)
            elif op == "Ge":
                return int(a >= b)
            else:
                return UNK
        except Exception:
            return UNK
        if r is None:
            return UNK
        if op.endswith("WithOverflow"):
            m = mask(r, ty) if ty else r
            return ("tuple", [m, int(m != r)])
        return mask(r, ty) if ty else r
    if a is UNK or b is UNK:
        return UNK
    if op.endswith("WithOverflow"):
        return ("tuple", [("expr", op.replace("WithOverflow", ""), a, b), 0])
    return ("expr", op, a, b)


class PEval:
    def __init__(self, F, body, on_call=None, max_steps=4000):
        self.F = F
        self.b = body
        self.on_call = on_call
        self.max_steps = max_steps
        self.depth = 0
        self.inline = None   # regex of local callees to propagate into

    def _local_from(self, src, dst):
        for im in self.F.impls:
            if im["trait"] and im["trait_id"] == "std::convert::From" and im["self_ty"] == dst and im["trait"] == "std::convert::From<%s>" % src:
                for it in im["items"]:
                    if it["name"] == "from":
                        return self.F.body(it["path"])
        return None

    # ---- places ------------------------------------------------------------------
    def read_place(self, env, p):
        v = env.get(p["l"], UNK)
        for e in p["p"]:
            v = self._proj(v, e)
        return v

    def _proj(self, v, e):
        if v is UNK:
            return UNK
        if e == "*":
            if isinstance(v, tuple) and v[0] == "ref":
                return v[1]
            return v  # Box / unknown pointer: treat as transparent
        if e.startswith("as "):
            if isinstance(v, tuple) and v[0] == "adt":
                want = e[3:].split("#")[0]
                if want and v[2] != want:
                    raise Stop("downcast to %s of value %s" % (want, v[2]))
            return v
        if e.startswith("."):
            idx = int(e[1:].split(":")[0])
            if isinstance(v, tuple) and v[0] in ("adt",):
                fs = v[4]
                return fs[idx] if idx < len(fs) else UNK
            if isinstance(v, tuple) and v[0] == "tuple":
                return v[1][idx] if idx < len(v[1]) else UNK
            return UNK
        return UNK

    def write_place(self, env, p, val):
        if not p["p"]:
            env[p["l"]] = val
            return
        # partial writes: only simple field writes of tuples/adts are modelled
        base = env.get(p["l"], UNK)
        if len(p["p"]) == 1 and p["p"][0].startswith(".") and isinstance(base, tuple) and base[0] in ("tuple", "adt"):
            idx = int(p["p"][0][1:].split(":")[0])
            if base[0] == "tuple":
                fs = list(base[1])
                while len(fs) <= idx:
                    fs.append(UNK)
                fs[idx] = val
                env[p["l"]] = ("tuple", fs)
            else:
                fs = list(base[4])
                while len(fs) <= idx:
                    fs.append(UNK)
                fs[idx] = val
                env[p["l"]] = ("adt", base[1], base[2], base[3], fs)
            return
        if len(p["p"]) == 1 and p["p"][0] == "*":
            return  # write through reference: ignore
        # unknown partial write: forget the base
        env[p["l"]] = UNK

    def operand(self, env, o):
        k = o.get("k")
        if k is not None:
            if k["v"] is not None:
                return k["v"]
            if k.get("fn"):
                return ("fn", k["fn"]["res"] or k["fn"]["path"])
            if k["s"].startswith("const "):
                s = k["s"][6:]
                return ("sym", "const:" + s)
            if re.match(r"^bitstream_io::(Signed)?BitCount<\d+>$", k.get("ty") or ""):
                # a named bit-count constant of the crate: its evaluated bytes are in the facts (bits, and for the signed
                # flavour bits - 1, as little-endian u32s in either order)
                st = self.F.statics.get(k["s"])
                raw = st.get("bytes") if st else None
                if raw and len(raw) in (8, 16):
                    ws = [int.from_bytes(bytes.fromhex(raw[i:i + 8]), "little") for i in range(0, len(raw), 8)]
                    if len(ws) == 1 or (len(ws) == 2 and abs(ws[0] - ws[1]) == 1):
                        return ("bitcount", max(ws))
            return UNK
        p = op_place(o)
        if p is None:
            return UNK
        return self.read_place(env, p)

    def rvalue(self, env, rv):
        r = rv["r"]
        if r == "use":
            return self.operand(env, rv["o"])
        if r == "ref":
            return ("ref", self.read_place(env, rv["p"]))
        if r == "cast":
            v = self.operand(env, rv["o"])
            if is_int(v):
                return mask(v, rv["ty"])
            if isinstance(v, tuple) and v[0] == "adt" and rv["ty"] in ("u8", "u16", "u32", "u64", "usize", "i8", "i16", "i32", "i64", "isize"):
                return self._disc_value(v)
            return v
        if r == "bin":
            return binop(rv["op"], self.operand(env, rv["a"]), self.operand(env, rv["b"]), rv.get("ty"))
        if r == "un":
            v = self.operand(env, rv["o"])
            if rv["op"] == "Not" and is_int(v):
                return int(not v) if rv.get("ty") == "bool" else mask(~v, rv.get("ty"))
            if rv["op"] == "Neg" and is_int(v):
                return -v
            if v is UNK:
                return UNK
            return ("expr", rv["op"], v, None)
        if r == "disc":
            v = self.read_place(env, rv["p"])
            if isinstance(v, tuple) and v[0] == "adt":
                return self._disc_value(v)
            return UNK
        if r == "agg":
            ops = [self.operand(env, o) for o in rv["ops"]]
            if rv["ak"] == "adt":
                return ("adt", rv["adt"], rv["var"], rv["vi"], ops)
            if rv["ak"] in ("tuple", "array"):
                return ("tuple", ops)
            if rv["ak"] == "closure":
                return ("fn", rv["adt"])
            return UNK
        return UNK

    def _disc_value(self, v):
        ad = self.F.adts.get(v[1])
        if ad is not None:
            for var in ad["variants"]:
                if var["name"] == v[2]:
                    return int(var["disc"])
        return v[3]

    # ---- calls --------------------------------------------------------------------
    def call(self, env, t):
        name = t["f"].get("res") or t["f"].get("path") or "<indirect>"
        path = t["f"].get("path") or ""
        args = [self.operand(env, a) for a in t["a"]]
        if self.on_call is not None:
            r = self.on_call(self, env, t, name, args)
            if r is not None:
                return r
        if path in ("std::convert::Into::into", "std::convert::From::from") and args and isinstance(args[0], tuple) and args[0][0] == "bitcount":
            ga = [a for a in t["f"]["args"] if not a.startswith("'")]
            if any(a in ("u32", "u64", "usize", "u16", "u8") for a in ga):
                return args[0][1]
        # conversions implemented by the crate itself: propagate through the (loop-free) impl body
        if path in ("std::convert::Into::into", "std::convert::From::from") and self.depth < 3:
            ga = [a for a in t["f"]["args"] if not a.startswith("'")]
            if len(ga) == 2:
                src, dst = (ga[0], ga[1]) if path.endswith("into") else (ga[1], ga[0])
                fb = self._local_from(src, dst)
                if fb is not None:
                    sub = PEval(self.F, fb, self.on_call, self.max_steps)
                    sub.depth = self.depth + 1
                    r = run_region(sub, {1: args[0]}, 0)
                    if r[0] == "ret":
                        return r[1].get(0, UNK)
                    return UNK
        if t["f"].get("res_local") and self.depth < 3 and self.inline is not None and re.search(self.inline, t["f"]["res"]):
            fb = self.F.body(t["f"]["res"])
            if fb is not None:
                sub = PEval(self.F, fb, self.on_call, self.max_steps)
                sub.depth = self.depth + 1
                sub.inline = self.inline
                r = run_region(sub, {i + 1: a for i, a in enumerate(args)}, 0)
                if r[0] == "ret":
                    return r[1].get(0, UNK)
                return UNK
        for pat in TRANSPARENT:
            if re.search(pat, name) or re.search(pat, path):
                v = args[0] if args else UNK
                if isinstance(v, tuple) and v[0] == "ref" and ("clone" in name or "deref" in name or "copied" in name):
                    v = v[1]
                if "unwrap" in name or "expect" in name:
                    if isinstance(v, tuple) and v[0] == "adt":
                        if v[2] in ("Some", "Ok"):
                            return v[4][0] if v[4] else UNK
                        raise Stop("unwrap of %s" % v[2])
                    return UNK
                return v
        if re.search(r"Try>::branch$|::Try::branch$", name):
            v = args[0]
            if isinstance(v, tuple) and v[0] == "adt":
                if v[2] in ("Ok", "Some"):
                    return ("adt", "std::ops::ControlFlow", "Continue", 0, [v[4][0] if v[4] else UNK])
                return ("adt", "std::ops::ControlFlow", "Break", 1, [("adt", v[1], v[2], v[3], v[4])])
            return UNK
        if re.search(r"from_residual$", name):
            v = args[0]
            if isinstance(v, tuple) and v[0] == "adt":
                return ("adt", "std::result::Result", "Err", 1, [v[4][0] if v[4] else UNK]) if v[2] == "Err" else ("adt", "std::option::Option", "None", 0, [])
            return ("adt", "std::result::Result", "Err", 1, [UNK])
        if re.search(r"NonZero::<T>::new$", name):
            v = args[0]
            if is_int(v):
                return ("adt", "std::option::Option", "Some" if v != 0 else "None", 1 if v != 0 else 0, [v] if v != 0 else [])
            return ("adt", "std::option::Option", "Some", 1, [v])
        if re.search(r"::Option::<T>::ok_or$", name):
            v = args[0]
            if isinstance(v, tuple) and v[0] == "adt":
                if v[2] == "Some":
                    return ("adt", "std::result::Result", "Ok", 0, [v[4][0] if v[4] else UNK])
                return ("adt", "std::result::Result", "Err", 1, [args[1]])
            return UNK
        if re.search(r"::Option::<T>::map$", name) and len(args) > 1 and isinstance(args[1], tuple) and args[1][0] == "fn":
            v = args[0]
            ctor = args[1][1]
            adt, _, var = ctor.rpartition("::")
            ad = self.F.adts.get(adt)
            vi = [i for i, x in enumerate(ad["variants"]) if x["name"] == var] if ad else []
            if isinstance(v, tuple) and v[0] == "adt" and vi:
                if v[2] == "Some":
                    return ("adt", "std::option::Option", "Some", 1, [("adt", adt, var, vi[0], [v[4][0] if v[4] else UNK])])
                return v
        if re.search(r"::Option::<T>::ok_or_else$", name):
            v = args[0]
            if isinstance(v, tuple) and v[0] == "adt":
                if v[2] == "Some":
                    return ("adt", "std::result::Result", "Ok", 0, [v[4][0] if v[4] else UNK])
                ev = UNK
                fv = args[1] if len(args) > 1 else None
                if isinstance(fv, tuple) and fv[0] == "fn" and self.depth < 3:
                    fb = self.F.body(fv[1])
                    if fb is not None:
                        sub = PEval(self.F, fb, self.on_call, self.max_steps)
                        sub.depth = self.depth + 1
                        r = run_region(sub, {1: UNK}, 0)
                        if r[0] == "ret":
                            ev = r[1].get(0, UNK)
                return ("adt", "std::result::Result", "Err", 1, [ev])
            return UNK
        if re.search(r"::Result::<T, E>::map_err$", name):
            v = args[0]
            if isinstance(v, tuple) and v[0] == "adt" and v[2] == "Ok":
                return v
            if isinstance(v, tuple) and v[0] == "adt" and v[2] == "Err":
                return ("adt", "std::result::Result", "Err", 1, [("sym", "map_err(%s)" % (args[1],))])
            return UNK
        if re.search(r"bool>?::then_some$", name):
            if is_int(args[0]):
                return ("adt", "std::option::Option", "Some", 1, [args[1]]) if args[0] else ("adt", "std::option::Option", "None", 0, [])
            return UNK
        for opn, pyop in (("checked_add", "Add"), ("checked_sub", "Sub"), ("checked_mul", "Mul")):
            if re.search(r"core::num::<impl [a-z0-9]+>::%s$" % opn, name):
                ty = re.search(r"<impl ([a-z0-9]+)>", name).group(1)
                a, b = args[0], args[1]
                if is_int(a) and is_int(b):
                    r = binop(pyop, a, b)
                    if mask(r, ty) == r and not (ty.startswith("u") and r < 0):
                        return ("adt", "std::option::Option", "Some", 1, [r])
                    return ("adt", "std::option::Option", "None", 0, [])
                return ("adt", "std::option::Option", "Some", 1, [binop(pyop, a, b)]) if (a is not UNK and b is not UNK) else UNK
        m = re.search(r"^<&?(u8|u16|u32|u64|usize|i8|i16|i32|i64|isize) as std::ops::(Add|Sub|Mul|Div|Rem|BitAnd|BitOr|BitXor|Shl|Shr)<&?[a-z0-9]+>>::[a-z]+$", name)
        if m and len(args) == 2:
            a, b = args
            if isinstance(a, tuple) and a[0] == "ref":
                a = a[1]
            if isinstance(b, tuple) and b[0] == "ref":
                b = b[1]
            return binop(m.group(2), a, b, m.group(1))
        return None  # unknown call


def run_region(pe, env, start_block, stop_at=None, record=None):
    """propagate from start_block until return, a Stop, or stop_at(block, terminator) is true.
    Returns ('ret', env) | ('stop', why, env) | ('at', block, env)."""
    b = pe.b
    bi = start_block
    steps = 0
    visited = {}
    while True:
        steps += 1
        if steps > pe.max_steps:
            return ("stop", "step limit", env)
        visited[bi] = visited.get(bi, 0) + 1
        if visited[bi] > 64:
            return ("stop", "loop", env)
        bl = b.blocks[bi]
        try:
            for s in bl["s"]:
                rv = s["rv"]
                if rv["r"] == "setdisc":
                    continue
                pe.write_place(env, s["d"], pe.rvalue(env, rv))
            t = bl["t"]
            if stop_at is not None and stop_at(bi, t, env):
                return ("at", bi, env)
            k = t["t"]
            if k == "goto":
                bi = t["to"]
            elif k == "ret":
                return ("ret", env)
            elif k == "switch":
                v = pe.operand(env, t["o"])
                if not is_int(v):
                    return ("stop", "branch on unknown value at bb%d (line %s)" % (bi, t.get("sp", {}).get("line")), env)
                nxt = t["else"]
                for val, tb in t["v"]:
                    if val == v:
                        nxt = tb
                        break
                bi = nxt
            elif k == "assert":
                c = pe.operand(env, t["c"])
                if is_int(c) and bool(c) != t["expected"]:
                    return ("stop", "assert fails: %s" % t["ak"], env)
                bi = t["to"]
            elif k == "drop":
                bi = t["to"]
            elif k == "call":
                r = pe.call(env, t)
                if record is not None:
                    record.append((bi, t, r))
                if r is None:
                    r = UNK
                if isinstance(r, tuple) and r and r[0] == "diverge":
                    return ("stop", "diverges: " + r[1], env)
                pe.write_place(env, t["d"], r)
                if t["to"] is None:
                    return ("stop", "diverging call %s" % callee_name(t), env)
                bi = t["to"]
            elif k == "unreach":
                return ("stop", "unreachable", env)
            else:
                return ("stop", "terminator " + k, env)
        except Stop as e:
            return ("stop", e.why, env)


def show(v, depth=3):
    if v is UNK:
        return "?"
    if is_int(v):
        return str(v)
    if isinstance(v, tuple):
        if v[0] == "sym":
            return v[1]
        if v[0] == "expr":
            return "%s(%s,%s)" % (v[1], show(v[2], depth - 1), show(v[3], depth - 1) if v[3] is not None else "")
        if v[0] == "adt":
            n = v[1].split("::")[-1] + "::" + v[2]
            if v[4] and depth > 0:
                return "%s(%s)" % (n, ",".join(show(x, depth - 1) for x in v[4]))
            return n
        if v[0] == "ref":
            return "&" + show(v[1], depth)
        if v[0] == "tuple":
            return "(" + ",".join(show(x, depth - 1) for x in v[1]) + ")"
        if v[0] == "fn":
            return "fn:" + v[1]
    return str(v)
