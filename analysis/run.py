#!/usr/bin/env python3
"""check runner: ./check <Cxx> quick|thorough   |   ./check --replay <file>

Extracts the fact base from /repo's current working tree with the rustc_private
driver (fresh target dir, removed afterwards), runs the property's rules,
matches known findings, writes evidence/<id>.json and replay files, prints
VIOLATION / KNOWN-FINDING lines and sets the exit code.
"""
import importlib, json, os, shutil, subprocess, sys, tempfile, time, hashlib

HERE = os.path.dirname(os.path.abspath(__file__))
VERIF = os.path.dirname(HERE)
sys.path.insert(0, HERE)
REPO = os.environ.get("VERIF_REPO", "/repo")
DRIVER_DIR = os.path.join(VERIF, "driver")
DRIVER = os.path.join(DRIVER_DIR, "target", "debug", "flacfacts")

from facts import Facts
from core import Report, CallGraph

TRUSTED_BASE = [
    "rustc nightly MIR construction and Instance::try_resolve (facts are read from the type-checked program)",
    "dependency summaries for bitstream-io / arrayvec / md5 / std (spec/dep_summaries.json); dependencies are not analysed",
    "Rust aliasing guarantees for safe code (#![forbid(unsafe_code)] asserted present on every run)",
    "hand-transcribed RFC 9639 reference tables (spec/rfc9639.json)",
    "one-line human reasons in the audit tables under spec/",
    "call-graph over-approximation rules (closures, local-trait CHA, bitstream-io parse/build dispatch, conversions, escape, drop)",
]


def sysroot():
    return subprocess.check_output(["rustc", "+nightly", "--print", "sysroot"], text=True).strip()


def ensure_driver():
    src = os.path.join(DRIVER_DIR, "src", "main.rs")
    if os.path.exists(DRIVER) and os.path.getmtime(DRIVER) >= os.path.getmtime(src):
        return
    env = dict(os.environ, CARGO_NET_OFFLINE="true")
    env.pop("RUSTC_WORKSPACE_WRAPPER", None)
    env.pop("RUSTFLAGS", None)
    r = subprocess.run(["cargo", "build", "--offline"], cwd=DRIVER_DIR, env=env, capture_output=True, text=True)
    if r.returncode != 0 or not os.path.exists(DRIVER):
        sys.stderr.write(r.stdout + r.stderr)
        sys.stderr.write("INFRA: cannot build fact driver\n")
        sys.exit(2)


def extract(config="default", repo=None, keep=None):
    """run the driver over `repo` (default /repo); returns (Facts, seconds)"""
    repo = repo or REPO
    ensure_driver()
    t0 = time.time()
    tmp = tempfile.mkdtemp(prefix="flacfacts-")
    try:
        out = os.path.join(tmp, "facts.json")
        env = dict(os.environ)
        env.update({
            "CARGO_NET_OFFLINE": "true",
            "LD_LIBRARY_PATH": sysroot() + "/lib" + (":" + env["LD_LIBRARY_PATH"] if env.get("LD_LIBRARY_PATH") else ""),
            "RUSTFLAGS": "-Zmir-opt-level=0 -Awarnings -C overflow-checks=on -C debug-assertions=on",
            "RUSTC_WORKSPACE_WRAPPER": DRIVER,
            "FLACFACTS_OUT": out,
            "CARGO_TARGET_DIR": os.path.join(tmp, "target"),
        })
        cmd = ["cargo", "+nightly", "check", "--offline", "--lib", "--quiet"]
        if config == "rayon":
            cmd += ["--features", "rayon"]
        r = subprocess.run(cmd, cwd=repo, env=env, capture_output=True, text=True)
        if r.returncode != 0 or not os.path.exists(out):
            sys.stderr.write(r.stdout[-4000:] + r.stderr[-8000:])
            sys.stderr.write("INFRA: fact extraction failed (config %s); does %s compile?\n" % (config, repo))
            sys.exit(2)
        F = Facts(out)
        if keep:
            shutil.copy(out, keep)
        return F, time.time() - t0
    finally:
        shutil.rmtree(tmp, ignore_errors=True)


class Ctx:
    """lazy access to fact bases / call graphs per configuration"""

    def __init__(self, tier, repo=None):
        self.tier = tier
        self.repo = repo or REPO
        self._facts = {}
        self._cg = {}
        self.extract_s = 0.0
        self.seed = int(os.environ.get("VERIF_SEED", "0") or 0)
        self.default_config = "default"

    def facts(self, config=None):
        config = config or self.default_config
        if config not in self._facts:
            pre = os.environ.get("VERIF_FACTS_" + config.upper())
            if pre and os.path.exists(pre):
                self._facts[config] = Facts(pre)
            else:
                F, s = extract(config, self.repo)
                self.extract_s += s
                self._facts[config] = F
        return self._facts[config]

    def cg(self, config=None):
        config = config or self.default_config
        if config not in self._cg:
            self._cg[config] = CallGraph(self.facts(config))
        return self._cg[config]

    def spec(self, name):
        with open(os.path.join(VERIF, "spec", name)) as f:
            return json.load(f)


def load_known():
    """known_findings.txt: 'known: property=<id> key=<rule|instance> what=<text>' and 'fixed: ...' (ignored)"""
    known = {}
    p = os.path.join(VERIF, "known_findings.txt")
    if os.path.exists(p):
        for line in open(p):
            line = line.strip()
            if not line.startswith("known:"):
                continue
            rest = line[len("known:"):].strip()
            try:
                prop = rest.split("property=", 1)[1].split(" ", 1)[0]
                key = rest.split(" key=", 1)[1].split(" what=", 1)[0]
                what = rest.split(" what=", 1)[1]
            except IndexError:
                continue
            known[(prop, key)] = what
    return known


def run_property(prop, tier, repo=None, write=True):
    t0 = time.time()
    ctx = Ctx(tier, repo)
    try:
        mod = importlib.import_module("rules." + prop)
    except ModuleNotFoundError as e:
        sys.stderr.write("INFRA: no rule module for %s (%s)\n" % (prop, e))
        sys.exit(2)
    rep = Report(prop)
    mod.run(ctx, rep)
    selftest = None
    if tier == "thorough":
        # (1) the second build configuration: every rule again on the MIR of `--features rayon`
        if prop != "C18":   # C18 compares the two configurations itself
            ctx2 = Ctx(tier, repo)
            ctx2.default_config = "rayon"
            ctx2._facts, ctx2._cg = ctx._facts, ctx._cg
            rep2 = Report(prop)
            mod.run(ctx2, rep2)
            ctx.extract_s += ctx2.extract_s
            for ob in rep2.obs:
                ob.key = "[rayon] " + ob.key
                rep.obs.append(ob)
            rep.notes.update({"rayon:" + k: v for k, v in rep2.notes.items()})
        # (2) sensitivity self-test: the stored seeded breaks must still be reported when applied to today's tree
        selftest = run_selftests(prop, ctx.repo, {(o.rule, o.key) for o in rep.obs if not o.ok})
    known = load_known()
    viol, kf = [], []
    for ob in rep.obs:
        if ob.ok:
            continue
        k = (prop, ob.full_key().replace("[rayon] ", "", 1))
        if k in known:
            ob.known = known[k]
            kf.append(ob)
        else:
            viol.append(ob)
    wall = time.time() - t0
    if not write:
        return rep, viol, kf
    evdir = os.environ.get("VERIF_EVIDENCE_DIR") or os.path.join(VERIF, "evidence")
    os.makedirs(os.path.join(evdir, "replay"), exist_ok=True)
    # remove stale replay files of this property
    for fn in os.listdir(os.path.join(evdir, "replay")):
        if fn.startswith(prop + "-"):
            os.remove(os.path.join(evdir, "replay", fn))
    seen_kf = set()
    for ob in kf:
        if ob.full_key() not in seen_kf:
            seen_kf.add(ob.full_key())
            print("KNOWN-FINDING: property=%s %s [%s at %s]" % (prop, ob.known, ob.full_key(), ob.loc))
    for n, ob in enumerate(viol):
        rp = os.path.join(evdir, "replay", "%s-%d.json" % (prop, n))
        with open(rp, "w") as f:
            json.dump({"property": prop, "rule": ob.rule, "instance": ob.key, "loc": ob.loc,
                       "detail": ob.detail, "tier": tier,
                       "how_to_replay": "./check %s %s   (static: re-runs the rule on /repo's current tree)" % (prop, tier)}, f, indent=1)
        print("VIOLATION property=%s replay=%s" % (prop, rp))
        print("  rule=%s instance=%s at %s: %s" % (ob.rule, ob.key, ob.loc, ob.detail))
    meta = getattr(mod, "META", {})
    level = meta.get("level", "other")
    oks = [o for o in rep.obs if o.ok]
    distinct = len({o.full_key() for o in rep.obs if not o.key.startswith("floor:")})
    samples = [o.j() for o in rep.obs[:6]] + [o.j() for o in rep.obs if not o.ok][:6]
    cov = {
        "obligations": len(rep.obs),
        "discharged": len(oks) + len(kf) if False else len(oks),
        "evaluations": len(rep.obs),
        "distinct_nontrivial": distinct,
        "rule": meta.get("rule", ""),
        "samples": samples,
        "checker_cmd": "./check %s %s" % (prop, tier),
        "trusted_base": TRUSTED_BASE,
        "explanation": meta.get("explanation", ""),
        "rules": sorted({o.rule for o in rep.obs}),
        "per_rule": {r: {"instances": sum(1 for o in rep.obs if o.rule == r),
                         "ok": sum(1 for o in rep.obs if o.rule == r and o.ok)} for r in sorted({o.rule for o in rep.obs})},
        "known_findings_matched": sorted(seen_kf),
        "facts": {c: {"bodies": len(F.bodies), "adts": len(F.adts), "impls": len(F.impls),
                      "overflow_checks": F.j["overflow_checks"], "debug_assertions": F.j["debug_assertions"],
                      "features": F.j["features"]} for c, F in ctx._facts.items()},
        "callgraph": {c: {"nodes": len(g.edges), "edges": sum(len(v) for v in g.edges.values()), "by_rule": dict(g.why)}
                      for c, g in ctx._cg.items()},
        "notes": rep.notes,
        "extract_seconds": round(ctx.extract_s, 2),
    }
    if selftest is not None:
        cov["selftest_seeded_breaks"] = selftest
        cov["configurations"] = sorted(ctx._facts.keys())
    ev = {
        "property_id": prop,
        "tier": tier,
        "seed": ctx.seed,
        "level": level,
        "coverage": cov,
        "assumptions": TRUSTED_BASE + meta.get("assumptions", []),
        "wall_s": round(wall, 2),
        "violations": len(viol),
    }
    with open(os.path.join(evdir, prop + ".json"), "w") as f:
        json.dump(ev, f, indent=1)
    print("%s %s: %d rule instances, %d ok, %d known findings, %d violations (%.1fs)" %
          (prop, tier, len(rep.obs), len(oks), len(kf), len(viol), wall))
    return rep, viol, kf


def run_selftests(prop, repo, base_bad):
    """apply each stored seeded break (seeded/<prop>*/patch.diff) to a scratch copy of the tree under analysis and
    re-run the quick rules on it: a break that applies must add at least one violation.  Static all the way: the
    patched source is only compiled to MIR and analysed, never run."""
    from concurrent.futures import ThreadPoolExecutor
    sd = os.path.join(VERIF, "seeded")
    seeds = []
    if os.path.isdir(sd):
        for d in sorted(os.listdir(sd)):
            pd = os.path.join(sd, d, "patch.diff")
            if os.path.exists(pd):
                try:
                    meta = json.load(open(os.path.join(sd, d, "meta.json")))
                except Exception:
                    meta = {}
                if prop in (meta.get("caught_by") or [meta.get("property")]):
                    seeds.append((d, pd))

    def one(item):
        name, pd = item
        tmp = tempfile.mkdtemp(prefix="flacseed-")
        try:
            subprocess.check_call(["rsync", "-a", "--exclude", "target", "--exclude", ".git", repo.rstrip("/") + "/", tmp + "/"])
            r = subprocess.run(["patch", "-p1", "-s", "-f", "-d", tmp, "-i", pd], capture_output=True, text=True)
            if r.returncode != 0:
                return {"seed": name, "result": "skipped", "why": "patch does not apply to the tree under analysis"}
            env = dict(os.environ, VERIF_REPO=tmp, VERIF_EVIDENCE_DIR=os.path.join(tmp, ".ev"))
            for c in ("DEFAULT", "RAYON"):
                env.pop("VERIF_FACTS_" + c, None)
            r = subprocess.run([sys.executable, os.path.join(HERE, "run.py"), prop, "quick"], env=env, capture_output=True, text=True, cwd=VERIF)
            if r.returncode not in (0, 1):
                return {"seed": name, "result": "skipped", "why": "patched tree does not build"}
            got = set()
            for l in r.stdout.splitlines():
                if l.startswith("  rule="):
                    rule = l.split("rule=", 1)[1].split(" instance=", 1)[0]
                    inst = l.split(" instance=", 1)[1].rsplit(" at ", 1)[0]
                    got.add((rule, inst))
            new = sorted(x for x in got if not any(x[0] == b[0] and b[1].endswith(x[1][:60]) or x == b for b in base_bad))
            return {"seed": name, "result": "detected" if new else "MISSED", "new_violations": ["%s | %s" % x for x in new[:4]]}
        finally:
            shutil.rmtree(tmp, ignore_errors=True)
    with ThreadPoolExecutor(max_workers=4) as ex:
        res = list(ex.map(one, seeds))
    for r in res:
        if r["result"] == "MISSED":
            sys.stderr.write("SELFTEST-MISS property=%s seed=%s : a stored seeded break is no longer reported\n" % (prop, r["seed"]))
    return {"seeds": len(seeds), "detected": sum(1 for r in res if r["result"] == "detected"), "skipped": sum(1 for r in res if r["result"] == "skipped"),
            "missed": sum(1 for r in res if r["result"] == "MISSED"), "results": res}


def main(argv):
    if len(argv) >= 2 and argv[0] == "--replay":
        j = json.load(open(argv[1]))
        print(json.dumps(j, indent=1))
        return 0
    if len(argv) < 1:
        print(__doc__)
        return 2
    prop = argv[0]
    tier = argv[1] if len(argv) > 1 else os.environ.get("VERIF_TIER", "quick")
    rep, viol, kf = run_property(prop, tier)
    return 1 if viol else 0


if __name__ == "__main__":
    sys.exit(main(sys.argv[1:]))
