"""Call graph, reachability, slicing helpers and the obligation/report model."""
import json, os, re, sys, time
from collections import defaultdict, deque
from facts import *

# --------------------------------------------------------------------------
# obligations
# --------------------------------------------------------------------------


class Ob:
    """One rule instance evaluated on this run."""
    __slots__ = ("rule", "key", "ok", "loc", "detail", "known", "trivial")

    def __init__(self, rule, key, ok, loc="", detail="", trivial=False):
        self.rule = rule      # e.g. "C05.gate"
        self.key = key        # stable instance key (no line numbers)
        self.ok = ok
        self.loc = loc        # file:line for the reader
        self.detail = detail
        self.known = None
        self.trivial = trivial

    def full_key(self):
        return "%s|%s" % (self.rule, self.key)

    def j(self):
        return {"rule": self.rule, "key": self.key, "ok": self.ok, "loc": self.loc, "detail": self.detail}


class Report:
    def __init__(self, prop):
        self.prop = prop
        self.obs = []
        self.notes = {}
        self.counters = defaultdict(int)

    def ok(self, rule, key, loc="", detail=""):
        self.obs.append(Ob(rule, key, True, loc, detail))

    def bad(self, rule, key, loc="", detail=""):
        self.obs.append(Ob(rule, key, False, loc, detail))

    def check(self, rule, key, cond, loc="", detail="", fail_detail=None):
        self.obs.append(Ob(rule, key, bool(cond), loc, detail if cond else (fail_detail or detail)))
        return bool(cond)

    def floor(self, rule, what, count, floor):
        """fail closed when a rule matched fewer instances than were confirmed by hand"""
        self.obs.append(Ob(rule, "floor:%s" % what, count >= floor, "",
                           "%d instances of %s found, floor %d" % (count, what, floor)))

    def note(self, k, v):
        self.notes[k] = v


class SubReport:
    """view of a Report that lets one property's check reuse another property's rule module: rule ids `<src>.x` are
    renamed `<dst>.x`, optionally only the rule families matching `only` are kept (the others are evaluated but dropped)"""

    def __init__(self, rep, src, dst, only=None, key_only=None):
        self.rep, self.src, self.dst = rep, src, dst
        self.only = re.compile(only) if only else None
        self.key_only = re.compile(key_only) if key_only else None
        self.notes = {}
        self.obs = rep.obs

    def _map(self, rule):
        if self.only is not None and not self.only.search(rule):
            return None
        return self.dst + rule[len(self.src):] if rule.startswith(self.src) else self.dst + "." + rule

    def _keep(self, key):
        return self.key_only is None or bool(self.key_only.search(str(key)))

    def ok(self, rule, key, loc="", detail=""):
        r = self._map(rule)
        if r and self._keep(key):
            self.rep.ok(r, key, loc, detail)

    def bad(self, rule, key, loc="", detail=""):
        r = self._map(rule)
        if r and self._keep(key):
            self.rep.bad(r, key, loc, detail)

    def check(self, rule, key, cond, loc="", detail="", fail_detail=None):
        r = self._map(rule)
        if r and self._keep(key):
            self.rep.check(r, key, cond, loc, detail, fail_detail)
        return bool(cond)

    def floor(self, rule, what, count, floor):
        r = self._map(rule)
        if r and self._keep(what):
            self.rep.floor(r, what, count, floor)

    def note(self, k, v):
        pass


# --------------------------------------------------------------------------
# type-string helpers
# --------------------------------------------------------------------------

_ident = re.compile(r"[A-Za-z_][A-Za-z0-9_]*(?:::[A-Za-z_][A-Za-z0-9_]*)*")


def type_paths(ty):
    """all path-like identifiers mentioned in a type string"""
    return set(_ident.findall(ty or ""))


def base_path(ty):
    """leading ADT path of a type string: 'stream::BlockSize<u16>' -> 'stream::BlockSize'; strips & and mut"""
    t = ty.strip()
    while True:
        if t.startswith("&"):
            t = t[1:].lstrip()
            if t.startswith("'"):
                t = t.split(" ", 1)[1] if " " in t else t
            if t.startswith("mut "):
                t = t[4:]
            continue
        break
    m = _ident.match(t)
    return m.group(0) if m else t


# --------------------------------------------------------------------------
# call graph
# --------------------------------------------------------------------------

BITIO_READ = {"bitstream_io::BitRead::parse": ("bitstream_io::FromBitStream", 1),
              "bitstream_io::BitRead::parse_with": ("bitstream_io::FromBitStreamWith", 1),
              "bitstream_io::BitRead::parse_using": ("bitstream_io::FromBitStreamUsing", 1)}
BITIO_WRITE = {"bitstream_io::BitWrite::build": ("bitstream_io::ToBitStream", 1),
               "bitstream_io::BitWrite::build_with": ("bitstream_io::ToBitStreamWith", 1),
               "bitstream_io::BitWrite::build_using": ("bitstream_io::ToBitStreamUsing", 1),
               "bitstream_io::ToBitStream::bits": ("bitstream_io::ToBitStream", 0),
               "bitstream_io::ToBitStream::bits_len": ("bitstream_io::ToBitStream", 0)}
CONVERSIONS = {"std::convert::Into::into": ("std::convert::From", 1, 0),
               "std::convert::TryInto::try_into": ("std::convert::TryFrom", 1, 0),
               "std::convert::From::from": ("std::convert::From", 0, 1),
               "std::convert::TryFrom::try_from": ("std::convert::TryFrom", 0, 1),
               "std::str::<impl str>::parse": ("std::str::FromStr", 0, None),
               "core::str::<impl str>::parse": ("std::str::FromStr", 0, None),
               "std::str::FromStr::from_str": ("std::str::FromStr", 0, None),
               "std::iter::Iterator::collect": ("std::iter::FromIterator", 1, None),
               "std::iter::FromIterator::from_iter": ("std::iter::FromIterator", 0, None),
               "std::string::ToString::to_string": ("std::fmt::Display", 0, None),
               }
# std traits whose local impls are reachable when a value of the local type
# escapes into non-local generic code
ESCAPE_TRAITS = {"std::io::Read", "std::io::Write", "std::io::Seek", "std::io::BufRead",
                 "std::iter::Iterator", "std::iter::IntoIterator", "std::fmt::Display",
                 "std::iter::FromIterator", "std::iter::Extend", "std::ops::Deref",
                 "std::cmp::PartialEq", "std::cmp::PartialOrd", "std::cmp::Ord", "std::default::Default",
                 "std::ops::Sub", "std::ops::Add", "std::convert::AsRef",
                 "bitstream_io::write::Counter", "bitstream_io::Counter"}
# conversions (From/TryFrom/FromStr) and bitstream (de)serialisers are dispatched precisely by the
# CONVERSIONS / BITIO tables above, not by the escape rule


class CallGraph:
    def __init__(self, F):
        self.F = F
        self.edges = defaultdict(set)       # body key -> set(body path)
        self.why = defaultdict(int)
        self.ext = defaultdict(set)         # body key -> set(external callee paths)
        self.local_adts = set(F.adts.keys())
        # impl index: trait_id -> [(self base path, self_ty string, {name: path})]
        self.impls_by_trait = defaultdict(list)
        self.impls_by_self = defaultdict(list)
        for im in F.impls:
            methods = {it["name"]: it["path"] for it in im["items"] if it["kind"].startswith("Fn")}
            rec = (base_path(im["self_ty"]), im["self_ty"], methods, im["trait_id"], im["trait"])
            if im["trait_id"]:
                self.impls_by_trait[im["trait_id"]].append(rec)
            self.impls_by_self[rec[0]].append(rec)
        self.drop_impls = {}
        for rec in self.impls_by_trait.get("std::ops::Drop", []):
            self.drop_impls[rec[0]] = rec[2].get("drop")
        self._build()

    # ---- helpers ---------------------------------------------------------
    def _add(self, src, dst, why):
        if dst and self.F.body(dst) is not None:
            if dst not in self.edges[src]:
                self.edges[src].add(dst)
                self.why[why] += 1

    def _impl_methods(self, trait_id, ty, method=None):
        """methods of local impls of trait for type `ty` (CHA when ty is a parameter / unknown)"""
        out = []
        bp = base_path(ty) if ty else None
        recs = self.impls_by_trait.get(trait_id, [])
        exact = [r for r in recs if bp is not None and r[0] == bp]
        # a bare identifier that is not a known ADT path is a type parameter -> CHA
        cand = exact if exact else ([] if (bp in self.local_adts or _is_prim(bp)) else recs)
        for r in cand:
            for n, p in r[2].items():
                if method is None or n == method:
                    out.append(p)
        return out

    def _drop_targets(self, ty, seen=None):
        """Drop::drop bodies run when a value of type `ty` is dropped (transitively through fields)"""
        seen = seen if seen is not None else set()
        out = []
        for p in type_paths(ty):
            if p in self.local_adts and p not in seen:
                seen.add(p)
                if p in self.drop_impls:
                    out.append(self.drop_impls[p])
                for v in self.F.adts[p]["variants"]:
                    for f in v["fields"]:
                        out.extend(self._drop_targets(f["ty"], seen))
        return out

    def _escape(self, src, tys):
        for ty in tys:
            for p in type_paths(ty):
                if p in self.local_adts:
                    for rec in self.impls_by_self.get(p, []):
                        if rec[3] and rec[3] in ESCAPE_TRAITS:
                            for n, mp in rec[2].items():
                                self._add(src, mp, "escape")

    def _build(self):
        F = self.F
        for b in F.bodies:
            src = b.key
            for bl in b.blocks:
                for s in bl["s"]:
                    rv = s["rv"]
                    if rv["r"] == "agg" and rv["ak"] == "closure":
                        self._add(src, rv["adt"], "closure-create")
                    # fn items used as values
                    for o in _rv_operands(rv):
                        k = o.get("k")
                        if k and k.get("fn"):
                            f = k["fn"]
                            tgt = f["res"] if f["res"] and f["res_local"] else (f["path"] if f["local"] else None)
                            if tgt:
                                self._add(src, tgt, "fn-value")
                            elif f["trait"] and f["res"] is None:
                                self._trait_dispatch(src, f)
                t = bl["t"]
                if not t:
                    continue
                if t["t"] == "drop":
                    for d in self._drop_targets(t["ty"]):
                        self._add(src, d, "drop")
                if t["t"] != "call":
                    continue
                f = t["f"]
                if f.get("path") is None:
                    continue
                for c in t["cls"]:
                    self._add(src, c, "closure-arg")
                for o in t["a"]:
                    k = o.get("k")
                    if k and k.get("fn"):
                        ff = k["fn"]
                        tgt = ff["res"] if ff["res"] and ff["res_local"] else (ff["path"] if ff["local"] else None)
                        if tgt:
                            self._add(src, tgt, "fn-value")
                if f["res"] and f["res_local"]:
                    self._add(src, f["res"], "resolved")
                    continue
                path = f["path"]
                if f["res"] is None and f["local"]:
                    # unresolved call of a local trait method -> CHA over local impls
                    self._trait_dispatch(src, f)
                    continue
                self.ext[src].add(f["res"] or path)
                args = [a for a in f["args"] if not a.startswith("'")]
                if path in BITIO_READ:
                    tr, idx = BITIO_READ[path]
                    ty = args[idx] if len(args) > idx else None
                    for m in self._impl_methods(tr, ty, "from_reader"):
                        self._add(src, m, "bitio-parse")
                elif path in BITIO_WRITE:
                    tr, idx = BITIO_WRITE[path]
                    ty = args[idx] if len(args) > idx else None
                    for tr2 in ("bitstream_io::ToBitStream", "bitstream_io::ToBitStreamWith", "bitstream_io::ToBitStreamUsing") if idx == 0 else (tr,):
                        for m in self._impl_methods(tr2, ty, "to_writer"):
                            self._add(src, m, "bitio-build")
                elif path in CONVERSIONS or (f["res"] or "") in CONVERSIONS:
                    tr, selfidx, _ = CONVERSIONS.get(path) or CONVERSIONS.get(f["res"])
                    # target type is the impl's Self
                    if path.endswith("::collect") or path.endswith("::parse"):
                        ty = args[-1] if args else None
                    else:
                        ty = args[selfidx] if len(args) > selfidx else None
                    for m in self._impl_methods(tr, ty):
                        self._add(src, m, "conversion")
                    self._escape(src, args)
                else:
                    # escape: local types handed to foreign generic code
                    self._escape(src, args + t["aty"])

    def _trait_dispatch(self, src, f):
        tr = f["trait"]
        name = f["path"].rsplit("::", 1)[-1]
        selfty = f["args"][0] if f["args"] else None  # Self is always first
        ms = self._impl_methods(tr, selfty, name)
        if not ms:
            # default method body in the trait itself
            self._add(src, f["path"], "trait-default")
        for m in ms:
            self._add(src, m, "cha")
        # default method may also exist
        self._add(src, f["path"], "trait-default")

    # ---- queries ---------------------------------------------------------
    def reach(self, roots):
        seen = set()
        parent = {}
        dq = deque()
        for r in roots:
            if r not in seen:
                seen.add(r)
                parent[r] = None
                dq.append(r)
        while dq:
            n = dq.popleft()
            # promoted bodies ride along with their parent
            for m in self.edges.get(n, ()):
                if m not in seen:
                    seen.add(m)
                    parent[m] = n
                    dq.append(m)
        self._parent = parent
        return seen

    def path_to(self, n):
        p = []
        while n is not None:
            p.append(n)
            n = self._parent.get(n)
        return p[::-1]

    def ext_calls_in(self, keys):
        out = defaultdict(list)
        for k in keys:
            for e in self.ext.get(k, ()):
                out[e].append(k)
        return out


def _is_prim(p):
    return p in ("u8", "u16", "u32", "u64", "u128", "usize", "i8", "i16", "i32", "i64", "i128", "isize",
                 "bool", "char", "str", "f32", "f64")


def _rv_operands(rv):
    k = rv["r"]
    if k in ("use", "cast", "un", "repeat"):
        return [rv["o"]]
    if k == "bin":
        return [rv["a"], rv["b"]]
    if k == "agg":
        return rv["ops"]
    return []


def rv_operands(rv):
    return _rv_operands(rv)


# --------------------------------------------------------------------------
# region helpers: a function together with its closures (recursively)
# --------------------------------------------------------------------------

def region(F, body):
    """body plus all closures lexically nested in it (closures are treated as part of the function)"""
    return [body] + F.closures_of(body)


def all_calls(F, body, with_closures=True):
    """yield (body, block index, terminator) for all calls of body (and its nested closures)"""
    for b in (region(F, body) if with_closures else [body]):
        for i, t in b.calls():
            yield b, i, t


def calls_named(F, body, pattern, with_closures=True):
    r = re.compile(pattern)
    return [(b, i, t) for b, i, t in all_calls(F, body, with_closures) if r.search(callee_name(t)) or r.search(t["f"].get("path") or "")]


# --------------------------------------------------------------------------
# slicing
# --------------------------------------------------------------------------

def origins(body, operand, depth=12, _seen=None):
    """backward slice of an operand to the statements/terminators that produce its value.
    Returns a list of ('const', k) | ('call', term) | ('place', place) | ('bin', rv) | ('un', rv) |
    ('agg', rv) | ('arg', local) | ('disc', rv) | ('other', rv)"""
    _seen = _seen if _seen is not None else set()
    k = operand.get("k")
    if k is not None:
        return [("const", k)]
    p = op_place(operand)
    if p is None:
        return [("other", operand)]
    return place_origins(body, p, depth, _seen)


def place_origins(body, p, depth=12, _seen=None):
    _seen = _seen if _seen is not None else set()
    l = p["l"]
    if p["p"]:
        # a projection: report the place itself but also try to see through derefs of simple refs
        if p["p"] == ["*"]:
            out = []
            for (bi, si, d) in body.defs().get(l, []):
                if si != "T" and d["rv"]["r"] == "ref" and not d["d"]["p"]:
                    out.extend(place_origins(body, d["rv"]["p"], depth - 1, _seen))
                elif si != "T" and d["rv"]["r"] == "use" and not d["d"]["p"]:
                    q = op_place(d["rv"]["o"])
                    if q is not None:
                        out.extend(place_origins(body, {"l": q["l"], "p": q["p"] + ["*"]}, depth - 1, _seen))
            if out:
                return out
        return [("place", p)]
    if l in _seen or depth <= 0:
        return [("place", p)]
    _seen.add(l)
    if 1 <= l <= body.j["argc"]:
        ds = body.defs().get(l, [])
        if not ds:
            return [("arg", l)]
    out = []
    for (bi, si, d) in body.defs().get(l, []):
        if d["d"]["p"]:
            continue  # partial write
        if si == "T":
            out.append(("call", d))
            continue
        rv = d["rv"]
        r = rv["r"]
        if r == "use":
            out.extend(origins(body, rv["o"], depth - 1, _seen))
        elif r == "cast":
            out.append(("cast", rv))
        elif r in ("bin", "un", "agg", "disc", "ref"):
            out.append((r, rv))
        else:
            out.append(("other", rv))
    if not out:
        return [("arg", l)] if 1 <= l <= body.j["argc"] else [("place", p)]
    return out


def switch_edges_into(body, target_block):
    """(block, value-or-'else') for switch terminators with an edge to target_block"""
    out = []
    for i, bl in enumerate(body.blocks):
        t = bl["t"]
        if t and t["t"] == "switch":
            for v, tb in t["v"]:
                if tb == target_block:
                    out.append((i, v))
            if t["else"] == target_block:
                out.append((i, "else"))
    return out


def blocks_only_via(body, sw_block, taken):
    """set of blocks reachable from entry only through edge `taken` (a successor block) of switch sw_block:
    i.e. blocks dominated by the edge.  Approximated as: blocks reachable from `taken` that become
    unreachable from entry when the edge sw_block->taken is removed."""
    # reachability without the edge
    seen = set()
    st = [0]
    while st:
        b = st.pop()
        if b in seen:
            continue
        seen.add(b)
        for s in body.succs(b):
            if b == sw_block and s == taken:
                continue
            st.append(s)
    via = body.reachable(taken)
    return {b for b in via if b not in seen}


def const_of(o):
    k = o.get("k")
    return k["v"] if k else None


def must_pass(body, target_block, through, start=0):
    """True iff every CFG path from `start` to target_block contains a block of `through`"""
    through = set(through)
    if target_block in through or start in through:
        return True
    seen = set()
    st = [start]
    while st:
        b = st.pop()
        if b in seen or b in through:
            continue
        seen.add(b)
        if b == target_block:
            return False
        st.extend(body.succs(b))
    return True


def root_place(body, o, depth=10):
    """follow plain copies/moves/refs/derefs of an operand back to the place it started from"""
    p = op_place(o) if isinstance(o, dict) and ("c" in o or "m" in o) else o
    while p is not None and depth > 0:
        proj = [e for e in p["p"] if e != "*"]
        if proj:
            # resolve the base local through a reference if it is a simple ref
            ds = [d for d in body.defs().get(p["l"], []) if not d[2]["d"]["p"]]
            if len(ds) == 1 and ds[0][1] != "T" and ds[0][2]["rv"]["r"] in ("ref", "use"):
                rv = ds[0][2]["rv"]
                q = rv["p"] if rv["r"] == "ref" else op_place(rv["o"])
                if q is not None:
                    p = {"l": q["l"], "p": q["p"] + p["p"]}
                    depth -= 1
                    continue
            return p
        ds = [d for d in body.defs().get(p["l"], []) if not d[2]["d"]["p"]]
        if len(ds) != 1 or ds[0][1] == "T":
            return p
        rv = ds[0][2]["rv"]
        if rv["r"] == "use":
            q = op_place(rv["o"])
        elif rv["r"] == "ref":
            q = rv["p"]
        elif rv["r"] == "cast":
            q = op_place(rv["o"])
        else:
            return p
        if q is None:
            return p
        p = {"l": q["l"], "p": q["p"] + p["p"]}
        depth -= 1
    return p


def place_fields(p):
    """named fields along a place's projection"""
    return [e.split(":", 1)[1] for e in (p["p"] if p else []) if e.startswith(".") and ":" in e and e.split(":", 1)[1]]


def backward_slice(body, o, depth=40):
    """transitive backward data slice of an operand inside one body.
    Returns dict with 'calls' (list of call terminators), 'fields' (set of field names read),
    'consts' (set of ints), 'ops' (set of binary/unary operator names), 'args' (set of argument locals)"""
    out = {"calls": [], "fields": set(), "consts": set(), "ops": set(), "args": set(), "aggs": [], "elems": set()}
    seen = set()

    def visit_op(o, d):
        k = o.get("k") if isinstance(o, dict) else None
        if k is not None:
            if k["v"] is not None:
                out["consts"].add(k["v"])
            return
        p = op_place(o) if isinstance(o, dict) else None
        if p is not None:
            visit_place(p, d)

    def visit_place(p, d):
        for f in place_fields(p):
            out["fields"].add(f)
        for e in p["p"]:
            if e.startswith("[c"):
                out["elems"].add(e)
        l = p["l"]
        if l in seen or d <= 0:
            return
        seen.add(l)
        ds = body.defs().get(l, [])
        if not ds and 1 <= l <= body.j["argc"]:
            out["args"].add(l)
        if 1 <= l <= body.j["argc"]:
            out["args"].add(l)
        for bi, si, dd in ds:
            if si == "T":
                out["calls"].append(dd)
                for a in dd["a"]:
                    visit_op(a, d - 1)
                continue
            rv = dd["rv"]
            r = rv["r"]
            if r in ("use", "cast", "un", "repeat"):
                if r == "un":
                    out["ops"].add(rv["op"])
                visit_op(rv["o"], d - 1)
            elif r == "bin":
                out["ops"].add(rv["op"])
                visit_op(rv["a"], d - 1)
                visit_op(rv["b"], d - 1)
            elif r in ("ref", "disc"):
                visit_place(rv["p"], d - 1)
            elif r == "agg":
                out["aggs"].append(rv)
                for x in rv["ops"]:
                    visit_op(x, d - 1)
    visit_op(o, depth)
    return out


def slice_with_captures(F, body, o, depth=40):
    """backward_slice that continues through closure captures into the creating function"""
    sl = backward_slice(body, o, depth)
    if body.kind == "Closure" and 1 in sl["args"]:
        parent = F.body(body.path.rsplit("::{closure#", 1)[0])
        if parent is not None:
            for bl in parent.blocks:
                for s in bl["s"]:
                    rv = s["rv"]
                    if rv["r"] == "agg" and rv["ak"] == "closure" and rv["adt"] == body.path:
                        for op in rv["ops"]:
                            ps = slice_with_captures(F, parent, op, depth)
                            for k in ("fields", "consts", "ops", "args", "elems"):
                                sl[k] |= ps[k] if k != "args" else set()
                            sl["calls"] += ps["calls"]
                            sl["aggs"] += ps["aggs"]
    return sl


def capture_source(F, body, place):
    """for a place rooted in a closure's environment (`_1`, field k): the creating function and the operand captured
    as field k, followed transitively through nested closures.  Returns (body, place) of the outermost origin, or None."""
    cur_b, cur_p = body, place
    for _ in range(6):
        rp = root_place(cur_b, cur_p)
        if rp is None:
            return None
        if not (cur_b.kind == "Closure" and rp["l"] == 1):
            return (cur_b, rp)
        ks = [e for e in rp["p"] if re.match(r"^\.\d+:", e)]
        if not ks:
            return (cur_b, rp)
        k = int(ks[0][1:].split(":", 1)[0])
        parent = F.body(cur_b.path.rsplit("::{closure#", 1)[0])
        if parent is None:
            return (cur_b, rp)
        found = None
        for bl in parent.blocks:
            for s in bl["s"]:
                rv = s["rv"]
                if rv["r"] == "agg" and rv["ak"] == "closure" and rv["adt"] == cur_b.path and k < len(rv["ops"]):
                    found = rv["ops"][k]
        if found is None:
            return (cur_b, rp)
        q = op_place(found)
        if q is None:
            return (parent, None)
        cur_b, cur_p = parent, q
    return None
