"""Fact base loader and MIR utilities (substrate for all engines).

Everything here reads the JSON written by the rustc_private driver
(driver/src/main.rs) for /repo's current working tree.  Nothing executes
flac-codec code.
"""
import json, os, re, sys
from collections import defaultdict


class Body:
    __slots__ = ("j", "path", "kind", "blocks", "locals", "parent", "promoted",
                 "key", "_preds", "_dom", "_idom", "_pdom", "facts", "_defs", "_rpo")

    def __init__(self, j, facts):
        self.j = j
        self.facts = facts
        self.path = j["path"]
        self.kind = j["kind"]
        self.blocks = j["blocks"]
        self.locals = j["locals"]
        self.parent = j["parent"]
        self.promoted = j["promoted"]
        self.key = self.path if self.promoted is None else "%s::promoted[%d]" % (self.path, self.promoted)
        self._preds = None
        self._dom = None
        self._idom = None
        self._pdom = None
        self._defs = None
        self._rpo = None

    # ---- basic accessors -------------------------------------------------
    @property
    def file(self):
        return self.j["sp"]["file"]

    @property
    def line(self):
        return self.j["sp"]["line"]

    @property
    def eline(self):
        return self.j["sp"]["eline"]

    def loc(self, sp=None):
        sp = sp or self.j["sp"]
        return "%s:%d" % (sp["file"], sp["line"])

    def succs(self, b, cleanup=False):
        t = self.blocks[b]["t"]
        if t is None:
            return []
        k = t["t"]
        out = []
        if k == "goto":
            out = [t["to"]]
        elif k == "switch":
            out = [x[1] for x in t["v"]] + [t["else"]]
        elif k in ("drop", "assert"):
            out = [t["to"]]
        elif k == "call":
            out = [t["to"]] if t["to"] is not None else []
        if cleanup and t.get("uw") is not None:
            out = out + [t["uw"]]
        # dedupe, keep order
        seen = []
        for x in out:
            if x not in seen:
                seen.append(x)
        return seen

    def preds(self):
        if self._preds is None:
            p = defaultdict(list)
            for b in range(len(self.blocks)):
                for s in self.succs(b):
                    p[s].append(b)
            self._preds = p
        return self._preds

    def reachable(self, start=0, avoid=()):
        seen = set()
        st = [start]
        avoid = set(avoid)
        while st:
            b = st.pop()
            if b in seen or b in avoid:
                continue
            seen.add(b)
            st.extend(self.succs(b))
        return seen

    def rpo(self):
        if self._rpo is None:
            seen = set()
            order = []
            # iterative DFS postorder
            stack = [(0, iter(self.succs(0)))]
            seen.add(0)
            while stack:
                b, it = stack[-1]
                adv = False
                for s in it:
                    if s not in seen:
                        seen.add(s)
                        stack.append((s, iter(self.succs(s))))
                        adv = True
                        break
                if not adv:
                    order.append(b)
                    stack.pop()
            self._rpo = order[::-1]
        return self._rpo

    def dominators(self):
        """dom[b] = set of blocks dominating b (normal-flow CFG, entry bb0)."""
        if self._dom is None:
            rpo = self.rpo()
            idx = {b: i for i, b in enumerate(rpo)}
            preds = self.preds()
            idom = {0: 0}
            changed = True

            def inter(a, b):
                while a != b:
                    while idx[a] > idx[b]:
                        a = idom[a]
                    while idx[b] > idx[a]:
                        b = idom[b]
                return a
            while changed:
                changed = False
                for b in rpo[1:]:
                    ps = [p for p in preds[b] if p in idom]
                    if not ps:
                        continue
                    n = ps[0]
                    for p in ps[1:]:
                        n = inter(n, p)
                    if idom.get(b) != n:
                        idom[b] = n
                        changed = True
            self._idom = idom
            dom = {}
            for b in rpo:
                s = {b}
                x = b
                while x != 0:
                    x = idom[x]
                    s.add(x)
                dom[b] = s
            self._dom = dom
        return self._dom

    def dominates(self, a, b):
        d = self.dominators()
        return b in d and a in d[b]

    def return_blocks(self):
        return [i for i, b in enumerate(self.blocks) if b["t"] and b["t"]["t"] == "ret" and not b["cleanup"]]

    def calls(self):
        """yield (block index, terminator) for every call terminator (non-cleanup)."""
        for i, b in enumerate(self.blocks):
            t = b["t"]
            if t and t["t"] == "call":
                yield i, t

    def local_ty(self, l):
        return self.locals[l]["ty"]

    def local_name(self, l):
        return self.locals[l]["name"]

    # ---- def-use ---------------------------------------------------------
    def defs(self):
        """local -> list of (block, stmt index or 'T', rvalue-or-call)"""
        if self._defs is None:
            d = defaultdict(list)
            for bi, b in enumerate(self.blocks):
                for si, s in enumerate(b["s"]):
                    d[s["d"]["l"]].append((bi, si, s))
                t = b["t"]
                if t and t["t"] == "call":
                    d[t["d"]["l"]].append((bi, "T", t))
            self._defs = d
        return self._defs


def callee_name(t):
    """best name for the callee of a call terminator: resolved path if any"""
    f = t["f"]
    if f.get("path") is None:
        return "<indirect>"
    return f["res"] or f["path"]


def strip_generics(p):
    """remove <...> groups from a def path: a::B::<T>::c -> a::B::c"""
    out = []
    depth = 0
    i = 0
    while i < len(p):
        c = p[i]
        if c == "<":
            depth += 1
        elif c == ">":
            depth -= 1
        elif depth == 0:
            out.append(c)
        i += 1
    s = "".join(out)
    s = s.replace("::::", "::")
    while s.endswith("::"):
        s = s[:-2]
    return s


def op_place(o):
    if "c" in o:
        return o["c"]
    if "m" in o:
        return o["m"]
    return None


def op_local(o):
    p = op_place(o)
    if p is not None and not p["p"]:
        return p["l"]
    return None


def op_const(o):
    return o.get("k")


def op_int(o):
    k = o.get("k")
    if k is not None:
        return k["v"]
    return None


class Facts:
    def __init__(self, path):
        self.path = path
        with open(path) as f:
            self.j = json.load(f)
        import inline
        self.inlined = inline.apply(self.j, os.path.dirname(os.path.dirname(os.path.abspath(__file__))))
        self.bodies = [Body(b, self) for b in self.j["bodies"]]
        self.by_key = {}
        self.by_path = defaultdict(list)
        for b in self.bodies:
            self.by_key[b.key] = b
            self.by_path[b.path].append(b)
        self.adts = {a["path"]: a for a in self.j["adts"]}
        self.impls = self.j["impls"]
        self.statics = {s["path"]: s for s in self.j["statics"]}
        self.children = defaultdict(list)  # fn path -> closure bodies
        for b in self.bodies:
            if b.kind == "Closure" and b.promoted is None:
                self.children[b.parent].append(b)

    def body(self, path):
        """the (non-promoted) body with exactly this def path, or None"""
        for b in self.by_path.get(path, []):
            if b.promoted is None:
                return b
        return None

    def find(self, pattern):
        """bodies whose generic-stripped path matches regex (fullmatch)"""
        r = re.compile(pattern)
        return [b for b in self.bodies if b.promoted is None and r.fullmatch(strip_generics(b.path))]

    def one(self, stripped):
        """exactly one non-promoted body whose generic-stripped path equals `stripped`"""
        c = [b for b in self.bodies if b.promoted is None and strip_generics(b.path) == stripped]
        return c

    def closures_of(self, body, recursive=True):
        """closure bodies lexically inside `body` (path prefix)"""
        out = []
        pref = body.path + "::{closure#"
        for b in self.bodies:
            if b.promoted is None and b.kind == "Closure" and b.path.startswith(pref):
                if recursive or b.path.count("{closure#") == body.path.count("{closure#") + 1:
                    out.append(b)
        return out


def qual(name):
    """readable generic-free callee name that keeps `<T as Trait>::m` information: 'T as Trait::m'"""
    m = re.match(r"^<(.*) as (.*)>::([A-Za-z_0-9]+)$", name or "")
    if m:
        ty, tr, meth = m.group(1), m.group(2), m.group(3)
        return "%s as %s::%s" % (strip_generics(ty).lstrip("&").strip() or ty, strip_generics(tr), meth)
    return strip_generics(name or "")
