"""Engine D2: "Ok-implies" facts.

For a function returning Result/Option computes the set of boolean facts that
are guaranteed to have held whenever the returned value is Ok/Some.  Facts:

  ("valid", <receiver type>)                call of crc::Checksum::valid returned true
  ("cmp", op, lhs-descriptor, rhs-descriptor)  comparison held (op normalised so that
                                             Lt/Le only; Eq/Ne symmetric by sorting)
  ("call-ok", <callee path>)                a call to callee returned Ok/Some/Continue

Handles the repository's idioms uniformly: early `return Err`, `?`,
`cond.then_some(x).ok_or(E)`, `Result::and_then(closure)`, `Option::filter`,
`match r { Ok(..) => .., Err(..) => .. }`.
"""
from core import *

TOP = None  # "all facts" (value can never be Ok / block unreachable)


def _meet(a, b):
    if a is TOP:
        return b
    if b is TOP:
        return a
    return a & b


def _join(a, b):
    if a is TOP or b is TOP:
        return TOP
    return a | b


PASS_THROUGH = (
    # (regex on callee path, index of the Result/Option argument whose facts carry over)
    (r"::Option::<T>::ok_or$", 0), (r"::Option::<T>::ok_or_else$", 0),
    (r"::Result::<T, E>::map_err$", 0), (r"::Result::<T, E>::map$", 0), (r"::Option::<T>::map$", 0),
    (r"::Result::<T, E>::ok$", 0), (r"::Option::<T>::copied$", 0), (r"::Option::<T>::cloned$", 0),
    (r"::Result::<T, E>::inspect$", 0), (r"::Option::<T>::inspect$", 0),
    (r"::Option::<T>::transpose$", 0), (r"::Result::<T, E>::transpose$", 0),
    (r"Try>::branch$", 0), (r"::Try::branch$", 0),
    (r"FromResidual<.*>>::from_residual$", None),
    (r"::Option::<T>::as_ref$", 0), (r"::Option::<T>::as_mut$", 0), (r"::Option::<&T>::copied$", 0),
    (r"::Option::<&T>::cloned$", 0), (r"::Result::<T, E>::as_ref$", 0),
)
CLOSURE_COMBINE = (r"::Result::<T, E>::and_then$", r"::Option::<T>::and_then$", r"::Option::<T>::filter$")


class OkImplies:
    def __init__(self, F, cg=None):
        self.F = F
        self.cg = cg
        self.memo = {}
        self.inprog = set()
        self.some_only = False

    # ---- descriptors -----------------------------------------------------
    def desc(self, body, o, depth=4):
        k = o.get("k")
        if k is not None:
            if k["v"] is not None:
                return "const:%s" % k["v"]
            if k.get("fn"):
                return "fn:" + strip_generics(k["fn"]["res"] or k["fn"]["path"])
            return "const:" + k["s"]
        p = op_place(o)
        if p is None:
            return "?"
        return self.desc_place(body, p, depth)

    def desc_place(self, body, p, depth=4):
        names = [e.split(":", 1)[1] for e in p["p"] if e.startswith(".") and e.split(":", 1)[1] and not e.split(":", 1)[1].isdigit()]
        if names:
            return "field:" + names[-1]
        rp = root_place(body, p)
        if rp is not None and rp != p:
            # a closure capture or another temp: name it by the variable it came from
            rn = [f for f in place_fields(rp) if not f.isdigit()]
            if rn:
                return "field:" + rn[-1]
            for d in body.j["dbg"]:
                if d["p"]["l"] == rp["l"] and d["p"]["p"] and d["p"]["p"] == rp["p"][:len(d["p"]["p"])]:
                    return "var:" + d["name"]
        # captured variable of a closure / named place
        for d in body.j["dbg"]:
            if d["p"]["l"] == p["l"] and d["p"]["p"] == p["p"][:len(d["p"]["p"])] and d["p"]["p"]:
                return "var:" + d["name"]
        if depth <= 0:
            return "?"
        l = p["l"]
        ds = [d for d in body.defs().get(l, []) if not d[2]["d"]["p"]]
        if not ds:
            n = body.local_name(l)
            return "arg:%s" % (n or l)
        if len(ds) > 1:
            n = body.local_name(l)
            return "var:%s" % (n or l)
        bi, si, d = ds[0]
        if si == "T":
            return "call:%s(%s)" % (short(callee_name(d)), ",".join(self.desc(body, a, depth - 1) for a in d["a"][:3]))
        rv = d["rv"]
        r = rv["r"]
        if r == "use" and not p["p"] and body.local_name(l) and "k" in rv["o"] and any(
                st["rv"]["r"] == "ref" and st["rv"].get("mut") and st["rv"]["p"]["l"] == l and not st["rv"]["p"]["p"] for bl in body.blocks for st in bl["s"]):
            # a named variable that is only initialised here and later written through `&mut`: it is that variable, not its initial value
            return "var:%s" % body.local_name(l)
        if r in ("use", "cast"):
            return self.desc(body, rv["o"], depth - 1)
        if r == "ref":
            return self.desc_place(body, rv["p"], depth - 1)
        if r == "bin":
            return "%s(%s,%s)" % (rv["op"], self.desc(body, rv["a"], depth - 1), self.desc(body, rv["b"], depth - 1))
        if r == "un":
            return "%s(%s)" % (rv["op"], self.desc(body, rv["o"], depth - 1))
        if r == "agg":
            return "agg:%s::%s" % (rv["adt"], rv["var"])
        return "?"

    # ---- boolean facts of an operand being true / false ---------------------
    def bool_facts(self, body, o, want=True, depth=6):
        """facts implied by boolean operand o evaluating to `want`"""
        if depth <= 0:
            return frozenset()
        l = op_local(o)
        if l is None:
            p = op_place(o)
            if p is not None and p["p"]:
                # a boolean field / captured flag tested directly
                return frozenset([("flag", bool(want), self.desc_place(body, p))])
            return frozenset()
        ds = [d for d in body.defs().get(l, []) if not d[2]["d"]["p"]]
        if len(ds) == 1 and ds[0][1] != "T" and ds[0][2]["rv"]["r"] == "use" and op_place(ds[0][2]["rv"]["o"]) is not None and op_place(ds[0][2]["rv"]["o"])["p"]:
            return frozenset([("flag", bool(want), self.desc_place(body, op_place(ds[0][2]["rv"]["o"])))])
        if len(ds) != 1:
            # `a || b` / `a && b` lower to several constant/conditional assignments: not a single fact
            return self._shortcircuit(body, l, ds, want, depth)
        bi, si, d = ds[0]
        if si == "T":
            name = callee_name(d)
            path = d["f"].get("path") or ""
            if path.endswith("Checksum::valid") or name.endswith("::valid"):
                recv = d["aty"][0] if d["aty"] else "?"
                return frozenset([("valid" if want else "invalid", base_path(recv))])
            if path in ("std::cmp::PartialEq::eq", "std::cmp::PartialEq::ne"):
                op = "Eq" if path.endswith("eq") else "Ne"
                if not want:
                    op = {"Eq": "Ne", "Ne": "Eq"}[op]
                a, b = sorted([self.desc(body, d["a"][0]), self.desc(body, d["a"][1])])
                return frozenset([("cmp", op, a, b)])
            for pat, op in ((r"PartialOrd::lt$", "Lt"), (r"PartialOrd::le$", "Le"), (r"PartialOrd::gt$", "Gt"), (r"PartialOrd::ge$", "Ge")):
                if re.search(pat, path):
                    return frozenset([self._cmp(op, self.desc(body, d["a"][0]), self.desc(body, d["a"][1]), want)])
            if re.search(r"::contains$", name):
                return frozenset([("contains" if want else "not-contains", self.desc(body, d["a"][0]), self.desc(body, d["a"][1]))])
            return frozenset([("call-true" if want else "call-false", short(name))])
        rv = d["rv"]
        if rv["r"] == "use":
            return self.bool_facts(body, rv["o"], want, depth - 1)
        if rv["r"] == "un" and rv["op"] == "Not":
            return self.bool_facts(body, rv["o"], not want, depth - 1)
        if rv["r"] == "bin" and rv["op"] in ("Eq", "Ne", "Lt", "Le", "Gt", "Ge"):
            return frozenset([self._cmp(rv["op"], self.desc(body, rv["a"]), self.desc(body, rv["b"]), want)])
        if rv["r"] == "bin" and rv["op"] in ("BitAnd", "BitOr"):
            if (rv["op"] == "BitAnd") == want:
                return self.bool_facts(body, rv["a"], want, depth - 1) | self.bool_facts(body, rv["b"], want, depth - 1)
        return frozenset()

    def _shortcircuit(self, body, l, ds, want, depth):
        # `_x = a || b` lowers to: switch(a) true-> _x = true ; false-> _x = b (or nested).  For want=True of
        # an OR no single fact holds; record an ("or", facts...) fact made of the alternatives.
        alts = []
        for bi, si, d in ds:
            if si == "T":
                alts.append(self.bool_facts_of_def(body, d, want, depth - 1) | self._path(body, bi))
                continue
            rv = d["rv"]
            if rv["r"] == "use" and rv["o"].get("k") is not None:
                v = rv["o"]["k"]["v"]
                if (v == 1) == want:
                    alts.append(self._path(body, bi))
                # constant opposite of what we want: this definition cannot produce `want`
                continue
            if rv["r"] == "use":
                alts.append(self.bool_facts(body, rv["o"], want, depth - 1) | self._path(body, bi))
            else:
                # comparison etc. assigned directly
                fake = {"c": {"l": l, "p": []}}
                alts.append(self._rv_bool(body, rv, want, depth - 1) | self._path(body, bi))
        alts = [a for a in alts if a is not TOP]
        if not alts:
            return frozenset()
        common = frozenset.intersection(*[frozenset(a) for a in alts])
        # the disjunction itself, order-independent
        rest = sorted(tuple(sorted(a - common)) for a in alts)
        out = set(common)
        if all(rest) and len(rest) > 1:
            out.add(("or",) + tuple(rest))
        return frozenset(out)

    def _rv_bool(self, body, rv, want, depth):
        if rv["r"] == "bin" and rv["op"] in ("Eq", "Ne", "Lt", "Le", "Gt", "Ge"):
            return frozenset([self._cmp(rv["op"], self.desc(body, rv["a"]), self.desc(body, rv["b"]), want)])
        if rv["r"] == "un" and rv["op"] == "Not":
            return self.bool_facts(body, rv["o"], not want, depth)
        return frozenset()

    def bool_facts_of_def(self, body, d, want, depth):
        fake_local = d["d"]["l"]
        return self.bool_facts(body, {"c": {"l": fake_local, "p": []}}, want, depth) if False else frozenset()

    def _path(self, body, bi):
        v = self._pf_at(body, bi)
        return frozenset() if v is TOP else v

    @staticmethod
    def _cmp(op, a, b, want=True):
        if not want:
            op = {"Eq": "Ne", "Ne": "Eq", "Lt": "Ge", "Le": "Gt", "Gt": "Le", "Ge": "Lt"}[op]
        if op in ("Gt", "Ge"):
            op = {"Gt": "Lt", "Ge": "Le"}[op]
            a, b = b, a
        if op in ("Eq", "Ne"):
            a, b = sorted([a, b])
        return ("cmp", op, a, b)

    # ---- per-body analysis ---------------------------------------------------
    def path_facts(self, body):
        key = ("pf", body.key)
        if key in self.memo:
            return self.memo[key]
        n = len(body.blocks)
        IN = {0: frozenset()}
        self.memo[key] = IN  # live: re-entrant lookups see the partial solution
        self.inprog.add(key)
        order = body.rpo()
        preds = body.preds()
        edge_cache = {}

        def edge(p, s):
            return self.edge_facts(body, p, s)
        changed = True
        it = 0
        while changed and it < 50:
            changed = False
            it += 1
            for b in order:
                if b == 0:
                    continue
                acc = TOP
                for p in preds[b]:
                    if p not in IN:
                        continue
                    ef = edge(p, b)
                    if ef is TOP:      # infeasible edge
                        continue
                    acc = _meet(acc, _join(IN[p], ef))
                if acc is TOP:
                    # no feasible predecessor seen yet
                    if any(p in IN for p in preds[b]):
                        if b not in IN or IN[b] is not TOP:
                            pass
                    continue
                if IN.get(b, "unset") != acc:
                    IN[b] = acc
                    changed = True
        self.memo[key] = IN
        self.inprog.discard(key)
        return IN

    def _pf_at(self, body, bi):
        """path facts at block bi; TOP if unreachable; {} while the fixpoint is still running"""
        pf = self.path_facts(body)
        if bi in pf:
            return pf[bi]
        if ("pf", body.key) in self.inprog:
            return frozenset()
        return TOP

    @staticmethod
    def _untuple(body, pl):
        """place `_t.k...` where `_t` is a tuple built once in this body from operands: the k-th operand's place"""
        for _ in range(3):
            if not pl["p"] or not re.match(r"^\.\d+:", pl["p"][0]):
                return pl
            ds = [d for d in body.defs().get(pl["l"], [])]
            if len(ds) != 1 or ds[0][1] == "T" or ds[0][2]["d"]["p"] or ds[0][2]["rv"]["r"] != "agg" or ds[0][2]["rv"].get("ak") != "tuple":
                return pl
            k = int(pl["p"][0][1:].split(":", 1)[0])
            ops = ds[0][2]["rv"]["ops"]
            q = op_place(ops[k]) if k < len(ops) else None
            if q is None:
                return pl
            pl = {"l": q["l"], "p": list(q["p"]) + list(pl["p"][1:])}
        return pl

    def edge_facts(self, body, p, s):
        """facts gained by taking CFG edge p->s"""
        t = body.blocks[p]["t"]
        if not t or t["t"] != "switch":
            return frozenset()
        vals = [v for v, tb in t["v"] if tb == s]
        is_else = t["else"] == s
        # several values / else to the same block: no information
        if len(vals) + (1 if is_else else 0) != 1:
            return frozenset()
        o = t["o"]
        l = op_local(o)
        ty = t["ty"]
        if ty == "bool":
            if vals:
                want = vals[0] == 1
            else:
                # else-edge of a bool switch with one listed value
                listed = [v for v, _ in t["v"]]
                want = not (listed[0] == 1) if len(listed) == 1 else None
            if want is None:
                return frozenset()
            return self.bool_facts(body, o, want)
        # discriminant switch?
        if l is not None:
            ds = [d for d in body.defs().get(l, []) if not d[2]["d"]["p"]]
            if len(ds) == 1 and ds[0][1] != "T" and ds[0][2]["rv"]["r"] == "disc":
                rv = ds[0][2]["rv"]
                rv = dict(rv, p=self._untuple(body, rv["p"]))      # match (a(), b) { (Ok(x), ..) => .. }: element 0 is a()'s result
                dty = rv["ty"]
                okv = self._ok_disc(dty)
                listed = [v for v, _ in t["v"]]
                if vals:
                    v = vals[0]
                else:
                    allv = self._all_discs(dty)
                    rest = [x for x in (allv if allv is not None else (0, 1)) if x not in listed]
                    v = rest[0] if len(rest) == 1 else None
                out = frozenset()
                vn = self._variant_name(dty, v)
                if vn is not None:
                    dsc = self.desc_place(body, rv["p"])
                    tix = [e for e in rv["p"]["p"] if re.match(r"^\.\d+:\d*$", e)]
                    if tix and dsc.startswith("call:"):
                        # element of a tuple returned by a call (e.g. the two results of join)
                        dsc += "#" + tix[-1][1:].split(":")[0]
                    out = frozenset([("is", vn, dsc)])
                if okv is not None and v == okv:
                    vf = self.value_facts(body, {"c": rv["p"]} if not rv["p"]["p"] else None, rv["p"])
                    if vf is TOP:
                        return TOP
                    return out | vf
                return out
        # integer switch: equality / inequality with the listed constant
        if l is not None or op_place(o) is not None:
            d = self.desc(body, o)
            if vals:
                return frozenset([("cmp", "Eq", "const:%s" % vals[0], d)])
            listed = [v for v, _ in t["v"]]
            if len(listed) == 1:
                return frozenset([("cmp", "Ne", "const:%s" % listed[0], d)])
        return frozenset()

    def _all_discs(self, ty):
        t = ty.lstrip("&").strip()
        if t.startswith("mut "):
            t = t[4:]
        bp = base_path(t)
        if bp in ("std::result::Result", "std::option::Option", "std::ops::ControlFlow"):
            return (0, 1)
        ad = self.F.adts.get(bp)
        if ad is not None:
            return tuple(int(v["disc"]) for v in ad["variants"])
        return None

    def _variant_name(self, ty, v):
        if v is None:
            return None
        t = ty.lstrip("&").strip()
        if t.startswith("mut "):
            t = t[4:]
        bp = base_path(t)
        std = {"std::result::Result": {0: "Ok", 1: "Err"}, "std::option::Option": {0: "None", 1: "Some"}, "std::ops::ControlFlow": {0: "Continue", 1: "Break"},
               "std::cmp::Ordering": {-1: "Less", 0: "Equal", 1: "Greater"}}
        if bp in std:
            return std[bp].get(v)
        ad = self.F.adts.get(bp)
        if ad is not None:
            for var in ad["variants"]:
                if int(var["disc"]) == v:
                    return var["name"]
        return None

    @staticmethod
    def _ok_disc(ty):
        t = ty.lstrip("&").strip()
        if t.startswith("mut "):
            t = t[4:]
        if t.startswith("std::result::Result<"):
            return 0
        if t.startswith("std::option::Option<"):
            return 1
        if t.startswith("std::ops::ControlFlow<"):
            return 0
        return None

    def value_facts(self, body, o, place=None, depth=10):
        """facts implied by the Result/Option/ControlFlow held in operand o being Ok/Some/Continue"""
        if depth <= 0:
            return frozenset()
        p = place if place is not None else (op_place(o) if o else None)
        if p is None:
            return frozenset()
        if p["p"]:
            # through a reference: `(*_x)`
            if p["p"] == ["*"]:
                outs = []
                for (bi, si, d) in body.defs().get(p["l"], []):
                    if si != "T" and d["rv"]["r"] == "ref":
                        outs.append(self.value_facts(body, None, d["rv"]["p"], depth - 1))
                    else:
                        outs.append(frozenset())
                acc = TOP
                for x in outs:
                    acc = _meet(acc, x)
                return frozenset() if acc is TOP and not outs else acc
            return frozenset()
        l = p["l"]
        ds = [d for d in body.defs().get(l, []) if not d[2]["d"]["p"]]
        if not ds:
            return frozenset()
        key = ("vf", body.key, l)
        if key in self.inprog:
            return frozenset()
        self.inprog.add(key)
        try:
            acc = TOP
            for bi, si, d in ds:
                pf = self._pf_at(body, bi)
                if pf is TOP:
                    continue   # unreachable definition
                if si == "T":
                    vf = self.call_facts(body, d, depth)
                else:
                    vf = self.rv_facts(body, d["rv"], depth)
                acc = _meet(acc, _join(pf, vf) if vf is not TOP else TOP)
            return acc
        finally:
            self.inprog.discard(key)

    def rv_facts(self, body, rv, depth):
        r = rv["r"]
        if self.some_only and r == "agg" and rv["ak"] == "adt" and rv["adt"] == "std::result::Result" and rv["var"] == "Ok" and rv["ops"]:
            # Ok(None) does not count as a success carrying data
            for kind, x in origins(body, rv["ops"][0]):
                if kind == "agg" and x["adt"] == "std::option::Option" and x["var"] == "None":
                    return TOP
        if r == "use":
            return self.value_facts(body, rv["o"], None, depth - 1) if op_place(rv["o"]) else frozenset()
        if r == "agg" and rv["ak"] == "adt":
            adt, var = rv["adt"], rv["var"]
            if adt in ("std::result::Result", "std::option::Option", "std::ops::ControlFlow"):
                if var in ("Err", "None", "Break"):
                    return TOP
                return frozenset()
            return frozenset()
        return frozenset()

    def call_facts(self, body, t, depth):
        name = t["f"].get("res") or t["f"].get("path") or ""
        path = t["f"].get("path") or ""
        for pat, idx in PASS_THROUGH:
            if re.search(pat, name) or re.search(pat, path):
                if idx is None:
                    return TOP   # from_residual builds an Err/None
                return self.value_facts(body, t["a"][idx], None, depth - 1)
        if re.search(r"bool>?::then_some$", name) or re.search(r"bool>?::then$", name):
            return self.bool_facts(body, t["a"][0], True)
        for pat in CLOSURE_COMBINE:
            if re.search(pat, name):
                base = self.value_facts(body, t["a"][0], None, depth - 1)
                cl = t["cls"][0] if t["cls"] else None
                clf = frozenset()
                if cl:
                    cb = self.F.body(cl)
                    if cb is not None:
                        if name.endswith("::filter"):
                            clf = self.closure_bool_facts(cb)
                        else:
                            clf = self.summary(cb)
                return _join(base, clf)
        f = t["f"]
        # bitstream-io parse dispatch: Ok of parse::<T>() implies Ok of T::from_reader
        if self.cg is not None and path in BITIO_READ:
            tr, idx = BITIO_READ[path]
            targs = [a for a in f["args"] if not a.startswith("'")]
            ty = targs[idx] if len(targs) > idx else None
            ms = self.cg._impl_methods(tr, ty, "from_reader")
            if len(ms) == 1:
                cb = self.F.body(ms[0])
                if cb is not None:
                    s = self.summary(cb)
                    if s is TOP:
                        return TOP
                    return s | frozenset([("call-ok", qual(name))])
        # a closure built in this very function and called through Fn*::call* (a helper taking `impl FnOnce` that was
        # inlined, or an immediately used local closure): its own summary
        if re.search(r"^std::ops::(FnOnce::call_once|FnMut::call_mut|Fn::call)$", path) and t["a"]:
            src = [x for k, x in origins(body, t["a"][0]) if k == "agg" and x.get("ak") == "closure"]
            if len(src) == 1:
                cb = self.F.body(src[0]["adt"])
                if cb is not None:
                    s = self.summary(cb)
                    if s is TOP:
                        return TOP
                    return s | frozenset([("call-ok", qual(name))])
        # a call of a local function: its own summary
        if f.get("res") and f.get("res_local"):
            cb = self.F.body(f["res"])
            if cb is not None:
                s = self.summary(cb)
                if s is TOP:
                    return TOP
                return s | frozenset([("call-ok", qual(f["res"]))])
        return frozenset([("call-ok", qual(name))])

    def closure_bool_facts(self, cb):
        """facts implied by a bool-returning closure returning true"""
        acc = TOP
        for bi, bl in enumerate(cb.blocks):
            for s in bl["s"]:
                if s["d"]["l"] == 0 and not s["d"]["p"]:
                    pf = self._pf_at(cb, bi)
                    if pf is TOP:
                        continue
                    rv = s["rv"]
                    if rv["r"] == "use" and rv["o"].get("k") is not None:
                        if rv["o"]["k"]["v"] == 0:
                            continue
                        acc = _meet(acc, pf)
                    elif rv["r"] == "use":
                        acc = _meet(acc, pf | self.bool_facts(cb, rv["o"], True))
                    else:
                        acc = _meet(acc, pf | self._rv_bool(cb, rv, True, 5))
            t = bl["t"]
            if t and t["t"] == "call" and t["d"]["l"] == 0 and not t["d"]["p"]:
                pf = self._pf_at(cb, bi)
                if pf is not TOP:
                    acc = _meet(acc, pf | self.bool_facts(cb, {"c": {"l": 0, "p": []}}, True))
        return frozenset() if acc is TOP else acc

    def must_pass(self, body, target, pred):
        """True iff every CFG path from the entry to `target` crosses an edge (or enters a block) whose facts satisfy pred"""
        pf = self.path_facts(body)
        seen = set()
        st = [0]
        while st:
            b = st.pop()
            if b in seen:
                continue
            seen.add(b)
            f = pf.get(b)
            if f is not None and f is not TOP and pred(f):
                continue   # gate block: paths through it are fine
            if b == target:
                return False
            for s in body.succs(b):
                ef = self.edge_facts(body, b, s)
                if ef is TOP:
                    continue
                if ef and pred(ef):
                    continue   # gate edge
                st.append(s)
        return True

    def summary(self, body):
        """facts implied by body's return value being Ok/Some"""
        key = ("sum", body.key)
        if key in self.memo:
            return self.memo[key]
        if key in self.inprog:
            return frozenset()
        self.inprog.add(key)
        try:
            r = self.value_facts(body, {"c": {"l": 0, "p": []}})
        finally:
            self.inprog.discard(key)
        self.memo[key] = r
        return r


def short(name):
    s = strip_generics(name)
    parts = s.split("::")
    return "::".join(parts[-2:]) if len(parts) >= 2 else s


def has_fact(facts, pred):
    if facts is TOP:
        return True
    for f in facts:
        if pred(f):
            return True
        if f and f[0] == "or":
            pass
    return False


def fact_str(facts):
    if facts is TOP:
        return "TOP(never Ok)"
    return "; ".join(sorted(str(f) for f in facts))
