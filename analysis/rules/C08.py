"""C08 The encoded file depends only on the PCM and options, not on how it was written.

Decided:
  C08.det    nothing reachable from the writers' write/flush/finalize/drop reads a clock, randomness, the environment,
             thread identity or iterates a randomly seeded hash map
  C08.sib    the three front-ends agree on one protocol per block: extend carry-over buffer -> make the whole buffer
             contiguous -> chunks_exact(one block) -> (byte order conversion ->) MD5 update -> Encoder::encode ->
             drain exactly the encoded blocks; every Encoder::encode call is dominated by the MD5 update of the same
             data, and in the byte front-end the MD5 is fed after conversion to little-endian
  C08.trunc  the interleaved front-ends cut the final partial PCM frame with `len - len % pcm_frame_size`, guarded
             by `len >= pcm_frame_size`; the block size used for chunking is frame size x block_size
  C08.create the path front-ends truncate a file they are allowed to overwrite (no tail of an older file survives)
  C08.md5    MD5 input is the little-endian, byte-width-truncated sample: width k bytes <-> i{8k} converter
Not decided: byte identity of the output across chunkings (value-level).
"""
from rules.common import *
from core import backward_slice as _core_backward_slice

META = {
    "level": "other",
    "rule": "who-may-call denylist over the call graph; dominance and dataflow-origin rules over the six front-end functions; sibling agreement",
    "explanation": "Rule instances are call sites in the writers' write/finalize functions; each requires a dominance relation or an origin (which field sizes the chunking, which buffer feeds MD5 and encode). Necessary structural conditions for chunking-independence.",
}

DENY = [r"^std::time::", r"^std::env::", r"^std::thread::", r"::RandomState", r"^std::collections::hash_map::", r"^std::collections::HashMap", r"^std::hash::random",
        r"^rand", r"^fastrand", r"^std::process::", r"^std::net::", r"^std::ptr::.*addr", r"^std::fs::(metadata|read_dir)"]

FRONTS = {
    "byte": {"write": "<encode::FlacByteWriter<W, E> as std::io::Write>::write", "fin": "encode::FlacByteWriter::finalize_inner", "buf": "buf", "size": "frame_byte_size"},
    "sample": {"write": "encode::FlacSampleWriter::write", "fin": "encode::FlacSampleWriter::finalize_inner", "buf": "sample_buf", "size": "frame_sample_size"},
    "channel": {"write": "encode::FlacChannelWriter::write", "fin": "encode::FlacChannelWriter::finalize_inner", "buf": "channel_bufs", "size": "frame_sample_size"},
}


def _get(F, rep, rule, path):
    bs = [b for b in F.bodies if b.promoted is None and (b.path == path or strip_generics(b.path) == path)]
    if len(bs) != 1:
        rep.bad(rule, "anchor:" + path, "", "function not found (%d)" % len(bs))
        return None
    return bs[0]


def enc_entries(F):
    out = []
    for b in F.bodies:
        if b.promoted is None and b.kind != "Closure":
            sp = strip_generics(b.path)
            if re.match(r"encode::Flac(Byte|Sample|Channel|Stream)Writer::", sp) or re.match(r"<encode::Flac", b.path) or re.match(r"<encode::Encoder", b.path):
                out.append(b.key)
    return out


def run(ctx, rep):
    F = ctx.facts()
    cg = ctx.cg()

    # ---- C08.det ------------------------------------------------------------------------------
    roots = enc_entries(F)
    rep.floor("C08.det", "writer entry points", len(roots), 30)
    reach = cg.reach(roots)
    ext = cg.ext_calls_in(reach)
    bad = [(e, u[0]) for e, u in ext.items() if any(re.search(p, e) for p in DENY)]
    rep.check("C08.det", "no clock / randomness / environment / thread identity reachable from the writers", not bad, "src/encode.rs",
              "%d bodies reachable, %d distinct external callees" % (len(reach), len(ext)),
              "a writer entry point reaches %s (via %s): output may differ between runs" % (bad[0] if bad else "", ""))
    for e in sorted(ext):
        pass

    protocol(ctx, rep, "C08")
    from rules import C07
    C07.bytes_to_le_rules(ctx.facts(), rep, "C08")
    from rules import cachelib, C07 as _C07
    cachelib.cache_rules(ctx, rep, "C08")
    compose(ctx, rep, "C07", "C08.conv", r"^C07\.(endian|width)$")


def protocol(ctx, rep, P):
    """front-end protocol rules, shared with C09 (MD5 truthfulness) under another rule prefix"""
    F = ctx.facts()

    def backward_slice(body_, o_):      # inside a closure, captured state is followed into the creating function
        return slice_with_captures(F, body_, o_) if body_.kind == "Closure" else _core_backward_slice(body_, o_)
    # ---- per front-end protocol ---------------------------------------------------------------------
    nenc = 0
    for name, fr in FRONTS.items():
        wb = _get(F, rep, P + ".sib", fr["write"])
        fb = _get(F, rep, P + ".sib", fr["fin"])
        for role, b in (("write", wb), ("finalize", fb)):
            if b is None:
                continue
            reg = region(F, b)
            # the per-block work may be the body of a closure handed to try_fold / try_for_each over the chunk iterator
            pb = b
            if not any(strip_generics(callee_name(t)) == "encode::Encoder::encode" for _, t in b.calls()):
                cands = [c for c in F.closures_of(b) if any(strip_generics(callee_name(t)) == "encode::Encoder::encode" for _, t in c.calls())]
                if len(cands) == 1:
                    pb = cands[0]
            outer_b, b = b, pb

            encs = [(bb, i, t) for bb in [b] for i, t in bb.calls() if strip_generics(callee_name(t)) == "encode::Encoder::encode"]
            md5s = [(bb, i, t) for bb in [b] for i, t in bb.calls() if callee_name(t).endswith("md5::Context::consume") or strip_generics(callee_name(t)) == "encode::update_md5"]
            rep.check(P + ".sib", "%s %s: exactly one encode and one MD5 update per block" % (name, role), len(encs) == 1 and len(md5s) == 1, loc_of(b),
                      "%d encode, %d md5" % (len(encs), len(md5s)))
            if len(encs) != 1 or len(md5s) != 1:
                b = outer_b
                continue
            nenc += 1
            ei, et = encs[0][1], encs[0][2]
            mi, mt = md5s[0][1], md5s[0][2]
            rep.check(P + ".sib", "%s %s: MD5 update dominates Encoder::encode" % (name, role), b.dominates(mi, ei) and mi != ei, loc_of(b, et), "",
                      "a block can be encoded without (or before) being added to the running MD5")
            # the MD5 context is the encoder's
            sl = backward_slice(b, mt["a"][0])
            rep.check(P + ".sib", "%s %s: the context updated is encoder.md5" % (name, role), "md5" in sl["fields"] and "encoder" in sl["fields"], loc_of(b, mt))
            # same data: the buffer local feeding md5 also feeds fill_from_* -> encode
            se = backward_slice(b, et["a"][1])
            fills = [c for c in se["calls"] if re.search(r"audio::Frame::fill_from_(buf|samples|channels)$", callee_name(c))]
            rep.check(P + ".sib", "%s %s: encode is fed by Frame::fill_from_* of the buffered block" % (name, role), len(fills) == 1, loc_of(b, et))
            if fills:
                fsl = backward_slice(b, fills[0]["a"][1])
                msl = backward_slice(b, mt["a"][1])
                common = fr["buf"] in fsl["fields"] and fr["buf"] in msl["fields"]
                if not common:
                    # both are derived from the same loop variable (the block yielded by the chunk iterator)
                    nx = [c for c in fsl["calls"] if callee_name(c).endswith("Iterator>::next") or callee_name(c).endswith("Iterator::next")]
                    nm = [c for c in msl["calls"] if callee_name(c).endswith("Iterator>::next") or callee_name(c).endswith("Iterator::next")]
                    common = bool(nx) and bool(nm) and any(a is b_ for a in nx for b_ in nm)
                if not common and b.kind == "Closure":
                    # both are derived from the same closure argument: the chunk the iterator hands to the closure
                    shared = {a for a in (_core_backward_slice(b, fills[0]["a"][1])["args"] & _core_backward_slice(b, mt["a"][1])["args"]) if a >= 2}
                    host = [h for _, h in outer_b.calls() if b.path in [getattr(F.body(x), "path", None) for x in (h.get("cls") or ())]]
                    common = bool(shared) and len(host) == 1 and any(re.search(r"chunks_exact(_mut)?$", callee_name(c)) for c in _core_backward_slice(outer_b, host[0]["a"][0])["calls"])
                rep.check(P + ".sib", "%s %s: MD5 and encoder consume the same carry-over buffer (%s)" % (name, role, fr["buf"]), common, loc_of(b, mt),
                          "", "the MD5 update and the encoder are fed from different data")
            if name == "byte":
                le = [(i, t) for i, t in b.calls() if (t["f"].get("path") or "").endswith("Endianness::bytes_to_le")]
                rep.check(P + ".sib", "byte %s: bytes are converted to little-endian before the MD5 update and before encoding" % role,
                          len(le) == 1 and b.dominates(le[0][0], mi) and le[0][0] != mi, loc_of(b, mt), "",
                          "MD5 is fed before (or without) the conversion to little-endian: big-endian input hashes differently")
                if le:
                    w = backward_slice(b, le[0][1]["a"][1])
                    rep.check(P + ".sib", "byte %s: conversion uses self.bytes_per_sample" % role, "bytes_per_sample" in w["fields"], loc_of(b, le[0][1]))
                # fill_from_buf is instantiated with LittleEndian
                if fills:
                    rep.check(P + ".sib", "byte %s: samples are rebuilt from little-endian bytes" % role, fills[0]["f"]["args"][-1:] == ["byteorder::LittleEndian"], loc_of(b, fills[0]))
            else:
                w = backward_slice(b, mt["a"][2]) if len(mt["a"]) > 2 else {"fields": set()}
                rep.check(P + ".sib", "%s %s: update_md5 uses self.bytes_per_sample" % (name, role), "bytes_per_sample" in w["fields"], loc_of(b, mt))
            b = outer_b
            if role == "write":
                # chunking
                mk = [(bb, i, t) for bb in reg for i, t in bb.calls() if callee_name(t).endswith("VecDeque::<T, A>::make_contiguous")]
                ch = [(bb, i, t) for bb in reg for i, t in bb.calls() if re.search(r"<impl \[T\]>::chunks_exact(_mut)?$", callee_name(t))]
                good = len(mk) == 1 and len(ch) == 1
                if good:
                    src = slice_with_captures(F, ch[0][0], ch[0][2]["a"][0])
                    good = any(callee_name(c).endswith("make_contiguous") for c in src["calls"])
                    szf = slice_with_captures(F, ch[0][0], ch[0][2]["a"][1])["fields"]
                    good = good and fr["size"] in szf
                rep.check(P + ".sib", "%s write: whole carry-over buffer made contiguous, then chunks_exact_mut(self.%s)" % (name, fr["size"]), good, loc_of(b),
                          "", "blocks are not cut from the whole contiguous carry-over buffer with the block size field: frame boundaries would depend on how input was chunked")
                dr = [(bb, i, t) for bb in reg for i, t in bb.calls() if callee_name(t).endswith("VecDeque::<T, A>::drain")]
                good = len(dr) == 1
                if good:
                    dsl = backward_slice(dr[0][0], dr[0][2]["a"][1])
                    counted = [c for c in dsl["calls"] if not re.search(r"Iterator::try_fold$|Try>::branch$|Iterator::count$|chunks_exact(_mut)?$|make_contiguous$|ExactSizeIterator::len$", callee_name(c))]
                    good = fr["size"] in dsl["fields"] and any(op.startswith("Mul") for op in dsl["ops"]) and 0 in dsl["consts"] and not counted and \
                        not [op for op in dsl["ops"] if op.replace("WithOverflow", "") not in ("Mul", "Add", "Eq", "Ne")]
                rep.check(P + ".sib", "%s write: drains exactly block size x encoded blocks from the front" % name, good, loc_of(b))
                ex = [(bb, i, t) for bb in reg for i, t in bb.calls() if re.search(r"Extend<.*>>::extend$", callee_name(t))]
                rep.check(P + ".sib", "%s write: input is appended to the carry-over buffer first" % name,
                          len(ex) == 1 and (ex[0][0] is not b or (not mk or mk[0][0] is not b or b.dominates(ex[0][1], mk[0][1]))), loc_of(b))
    rep.floor(P + ".sib", "front-end functions with an encode call", nenc, 6)

    # ---- C08.create: overwriting an existing file starts from an empty file -----------------------------------------
    cb_ = anchor(F, rep, P + ".create", "encode::Options::create")
    if cb_ is not None:
        names = [callee_name(t) for c in [cb_] + F.closures_of(cb_) for _, t in c.calls()]
        trunc = any(re.search(r"std::fs::File::create$", n) for n in names) or \
            any(re.search(r"OpenOptions::truncate$", callee_name(t)) and op_int(t["a"][1]) == 1 for c in [cb_] + F.closures_of(cb_) for _, t in c.calls())
        rep.check(P + ".create", "Options::create truncates the file it is allowed to overwrite (File::create / truncate(true))", trunc, loc_of(cb_), "",
                  "the path front-ends open an existing file for overwriting without truncating it: the tail of a longer old file stays behind the new stream, so the finished file depends on what was at the path before")
    # ---- C08.trunc ------------------------------------------------------------------------------------------
    for name in ("byte", "sample"):
        fb = _get(F, rep, P + ".trunc", FRONTS[name]["fin"])
        if fb is None:
            continue
        rems = [s for bl in fb.blocks for s in bl["s"] if s["rv"]["r"] == "bin" and s["rv"]["op"] == "Rem"]
        good = len(rems) == 1
        if good:
            d = backward_slice(fb, rems[0]["rv"]["b"])
            good = "pcm_frame_size" in d["fields"]
            n = backward_slice(fb, rems[0]["rv"]["a"])
            good = good and any(callee_name(c).endswith("::len") for c in n["calls"])
        rep.check(P + ".trunc", "%s finalize: tail is cut to len - len %% self.pcm_frame_size" % name, good, loc_of(fb), "",
                  "the final partial frame is not cut at a whole PCM frame (wrong modulus): extra samples leak into the MD5 / last block")
        # guard
        guards = [s for bl in fb.blocks for s in bl["s"] if s["rv"]["r"] == "bin" and s["rv"]["op"] in ("Ge", "Le", "Lt", "Gt")]
        gg = False
        for g in guards:
            fa, fb_ = backward_slice(fb, g["rv"]["a"]), backward_slice(fb, g["rv"]["b"])
            if ("pcm_frame_size" in fa["fields"] | fb_["fields"]) and any(callee_name(c).endswith("::len") for c in fa["calls"] + fb_["calls"]):
                gg = True
        rep.check(P + ".trunc", "%s finalize: a final block is encoded only if a whole PCM frame is buffered" % name, gg, loc_of(fb), "",
                  "finalize can hand an empty block to the encoder (panic in chunks_exact(0))")
    for path, fld, mult in (("encode::FlacByteWriter::new", "frame_byte_size", "pcm_frame_size"), ("encode::FlacSampleWriter::new", "frame_sample_size", "pcm_frame_size")):
        nb = anchor(F, rep, P + ".trunc", path)
        if nb is None:
            continue
        adt = "encode::" + path.split("::")[1]
        fl = [f["name"] for f in F.adts[adt]["variants"][0]["fields"]]
        for bi, s in agg_sites(nb, adt):
            a = backward_slice(nb, s["rv"]["ops"][fl.index(fld)])
            p = backward_slice(nb, s["rv"]["ops"][fl.index("pcm_frame_size")])
            rep.check(P + ".trunc", "%s: %s = pcm_frame_size x options.block_size" % (path, fld), "block_size" in a["fields"] and any(o.startswith("Mul") for o in a["ops"]) and p["args"] <= a["args"], nb.loc(s["sp"]))
            if "Byte" in path:
                rep.check(P + ".trunc", "%s: pcm_frame_size = bytes_per_sample x channels" % path, any(o.startswith("Mul") for o in p["ops"]) and any(callee_name(c).endswith("div_ceil") for c in p["calls"]) and 8 in p["consts"], nb.loc(s["sp"]))
            else:
                rep.check(P + ".trunc", "%s: pcm_frame_size = channels" % path, not any(o.startswith("Mul") for o in p["ops"]), nb.loc(s["sp"]))

    # ---- C08.md5 -------------------------------------------------------------------------------------------------
    ub = anchor(F, rep, P + ".md5", "encode::update_md5")
    if ub is not None:
        # switch on bytes_per_sample: arm k reaches i{8k}_to_bytes of LittleEndian
        sw = [(i, bl["t"]) for i, bl in enumerate(ub.blocks) if bl["t"] and bl["t"]["t"] == "switch" and op_local(bl["t"]["o"]) == 3]
        if len(sw) != 1:
            rep.bad(P + ".md5", "anchor:update_md5 width switch", loc_of(ub), "no single switch on bytes_per_sample")
        else:
            si, st = sw[0]
            for val, tb in st["v"]:
                reg = blocks_only_via(ub, si, tb)
                conv = {callee_name(t) for i, t in ub.calls() if i in reg and re.search(r"i\d+_to_bytes$", callee_name(t))}
                want = "<byteorder::LittleEndian as byteorder::Endianness>::i%d_to_bytes" % (8 * val)
                rep.check(P + ".md5", "MD5 width %d bytes <-> little-endian i%d" % (val, 8 * val), conv == {want}, loc_of(ub), str(sorted(conv)),
                          "MD5 of %d-byte samples is fed with %s instead of %s" % (val, sorted(conv), want))
            rep.floor(P + ".md5", "byte widths handled", len(st["v"]), 4)
