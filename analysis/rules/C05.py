"""C05 Damaged or invalid streams are reported as errors, never decoded silently.

Decided (structural necessary conditions):
  C05.gate     Ok-implies: a header / frame is only returned after its checksum compared valid and the
               STREAMINFO consistency comparisons held
  C05.release  the sample counter update and the release of the frame buffer sit behind the CRC-16 gate
  C05.short    known-total arm: (block size == remaining) or (block size > 14)
  C05.total    end-of-stream accounting: a frame larger than the remaining declared samples is rejected
  C05.inv      every must-reject error class has a live construction site reachable from a decode entry point
  C05.md5      MD5Match only on the true edge of (stored digest == computed digest)
  C05.eof     (also) a header read error ends the stream cleanly only if it is an I/O error of kind UnexpectedEof
  C05.part    the residual partition layout guards of both decoders (shared with C17 / C03)
  C05.utf8    malformed continuation bytes of the coded frame number are rejected (shared with C03)
  (C05.inv floors are the counted numbers of live rejecting exits per error class: a removed exit is reported)
  C05.short    (also) ShortBlock is raised only where STREAMINFO's total_samples is known (is-Some fact at the site or where its closure is built)
Not decided: that a flipped bit is detected (CRC mathematics), that delivered samples are a prefix.
"""
from rules.common import *
from okimplies import OkImplies, fact_str, TOP

META = {
    "level": "other",
    "rule": "Ok-implies abstract interpretation over MIR (gates), path facts at release sites, error-exit inventory with reachability",
    "explanation": "Each rule instance is a function/construct of /repo's current MIR; the check computes the set of comparison/validity facts implied by a successful return (or holding at a statement) on every CFG path and requires the gate fact to be among them. Structural necessary conditions only; does not decide that corruption is detected, only that the detecting comparisons guard every success path.",
}

MUST_REJECT = {
    # variant: minimum number of construction sites confirmed by reading the source
    "InvalidSyncCode": 1, "InvalidBlockSize": 2, "BlockSizeMismatch": 1, "InvalidSampleRate": 1,
    "SampleRateMismatch": 1, "InvalidChannels": 1, "ChannelsMismatch": 1, "InvalidBitsPerSample": 1,
    "BitsPerSampleMismatch": 1, "InvalidFrameNumber": 3, "Crc8Mismatch": 2, "Crc16Mismatch": 3,
    "InvalidSubframeHeader": 1, "InvalidSubframeHeaderType": 1, "ExcessiveWastedBits": 2,
    "InvalidCodingMethod": 2, "InvalidPartitionOrder": 4, "InvalidFixedOrder": 1, "InvalidLpcOrder": 1,
    "InvalidQlpPrecision": 2, "NegativeLpcShift": 2, "ShortBlock": 1, "NonSubsetSampleRate": 1,
    "NonSubsetBitsPerSample": 1,
}


def dec_entries(F):
    pats = [r"decode::Flac(Byte|Sample|Channel|Stream)Reader::.*", r"<decode::Flac.*", r"decode::verify(_reader)?",
            r"stream::Frame(Header)?::read(_subset)?", r"stream::FrameIterator::.*", r"<stream::FrameIterator.*",
            r"encode::generate_seektable"]
    out = []
    for b in F.bodies:
        if b.promoted is None and b.kind != "Closure" and any(re.fullmatch(p, strip_generics(b.path)) or re.match(p, b.path) for p in pats):
            out.append(b.key)
    return out


def run(ctx, rep):
    F = ctx.facts()
    cg = ctx.cg()
    ok = OkImplies(F, cg)
    ok.some_only = True

    # ---- C05.gate: checksums ------------------------------------------------
    n = 0
    for path, crc in (("stream::FrameHeader::read", "crc::Crc8"), ("stream::FrameHeader::read_subset", "crc::Crc8"),
                      ("decode::Decoder::read_frame", "crc::Crc16"), ("decode::FlacStreamReader::read", "crc::Crc16"),
                      ("stream::Frame::read_inner", "crc::Crc16")):
        b = anchor(F, rep, "C05.gate", path)
        if b is None:
            continue
        s = ok.summary(b)
        n += 1
        rep.check("C05.gate", "%s=>valid(%s)" % (path, crc), fact_match(s, "valid", crc.replace("::", "::") + "$"), loc_of(b),
                  "success of %s implies Checksum::valid() on %s" % (path, crc),
                  "a success return of %s is reachable without the %s comparison; facts implied by Ok: %s" % (path, crc, fact_str(s)))
    # the frame readers must also inherit the header gate
    for path in ("decode::Decoder::read_frame", "decode::FlacStreamReader::read"):
        b = anchor(F, rep, "C05.gate", path)
        if b is None:
            continue
        s = ok.summary(b)
        n += 1
        rep.check("C05.gate", "%s=>valid(crc::Crc8)" % path, fact_match(s, "valid", "crc::Crc8$"), loc_of(b),
                  "frame success implies header CRC-8 valid", "frame returned without the header CRC-8 gate; facts: %s" % fact_str(s))
    rep.floor("C05.gate", "checksum gates", n, 4)

    # ---- C05.gate: STREAMINFO consistency -------------------------------------
    bs = impl_method(F, rep, "C05.gate", r"FromBitStreamWith", r"^stream::FrameHeader$", "from_reader")
    for b in bs:
        s = ok.summary(b)
        for key, kind, pats in (
            ("block_size<=maximum_block_size", "cmp", ("^Le$", r"block_size", r"maximum_block_size")),
            ("sample_rate==streaminfo.sample_rate", "cmp", ("^Eq$", r"sample_rate", r"sample_rate")),
            ("channels==streaminfo.channels", "cmp", ("^Eq$", r"channel_assignment|channels", r"channels|channel_assignment")),
            ("bits_per_sample==streaminfo.bits_per_sample", "cmp", ("^Eq$", r"bits_per_sample", r"bits_per_sample")),
        ):
            rep.check("C05.gate", "FrameHeader::from_reader(streaminfo)=>" + key, fact_match(s, kind, *pats), loc_of(b),
                      "header parse with STREAMINFO succeeds only if " + key,
                      "comparison %s no longer guards a successful header parse; facts: %s" % (key, fact_str(s)))
    # the streaming decoder must use the STREAMINFO-checking parse
    b = anchor(F, rep, "C05.gate", "decode::Decoder::read_frame")
    if b is not None:
        cs = call_blocks(b, r"stream::FrameHeader::read$")
        rep.check("C05.gate", "Decoder::read_frame uses FrameHeader::read(streaminfo)", len(cs) >= 1 and not call_blocks(b, r"FrameHeader::read_subset$"),
                  loc_of(b), "%d calls of FrameHeader::read, 0 of read_subset" % len(cs))
        s = ok.summary(b)
        rep.check("C05.gate", "Decoder::read_frame=>block_size<=maximum_block_size", fact_match(s, "cmp", "^Le$", "block_size", "maximum_block_size"),
                  loc_of(b), "frame success implies STREAMINFO block-size bound", "facts: %s" % fact_str(s))

    # ---- C05.short ---------------------------------------------------------------
    if b is not None:
        def short_guard(eb, bi_):
            """the ShortBlock exit is taken exactly when size != remaining && size <= 14 (either idiom)"""
            if eb.kind == "Closure":
                sm = ok.summary(eb)
                if sm is not TOP and or_fact_match(sm, [("cmp", "^Eq$", None, None), ("cmp", "^Lt$", "const:14$", "block_size")]):
                    return True
            f = ok.path_facts(eb).get(bi_) or frozenset()
            if f is TOP:
                return False
            ne = any(x[0] == "cmp" and x[1] == "Ne" for x in f)
            le = any(x[0] == "cmp" and ((x[1] == "Le" and str(x[3]) == "const:14") or (x[1] == "Lt" and str(x[3]) == "const:15") or (x[1] == "Ge" and str(x[2]) == "const:14") or (x[1] == "Gt" and str(x[2]) == "const:15")) for x in f)
            return ne and le
        def total_known(eb, bi_):
            """the ShortBlock exit lies where STREAMINFO's total_samples is Some: without a total nobody can tell the last block"""
            def some_total(f):
                return f is not TOP and any(x[0] == "is" and x[1] == "Some" and "total_samples" in str(x[2]) for x in (f or ()))
            if some_total(ok.path_facts(eb).get(bi_)):
                return True
            hops = 0
            while eb.kind == "Closure" and hops < 3:
                pb = F.body(eb.parent)
                if pb is None:
                    return False
                ppf = ok.path_facts(pb)
                built = [bj for bj, bl in enumerate(pb.blocks) for s_ in bl["s"] if s_["rv"]["r"] == "agg" and s_["rv"].get("ak") == "closure" and s_["rv"].get("adt") == eb.path]
                if built and all(some_total(ppf.get(bj)) for bj in built):
                    return True
                eb, hops = pb, hops + 1
            return False
        sb_sites = [x for x in error_sites(F, "ShortBlock") if x[0].path.startswith(b.path)]
        found = False
        for eb, bi_, st_ in sb_sites:
            good_ = short_guard(eb, bi_)
            rep.check("C05.short", "ShortBlock is raised only where the stream's total length is known", total_known(eb, bi_), eb.loc(st_["sp"]), "",
                      "Error::ShortBlock can be raised for a stream whose STREAMINFO has no total_samples: there the last block cannot be told from the others, so a valid stream ending in a block of 14 samples or fewer is refused")
            found = found or good_
            rep.check("C05.short", "ShortBlock is raised only by the rule `size == remaining || size > 14` (a short last block is legal)", good_, eb.loc(st_["sp"]), "",
                      "Error::ShortBlock is raised by a test that lacks the last-block exemption: a valid stream whose final block has 14 samples or fewer is refused")
        rep.check("C05.short", "read_frame known-total arm: size==remaining || size>14", found, loc_of(b), "",
                  "nothing in read_frame guards the header with (block_size == remaining) || (14 < block_size)")
        rep.check("C05.short", "ShortBlock raised in read_frame", bool(sb_sites), loc_of(b))

    # ---- C05.release ----------------------------------------------------------------
    if b is not None:
        pf = ok.path_facts(b)
        writes = 0
        for bi, bl in enumerate(b.blocks):
            if bl["cleanup"]:
                continue
            for st in bl["s"]:
                if any(e.endswith(":current_sample") for e in st["d"]["p"]):
                    writes += 1
                    f = pf.get(bi, TOP)
                    rep.check("C05.release", "current_sample update behind CRC-16 gate", fact_match(f, "valid", "crc::Crc16$"),
                              "%s:%d" % (st["sp"]["file"], st["sp"]["line"]), "write of Decoder.current_sample is dominated by the CRC-16 true edge",
                              "Decoder.current_sample is advanced on a path that has not passed the CRC-16 comparison")
        rep.floor("C05.release", "current_sample writes in read_frame", writes, 1)

    # ---- C05.eof: end of stream is only signalled when nothing is owed ----------------------------------
    if b is not None:
        pf = ok.path_facts(b)
        nn = 0
        for bi, bl in enumerate(b.blocks):
            if bl["cleanup"]:
                continue
            for st in bl["s"]:
                rv = st["rv"]
                if rv["r"] == "agg" and rv["adt"] == "std::option::Option" and rv["var"] == "None" and "Frame" in b.local_ty(st["d"]["l"]):
                    nn += 1
                    f = pf.get(bi, TOP)
                    good = fact_match(f, "cmp", "^Eq$", "^const:0$", "total_samples") or fact_match(f, "is", "^None$", "total_samples")
                    if not good and f is not TOP:
                        # remaining == Some(0): the constant is a promoted `Some(0)`
                        for x in f or ():
                            if x[0] == "cmp" and x[1] == "Eq":
                                for cst, other in ((str(x[2]), str(x[3])), (str(x[3]), str(x[2]))):
                                    m = re.match(r"^const:(.*)::promoted\[(\d+)\]$", cst)
                                    if m and "total_samples" in other:
                                        pb = [y for y in F.bodies if y.path == m.group(1) and y.promoted == int(m.group(2))]
                                        if pb and any(st2["rv"]["r"] == "agg" and st2["rv"].get("var") == "Some" and st2["rv"]["ops"] and op_int(st2["rv"]["ops"][0]) == 0 for bl2 in pb[0].blocks for st2 in bl2["s"]):
                                            good = True
                    rep.check("C05.eof", "end of stream (Ok(None)) only when no samples are owed or the total is unknown", good, b.loc(st["sp"]),
                              "remaining == 0, or STREAMINFO declares no total",
                              "Decoder::read_frame can signal a clean end of stream while STREAMINFO still owes samples (truncation decoded silently); facts: %s" % fact_str(f))
                    if f is not TOP and any(x[0] == "is" and x[1] == "Err" and "FrameHeader::read" in str(x[2]) for x in f):
                        kindcmp = any(x[0] == "cmp" and x[1] == "Eq" and "Error::kind" in str(x[2]) + str(x[3]) for x in f)
                        eofk = any(s2["rv"]["r"] == "agg" and s2["rv"].get("adt") == "std::io::ErrorKind" and s2["rv"].get("var") == "UnexpectedEof"
                                   for pb in F.by_path.get(b.path, []) if pb.promoted is not None for bl2 in pb.blocks for s2 in bl2["s"])
                        rep.check("C05.eof", "a header read error ends the stream cleanly only if it is an I/O error of kind UnexpectedEof", kindcmp and eofk, b.loc(st["sp"]), "",
                                  "Decoder::read_frame turns a frame-header read error other than UnexpectedEof into a clean end of stream: a failing or damaged source is decoded as a shorter stream; facts: %s" % fact_str(f))
        rep.floor("C05.eof", "Ok(None) returns of read_frame", nn, 2)

    # ---- C05.total (KF04) --------------------------------------------------------------
    sites = error_sites(F, "TooManySamples")
    reach = cg.reach(dec_entries(F))
    live = [x for x in sites if x[0].key in reach or (x[0].parent and x[0].parent in reach)]
    rep.check("C05.total", "Error::TooManySamples raised on a decode path", len(live) >= 1, "src/decode.rs",
              "frame exceeding the declared remaining samples is rejected (%d site(s))" % len(live),
              "Error::TooManySamples is declared but never constructed on any path reachable from a decoding entry point: a stream holding more samples than STREAMINFO declares is not reported")
    if b is not None:
        # the remaining-samples computation must not be an unchecked subtraction feeding the header check
        s = ok.summary(b)

    # ---- C05.inv ---------------------------------------------------------------------------
    for var, fl in sorted(MUST_REJECT.items()):
        sites = error_sites(F, var)
        live = [x for x in sites if x[0].key in reach or (x[0].parent and x[0].parent in reach) or _closure_root(F, x[0]) in reach]
        rep.check("C05.inv", "Error::%s live sites>=%d" % (var, fl), len(live) >= fl,
                  live[0][0].loc(live[0][2]["sp"]) if live else "",
                  "%d construction sites reachable from decode entry points" % len(live),
                  "must-reject class Error::%s has %d live construction sites (confirmed floor %d): a rejecting exit was removed" % (var, len(live), fl))

    from rules import C03, C17
    C03.frame_number_reader_rules(F, rep, "C05")
    C17.partition_guard_rules(F, ok, rep, "C05")

    # ---- C05.md5 ---------------------------------------------------------------------------
    vb = anchor(F, rep, "C05.md5", "decode::verify_reader")
    if vb is not None:
        pf = ok.path_facts(vb)
        sites = agg_sites(vb, "decode::Verified", "MD5Match")
        for bi, st in sites:
            f = pf.get(bi, TOP)
            rep.check("C05.md5", "MD5Match only when stored==computed", fact_match(f, "cmp", "^Eq$", "finalize|md5", "md5|finalize"),
                      vb.loc(st["sp"]), "Verified::MD5Match constructed on the true edge of the digest comparison",
                      "Verified::MD5Match is constructed on a path where the digest equality does not hold; facts: %s" % fact_str(f))
        for bi, st in agg_sites(vb, "decode::Verified", "MD5Mismatch"):
            f = pf.get(bi, TOP)
            rep.check("C05.md5", "MD5Mismatch only when stored!=computed", fact_match(f, "cmp", "^Ne$", "finalize|md5", "md5|finalize"), vb.loc(st["sp"]))
        rep.floor("C05.md5", "MD5Match sites", len(sites), 1)
        # the computed digest must come from the decoded stream: io::copy from the reader into the md5 context
        rep.check("C05.md5", "digest computed over the decoded bytes (io::copy reader->md5)", len(call_blocks(vb, r"std::io::copy$")) >= 2, loc_of(vb))
    from rules import C03 as _C03
    compose(ctx, rep, "C03", "C05.codes", r"^C03\.rfc$")
    from rules import C16 as _C16
    compose(ctx, rep, "C16", "C05.stream", r"^C16\.(gate|sync)$")
    compose(ctx, rep, "C11", "C05.md5", r"^C11\.sentinel$", key_only=r"from_reader reports md5")


def _closure_root(F, b):
    p = b.path
    i = p.find("::{closure#")
    return p[:i] if i >= 0 else p
