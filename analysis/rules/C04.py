"""C04 Decoding arbitrary bytes never panics, hangs or allocates without bound.

Decided (sound for the enumerated failure kinds, modulo the trusted dependency summaries and the reviewed reasons of
the audit tables):
  C04.panic   every panic-capable site (overflow / division / bounds / shift asserts of the checked profile, unwrap,
              expect, explicit panics and assertions, zero- length- and capacity-intolerant std / arrayvec calls,
              arithmetic on generic integers) in every body reachable from a decoding or frame-parsing entry point is
              discharged by a forward interval analysis or listed in spec/audit_panics.json with a reviewed reason
              (keyed by function / kind / operand type with a multiplicity: a new site of an audited key is reported)
  C04.guard   machine-checked guards behind audited sites that a dropped check would silently invalidate
  C04.seek    the decoder's position is updated only after the underlying seek succeeded and the front-ends drop their
              buffers on a seek (C06.state, C06.inval): the invariant behind the audited seek arithmetic
  C04.loop    every CFG cycle is driven by a finite iterator or passes a listed progress call on every trip
  C04.rec     call-graph recursion is limited to the listed, bounded cycles
  C04.alloc   every allocation size is bounded by the interval analysis or audited as growing with consumed input
  C04.unsafe  #![forbid(unsafe_code)]
Both profiles: the checked profile's MIR is analysed; the optimised profile's sites are a subset.
Not decided: stack depth; running time beyond termination structure.
"""
from rules.common import *
from rules import auditlib
from okimplies import OkImplies, fact_str, TOP

META = {"level": "other", "rule": "enumeration of panic-capable MIR sites over the call graph from the decode entry points, interval abstract interpretation, reviewed audit table with multiplicities; CFG/call-graph cycle classification; allocation size intervals",
        "explanation": "Sound-by-construction for the enumerated panic kinds: a site is accepted only if the interval analysis proves its condition or a human-reviewed table entry covers it; anything else, including a new site of an already audited kind in the same function, is a violation."}


def guards(ctx, rep, P):
    F = ctx.facts()
    ok = OkImplies(F, ctx.cg())
    # rchunks_mut(block_size / partition_count): chunk size >= 1 and exact division
    rb = F.one("decode::read_residuals::read_block")
    if not rb:
        rep.bad(P + ".guard", "anchor:read_block", "", "function not found")
    else:
        b = rb[0]
        pf = ok.path_facts(b)
        for bi, t in b.calls():
            if re.search(r"<impl \[T\]>::rchunks_mut$", callee_name(t)):
                f = pf.get(bi, TOP)
                g1 = fact_match(f, "cmp", "^Le$", "partition_count|Shl", "block_size|Add") or fact_match(f, "cmp", "^Le$", None, None)
                g2 = fact_match(f, "call-false", "is_multiple_of") or any(x[0] == "call-true" and "is_multiple_of" in str(x) for x in (f or []))
                rep.check(P + ".guard", "rchunks: partition split guarded by block_size >= partition_count and exact division", g1 and g2, loc_of(b, t),
                          "chunk size is at least 1 and divides the block", "the guard before rchunks_mut(block_size / partition_count) is gone or weakened: chunk size 0 panics; facts: %s" % fact_str(f))
        cnt = [s for bl in b.blocks for s in bl["s"] if s["rv"]["r"] == "bin" and s["rv"]["op"] == "Ne"]
        rep.check(P + ".guard", "rchunks: number of chunks compared with the partition count", len(cnt) >= 1, loc_of(b))
    # split_at_mut_checked in the fixed / lpc readers
    for path, err in (("decode::read_fixed_subframe", "InvalidFixedOrder"), ("decode::read_lpc_subframe", "InvalidLpcOrder")):
        for b in anchor(F, rep, P + ".guard", path, multi=True):
            chk = [t for _, t in b.calls() if re.search(r"split_at_mut_checked$", callee_name(t))]
            unchk = [t for _, t in b.calls() if re.search(r"<impl \[T\]>::split_at(_mut)?$", callee_name(t))]
            rep.check(P + ".guard", "%s: warm-up split is the checked form" % path, len(chk) == 1 and not unchk and any(eb.path.startswith(b.path) for eb, _, _ in error_sites(F, err)), loc_of(b))
    # checked_add in the 16-bit block size escape
    bs = [b for b in F.bodies if b.promoted is None and b.path.startswith("<stream::BlockSize<u16> as bitstream_io::FromBitStreamUsing>::from_reader")]
    for b in bs[:1]:
        adds = [t for _, t in b.calls() if re.search(r"<impl u16>::checked_add$", callee_name(t))]
        rep.check(P + ".guard", "16-bit block size escape uses checked_add(1)", len(adds) == 1, loc_of(b), "", "65535 + 1 must be rejected, not wrapped to a zero block size")
    # negation of an unfolded residual: the negated value is from_u32(x >> 1), i.e. at most 2^31 - 1
    nn = 0
    for b in F.bodies:
        if b.promoted is not None:
            continue
        for bi, t in b.calls():
            if (t["f"].get("path") or "") != "std::ops::Neg::neg" or not (b.file.endswith("decode.rs") or b.file.endswith("stream.rs")):
                continue
            nn += 1
            good = False
            for k, x in origins(b, t["a"][0]):
                if k == "call" and re.search(r"SignedInteger::from_u32$", callee_name(x)):
                    for kk, y in origins(b, x["a"][0]):
                        if kk == "bin" and y["op"] == "Shr" and (op_int(y["b"]) or 0) >= 1:
                            good = True
            rep.check(P + ".guard", "%s: the residual magnitude that is negated is (folded >> 1), below 2^31" % (b.path if b.path.startswith("<") else strip_generics(b.path)), good, loc_of(b, t), "",
                      "the value negated while unfolding a residual is no longer `folded >> 1`: 2^31 becomes i32::MIN and its negation panics with overflow checks")
    rep.floor(P + ".guard", "residual negations", nn, 2)


def run(ctx, rep):
    reach, prog = auditlib.panic_audit(ctx, rep, "C04", ["G_dec"], floor_sites=180)
    guards(ctx, rep, "C04")
    auditlib.structure_audit(ctx, rep, "C04", reach, prog)
    # the seek arithmetic of the readers (position x unit - buffered amount) is audited as non-panicking because the
    # decoder's position and the front-end buffers are kept in step: that invariant is C06.state / C06.inval
    compose(ctx, rep, "C06", "C04.seek", r"^C06\.(state|inval)$")
