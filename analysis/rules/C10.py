"""C10 Metadata updates never disturb the audio and are size-neutral when in place.

Decided (engine E/D2 on metadata::update_file and its helpers):
  C10.validate  every write to the original file (in-place writes, the rewind before them, the rebuild) is reached
                only through the success edges of BlockList::read, of the user callback, and of the dry-run
                serialisation into the counting sink
  C10.rewind    each in-place write is preceded on its path by a successful seek back to the remembered start
  C10.copy      in rebuild_file the destination is created (possibly truncating the original) only after the new
                blocks and the remaining stream were assembled successfully in memory
  C10.dir       new < old  => padding grown by (old - new); new > old => padding shrunk by (new - old); equal => untouched
  C10.flag      false is attached only to in-place writes, true only to the rebuild
  C10.size      sizes compared are byte counts of the same serialisation: old measured while reading, new from write_blocks
  C10.inv       every construction of BlockSize / BlockBits is bounded by the 24-bit limit (checked_add refuses larger sums:
                grow_padding then falls back to a rebuild instead of writing an unrepresentable size)
  C10.open      the path front-end opens the original read+write without truncation and the rebuilt file truncated
  (C10.size also requires BlockList::blocks() and into_iter() to yield every block: the measured and the written sequence agree)
  C10.size      (also) the size read is a byte count (a Counter), not an absolute stream position without the start subtracted
Not decided: byte-for-byte equality of the audio region after the update.
"""
from rules.common import *
from okimplies import OkImplies, fact_str, TOP

META = {
    "level": "other",
    "rule": "path facts (Ok-implies) at every write site of update_file; branch-to-callee table for the size comparison",
    "explanation": "For each statement that can modify the file the check computes the facts that hold on every CFG path reaching it and requires the three validation successes among them; the direction table is read off the switch on the Ordering discriminant. Structural necessary conditions for 'a failing edit leaves the file untouched' and 'in-place updates are size-neutral'.",
}


def _root_place(body, o, depth=8):
    """follow copies/refs of an operand to the originating place (local, projections)"""
    p = op_place(o)
    while p is not None and depth > 0:
        if p["p"] and p["p"] != ["*"]:
            return p
        ds = [d for d in body.defs().get(p["l"], []) if not d[2]["d"]["p"]]
        if len(ds) != 1 or ds[0][1] == "T":
            return p
        rv = ds[0][2]["rv"]
        if rv["r"] == "use":
            q = op_place(rv["o"])
        elif rv["r"] == "ref":
            q = rv["p"]
        else:
            return p
        if q is None:
            return p
        p = q
        depth -= 1
    return p


def _explicit_comparison_form(F, b, rep):
    """C10.dir / C10.size when the two sizes are compared with `<` / `==` instead of Ord::cmp (after a helper such as
    `fit_padding(blocks, old, new) -> bool` was inlined): the branch where the new blocks are smaller grows the padding by
    old - new, the other one shrinks it by new - old.  Returns False when this form is not present."""
    def kind(o):
        if op_place(o) is None:
            return "?"
        sl = backward_slice(b, o)
        tys = " ".join(a for c in sl["calls"] for a in c["aty"]) + " ".join(callee_name(c) for c in sl["calls"]) + " " + " ".join(b.local_ty(l_) for l_ in [(_root_place(b, o) or {"l": 0})["l"]])
        new, old = ("Sink" in tys or "io::sink" in tys), "BufReader" in tys
        return "new" if new and not old else ("old" if old and not new else "?")
    cmps = []
    for bi, bl in enumerate(b.blocks):
        for st_ in bl["s"]:
            rv = st_["rv"]
            if rv["r"] == "bin" and rv["op"] in ("Lt", "Gt") and {kind(rv["a"]), kind(rv["b"])} == {"new", "old"}:
                cmps.append((bi, st_))
    if len(cmps) != 1:
        return False
    bi, st_ = cmps[0]
    rv = st_["rv"]
    t = b.blocks[bi]["t"]
    if not (t and t["t"] == "switch" and op_local(t["o"]) == st_["d"]["l"]):
        return False
    rep.check("C10.size", "comparison is between the re-serialised size and the size read", True, b.loc(st_["sp"]), "%s(%s, %s)" % (rv["op"], kind(rv["a"]), kind(rv["b"])))
    true_is_new_smaller = (rv["op"] == "Lt") == (kind(rv["a"]) == "new")
    false_t = [tb for v, tb in t["v"] if v == 0]
    true_t = [tb for v, tb in t["v"] if v == 1] or ([t["else"]] if t.get("else") is not None else [])
    if not false_t:
        false_t = [t["else"]] if t.get("else") is not None else []
    if not true_t or not false_t:
        return False

    def dirs_in(region):
        out = []
        for i, t2 in b.calls():
            if i not in region:
                continue
            bodies_ = [F.body(c) for c in (t2.get("cls") or ())]
            for nm in [strip_generics(callee_name(t2))] + [strip_generics(callee_name(t3)) for cb in bodies_ if cb is not None for _, t3 in cb.calls()]:
                if nm == "metadata::BlockSize::checked_add":
                    out.append("grow")
                elif nm == "metadata::BlockSize::checked_sub":
                    out.append("shrink")
        return out

    def diff_in(region):
        out = []
        for bj in sorted(region):
            for s2 in b.blocks[bj]["s"]:
                r2 = s2["rv"]
                if r2["r"] == "bin" and r2["op"].startswith("Sub") and {kind(r2["a"]), kind(r2["b"])} == {"new", "old"}:
                    out.append("%s-%s" % (kind(r2["a"]), kind(r2["b"])))
        return out
    for edge, new_smaller in ((true_t[0], true_is_new_smaller), (false_t[0], not true_is_new_smaller)):
        region = blocks_only_via(b, bi, edge)
        want = "grow" if new_smaller else "shrink"
        got, dif = dirs_in(region), diff_in(region)
        rep.check("C10.dir", "%s new size: padding %s by the difference" % ("smaller" if new_smaller else "larger", "grown" if new_smaller else "shrunk"),
                  got == [want] and dif == (["old-new"] if new_smaller else ["new-old"]), b.loc(st_["sp"]), "%s / %s" % (got, dif),
                  "when the new blocks are %s the padding must be %s by |old-new|; found %s with difference %s" % ("smaller" if new_smaller else "larger", "grown" if new_smaller else "shrunk", got, dif))
    eqs = [1 for bl in b.blocks for s2 in bl["s"] if s2["rv"]["r"] == "bin" and s2["rv"]["op"] in ("Eq", "Ne") and {kind(s2["rv"]["a"]), kind(s2["rv"]["b"])} == {"new", "old"}]
    rep.check("C10.dir", "equal sizes: padding untouched", len(eqs) == 1, loc_of(b), "", "no equality test of the two sizes in front of the padding adjustment")
    return True


def run(ctx, rep):
    from rules import invlib
    invlib.newtype_invariant(ctx, rep, "C10")
    F = ctx.facts()
    cg = ctx.cg()
    ok = OkImplies(F, cg)
    # ---- C10.open: the path-based front end --------------------------------------------------------------------
    ub = anchor(F, rep, "C10.open", "metadata::update")
    if ub is not None:
        uf = [(i, t) for i, t in ub.calls() if strip_generics(callee_name(t)) == "metadata::update_file"]
        rep.check("C10.open", "update hands the file to update_file", len(uf) == 1, loc_of(ub))
        tr = [(i, t) for i, t in ub.calls() if re.search(r"OpenOptions::truncate$", callee_name(t))]
        for i, t in uf[:1]:
            # the original: opened without truncation and without creating it
            oc = [c for k, c in origins(ub, t["a"][0]) if k == "call"]
            sl = backward_slice(ub, t["a"][0])
            names = [strip_generics(callee_name(c)).rsplit("::", 1)[-1] for c in sl["calls"]]
            t_false = [c for c in sl["calls"] if re.search(r"OpenOptions::truncate$", callee_name(c)) and op_int(c["a"][1]) == 0]
            t_true = [c for c in sl["calls"] if re.search(r"OpenOptions::truncate$", callee_name(c)) and op_int(c["a"][1]) != 0]
            rep.check("C10.open", "the original is opened for reading and writing, never truncated", "open" in names and not t_true and
                      not any(re.search(r"fs::File::create$", callee_name(c)) for c in sl["calls"]), loc_of(ub, t), str(sorted(set(names))),
                      "update opens the original with truncation: the file is emptied before its blocks are read")
            # the rebuilt file: created / truncated
            cl = [F.body(c) for c in t["cls"]]
            cl = [c for c in cl if c is not None and c.j["argc"] == 1]
            good = False
            detail = ""
            for cb in cl:
                for _, ct in cb.calls():
                    cn = callee_name(ct)
                    if re.search(r"std::fs::File::create$", cn):
                        good, detail = True, "File::create"
                    elif re.search(r"OpenOptions::open$", cn):
                        ss = slice_with_captures(F, cb, ct["a"][0])
                        tt = [c for c in ss["calls"] if re.search(r"OpenOptions::truncate$", callee_name(c))]
                        if tt and all(op_int(c["a"][1]) == 1 for c in tt) and any(re.search(r"OpenOptions::write$", callee_name(c)) for c in ss["calls"]):
                            good, detail = True, "OpenOptions with truncate(true)"
            rep.check("C10.open", "the rebuilt file is opened truncated (File::create or truncate(true))", good, loc_of(ub, t), detail,
                      "the closure that opens the destination of a rebuild does not truncate it: when the metadata shrinks, stale bytes of the old file remain after the last frame")
    b = anchor(F, rep, "C10.validate", "metadata::update_file")
    if b is None:
        return
    pf = ok.path_facts(b)

    def has_ok(f, pat):
        return fact_match(f, "call-ok", pat)

    writers = call_blocks(b, r"update_file::write_in_place$")
    rebuilds = call_blocks(b, r"update_file::rebuild_file$")
    seeks = call_blocks(b, r"std::io::Seek::seek$")
    direct = [(i, t) for i, t in b.calls() if re.search(r"std::io::Write::(write|write_all|flush)$|metadata::write_blocks$", callee_name(t)) and "Sink" not in " ".join(t["aty"])]
    sites = [("in-place write", x) for x in writers] + [("rebuild", x) for x in rebuilds] + [("rewind", x) for x in seeks] + [("direct write", x) for x in direct]
    for what, (bi, t) in sites:
        f = pf.get(bi, TOP)
        for need, pat in (("BlockList::read succeeded", r"metadata::BlockList::read$"), ("edit callback succeeded", r"FnOnce::call_once$"),
                          ("dry-run write_blocks succeeded", r"metadata::write_blocks$")):
            rep.check("C10.validate", "%s only after %s" % (what, need), has_ok(f, pat), loc_of(b, t),
                      "every path to this %s passes the success edge" % what,
                      "%s at %s is reachable without '%s': a failing edit/validation could leave the file modified; facts: %s" % (what, loc_of(b, t), need, fact_str(f)))
    rep.floor("C10.validate", "in-place writes", len(writers), 1)
    rep.floor("C10.validate", "rebuild calls", len(rebuilds), 1)
    # the dry run must serialise the edited list (same BlockList local as the one written later)
    dry = [(i, t) for i, t in call_blocks(b, r"metadata::write_blocks$")]
    rep.check("C10.validate", "exactly one dry-run write_blocks into Counter<Sink>", len(dry) == 1 and "Sink" in dry[0][1]["aty"][0], loc_of(b), str([t["aty"][0] for _, t in dry]))

    # ---- C10.size: the size is measured on BlockList::blocks(), the write consumes the list by value: both iterate every block
    DROPPING = {"filter", "filter_map", "skip", "skip_while", "take", "take_while", "step_by", "rev", "flat_map", "map_while", "scan", "peekable", "retain", "dedup", "drain", "truncate", "sort", "sort_by", "sort_by_key"}
    its = [x for x in F.bodies if x.promoted is None and x.kind != "Closure" and (strip_generics(x.path) == "metadata::BlockList::blocks" or re.match(r"^<(&'?\w* ?(mut )?)?metadata::BlockList as std::iter::IntoIterator>::into_iter$", x.path))]
    for x in its:
        names = [strip_generics(callee_name(t)).rsplit("::", 1)[-1] for _, t in x.calls()]
        extra = sorted(set(n for n in names if n in DROPPING))
        rep.check("C10.size", "%s yields STREAMINFO followed by every stored block (no filtering)" % (x.path if x.path.startswith("<") else strip_generics(x.path)), not extra and "chain" in names and "once" in names, loc_of(x), str(names),
                  "the block sequence that is measured (blocks()) and the one that is written (into_iter()) can differ: adaptors %s drop or reorder blocks, so an 'in-place' update writes a different number of bytes than it reserved" % extra)
    rep.floor("C10.size", "BlockList iteration entry points", len(its), 2)

    # ---- C10.rewind -------------------------------------------------------------------------------
    start_def = call_blocks(b, r"std::io::Seek::stream_position$")
    reads = call_blocks(b, r"metadata::BlockList::read$")
    def target_ok(o):
        """the operand is SeekFrom::Start(position remembered before the blocks were read)"""
        good = False
        for k, x in origins(b, o):
            if k == "agg" and x["adt"] == "std::io::SeekFrom" and x["var"] == "Start":
                sl = backward_slice(b, x["ops"][0])
                good = any(re.search(r"std::io::Seek::stream_position$", callee_name(c)) for c in sl["calls"]) and not (sl["ops"] - {"Eq", "Ne"})
        return bool(good and start_def and reads and b.dominates(start_def[0][0], reads[0][0]))
    for bi, t in writers:
        f = pf.get(bi, TOP)
        good = has_ok(f, r"std::io::Seek::seek$")
        if not good:
            # the rewind may be the first thing the in-place writer itself does: seek(start)?; then write
            wb = [x for x in F.bodies if x.promoted is None and re.search(r"update_file::write_in_place$", strip_generics(x.path))]
            if len(wb) == 1:
                wb = wb[0]
                pfw = ok.path_facts(wb)
                sk = call_blocks(wb, r"std::io::Seek::seek$")
                wr = call_blocks(wb, r"metadata::write_blocks$")
                if len(sk) == 1 and wr and all(fact_match(pfw.get(wi, TOP), "call-ok", r"std::io::Seek::seek$") for wi, _ in wr):
                    params = [a for a in backward_slice(wb, sk[0][1]["a"][1])["args"] if 1 <= a <= len(t["a"])]
                    good = len(params) == 1 and target_ok(t["a"][params[0] - 1])
                    if good:
                        rep.check("C10.rewind", "rewind target is the position remembered before the blocks were read", True, loc_of(b, t), "seek inside write_in_place, target passed as argument %d" % params[0])
        # the seek target is SeekFrom::Start(position before reading)
        rep.check("C10.rewind", "in-place write after a successful rewind", good, loc_of(b, t), "", "in-place write without a successful seek back to the start of the metadata")
    for bi, t in seeks:
        rep.check("C10.rewind", "rewind target is the position remembered before the blocks were read", target_ok(t["a"][1]), loc_of(b, t))

    # ---- C10.dir -----------------------------------------------------------------------------------------
    cmpc = [(i, t) for i, t in b.calls() if re.search(r"Ord(>| for u64>)?::cmp$|cmp::Ord::cmp$", callee_name(t))]
    if len(cmpc) == 0 and _explicit_comparison_form(F, b, rep):
        pass
    elif len(cmpc) != 1:
        rep.bad("C10.dir", "anchor:size comparison", loc_of(b), "expected exactly one Ord::cmp in update_file, found %d" % len(cmpc))
    else:
        ci, ct = cmpc[0]
        A = _root_place(b, ct["a"][0])
        B = _root_place(b, ct["a"][1])

        def kind(p, o=None):
            ty = b.local_ty(p["l"]) if p else ""
            # count field of a Counter: which stream it counts
            if "Sink" in ty:
                return "new"
            if "BufReader" in ty:
                return "old"
            # a plain number handed back by a measuring helper (Ok(counter.count) through `?`): the counter it was read from
            def value_root_ty(o_, depth=6):
                if depth <= 0 or op_place(o_) is None:
                    return ""
                rp_ = _root_place(b, o_)
                if rp_ is None:
                    return ""
                tyr = b.local_ty(rp_["l"])
                if "Sink" in tyr or "BufReader" in tyr:
                    return tyr
                outs = []
                for d_ in [d for d in b.defs().get(rp_["l"], []) if not d[2]["d"]["p"]]:
                    if d_[1] == "T":
                        if re.search(r"Try>::branch$|::Try::branch$", callee_name(d_[2])) and d_[2]["a"]:
                            outs.append(value_root_ty(d_[2]["a"][0], depth - 1))
                    else:
                        rv_ = d_[2]["rv"]
                        if rv_["r"] == "agg" and rv_.get("var") in ("Ok", "Some") and rv_["ops"]:
                            outs.append(value_root_ty(rv_["ops"][0], depth - 1))
                        elif rv_["r"] in ("use", "cast") and isinstance(rv_.get("o"), dict):
                            outs.append(value_root_ty(rv_["o"], depth - 1))
                outs = [x for x in outs if x]
                return outs[0] if len(set(outs)) == 1 else ""
            if o is not None and op_place(o) is not None:
                tyv = value_root_ty(o)
                if "Sink" in tyv:
                    return "new"
                if "BufReader" in tyv:
                    return "old"
            if o is not None and op_place(o) is not None:
                sl = backward_slice(b, o)
                tys = " ".join(a for c in sl["calls"] for a in c["aty"]) + " ".join(callee_name(c) for c in sl["calls"])
                new_, old_ = ("Sink" in tys or "io::sink" in tys), "BufReader" in tys
                if new_ != old_:
                    return "new" if new_ else "old"
            return "?"
        ka, kb = kind(A, ct["a"][0]), kind(B, ct["a"][1])
        rep.check("C10.size", "comparison is between the re-serialised size and the size read", {ka, kb} == {"new", "old"}, loc_of(b, ct), "cmp(%s, %s)" % (ka, kb))
        # the size read is a number of bytes, not a place in the file: an absolute stream position equals it only for a stream
        # that starts at offset 0 of the file (update() may be handed a file positioned anywhere)
        for k_, o_ in ((ka, ct["a"][0]), (kb, ct["a"][1])):
            if k_ == "old" and op_place(o_) is not None:
                sl_ = backward_slice(b, o_)
                pos = [c for c in sl_["calls"] if re.search(r"Seek::(stream_position|seek)$|::stream_position$", callee_name(c))]
                rep.check("C10.size", "the size read is a byte count, not an absolute position", not pos or any(x.startswith("Sub") for x in sl_["ops"]), loc_of(b, ct), "",
                          "the old size of the metadata is taken from %s without subtracting where the stream started: for a stream that does not begin at offset 0 the padding is resized by the wrong amount and the audio moves" % sorted({strip_generics(callee_name(c)) for c in pos}))
        # switch on the Ordering
        sw = None
        for bi2, bl in enumerate(b.blocks):
            t2 = bl["t"]
            if t2 and t2["t"] == "switch" and op_local(t2["o"]) is not None:
                ds = b.defs().get(op_local(t2["o"]), [])
                if ds and ds[0][1] != "T" and ds[0][2]["rv"]["r"] == "disc" and ds[0][2]["rv"]["p"]["l"] == ct["d"]["l"]:
                    sw = (bi2, t2)
        if sw is None or {ka, kb} != {"new", "old"}:
            rep.bad("C10.dir", "anchor:switch on Ordering", loc_of(b), "no switch on the comparison result")
        else:
            swb, swt = sw
            arms = {v: tb for v, tb in swt["v"]}
            def uses_op(x, opname):
                """calls BlockSize::<op> directly or hands it to a helper as a function value"""
                for _, t in x.calls():
                    if re.search(r"BlockSize::%s$" % opname, callee_name(t)):
                        return True
                    for a in t["a"]:
                        kf = (a.get("k") or {}).get("fn") if isinstance(a, dict) else None
                        if kf and re.search(r"BlockSize::%s$" % opname, kf.get("path") or ""):
                            return True
                for bl in x.blocks:
                    for st_ in bl["s"]:
                        for o in rv_operands(st_["rv"]):
                            kf = (o.get("k") or {}).get("fn") if isinstance(o, dict) else None
                            if kf and re.search(r"BlockSize::%s$" % opname, kf.get("path") or ""):
                                return True
                return False
            helpers = [x for x in F.bodies if x.promoted is None and x.kind != "Closure" and x.path.startswith("metadata::update_file::")]
            growers = {strip_generics(x.path) for x in helpers if uses_op(x, "checked_add") and not uses_op(x, "checked_sub")}
            shrinkers = {strip_generics(x.path) for x in helpers if uses_op(x, "checked_sub") and not uses_op(x, "checked_add")}
            def call_dir(t):
                """grow / shrink: the helper called is the growing / shrinking one, or one helper is told which by a function value"""
                nm = strip_generics(callee_name(t))
                if nm in growers:
                    return "grow"
                if nm in shrinkers:
                    return "shrink"
                if nm == "metadata::BlockSize::checked_add":      # the helper's body, inlined or written in place
                    return "grow"
                if nm == "metadata::BlockSize::checked_sub":
                    return "shrink"
                if nm.startswith("metadata::update_file::"):
                    for a in t["a"]:
                        kf = (a.get("k") or {}).get("fn") if isinstance(a, dict) else None
                        if kf and re.search(r"BlockSize::checked_add$", kf.get("path") or ""):
                            return "grow"
                        if kf and re.search(r"BlockSize::checked_sub$", kf.get("path") or ""):
                            return "shrink"
                return None
            dirs = {call_dir(t) for _, t in b.calls()} - {None}
            rep.check("C10.dir", "one helper grows padding (checked_add), one shrinks (checked_sub)", (len(growers) == 1 and len(shrinkers) == 1 and growers != shrinkers) or (not growers and not shrinkers and dirs == {"grow", "shrink"}), loc_of(b), "%s / %s / %s" % (growers, shrinkers, sorted(dirs)))
            for val, rel in ((-1, "A<B"), (1, "A>B"), (0, "A==B")):
                tb = arms.get(val)
                if tb is None:
                    rep.bad("C10.dir", "Ordering arm %d" % val, loc_of(b), "arm missing")
                    continue
                region = blocks_only_via(b, swb, tb)
                calls = [(i, t) for i, t in b.calls() if i in region and call_dir(t) is not None]
                if val == 0:
                    rep.check("C10.dir", "equal sizes: padding untouched", not calls, loc_of(b), "", "padding is adjusted although the sizes are equal")
                    continue
                new_smaller = (rel == "A<B" and ka == "new") or (rel == "A>B" and ka == "old")
                want = "grow" if new_smaller else "shrink"
                good = len(calls) == 1 and call_dir(calls[0][1]) == want
                detail = ""
                if good:
                    # argument must be (larger - smaller)
                    org = origins(b, calls[0][1]["a"][1])
                    subs = [x for k, x in org if k == "place"]
                    # find the SubWithOverflow defining it
                    arg = calls[0][1]["a"][1]
                    pl = op_place(arg)
                    src = None
                    for _, si, d in b.defs().get(pl["l"], []):
                        if si != "T" and d["rv"]["r"] == "use":
                            q = op_place(d["rv"]["o"])
                            if q:
                                for _, si2, d2 in b.defs().get(q["l"], []):
                                    if si2 != "T" and d2["rv"]["r"] == "bin" and d2["rv"]["op"].startswith("Sub"):
                                        src = d2["rv"]
                    if src is None:
                        # the difference may reach the padding operation through conversions (try_into()?): the one
                        # subtraction of the two sizes computed on this arm
                        subs_ = [st_["rv"] for bj in sorted(region) for st_ in b.blocks[bj]["s"] if st_["rv"]["r"] == "bin" and st_["rv"]["op"].startswith("Sub")
                                 and {(_root_place(b, st_["rv"]["a"]) or {}).get("l"), (_root_place(b, st_["rv"]["b"]) or {}).get("l")} == {A["l"], B["l"]}]
                        aops = {o.replace("WithOverflow", "") for o in backward_slice(b, arg)["ops"]} - {"Eq", "Ne", "Lt", "Le", "Gt", "Ge"}
                        if len(subs_) == 1 and aops == {"Sub"}:       # nothing but that subtraction (and conversions) feeds the argument
                            src = subs_[0]
                    if src is None:
                        good = False
                        detail = "argument is not a difference of the two sizes"
                    else:
                        la, lb = _root_place(b, src["a"]), _root_place(b, src["b"])

                        def same(p, q):
                            return p and q and p["l"] == q["l"] and p["p"] == q["p"]
                        first_is = "A" if same(la, A) else ("B" if same(la, B) else "?")
                        second_is = "A" if same(lb, A) else ("B" if same(lb, B) else "?")
                        kinds = {"A": ka, "B": kb, "?": "?"}
                        expect = ("old", "new") if new_smaller else ("new", "old")
                        good = (kinds[first_is], kinds[second_is]) == expect
                        detail = "argument is %s - %s" % (kinds[first_is], kinds[second_is])
                rep.check("C10.dir", "%s size: padding %s by the difference" % ("smaller new" if new_smaller else "larger new", "grown" if new_smaller else "shrunk"),
                          good, loc_of(b, calls[0][1]) if calls else loc_of(b), detail,
                          "when the new blocks are %s the padding must be %s by |old-new|; found calls %s %s" % ("smaller" if new_smaller else "larger", "grown" if new_smaller else "shrunk", [strip_generics(callee_name(t)) for _, t in calls], detail))

    # ---- C10.flag ------------------------------------------------------------------------------------------
    nflag = 0
    for bi, t in b.calls():
        if not re.search(r"Result::<T, E>::map$", callee_name(t)):
            continue
        src = [x for k, x in origins(b, t["a"][0]) if k == "call"]
        if not src or not t["cls"]:
            continue
        sname = strip_generics(callee_name(src[0]))
        cb = F.body(t["cls"][0])
        val = None
        if cb is not None:
            vs = [op_int(s["rv"]["o"]) for bl in cb.blocks for s in bl["s"] if s["d"]["l"] == 0 and s["rv"]["r"] == "use"]
            val = vs[0] if len(vs) == 1 else None
        if sname.endswith("write_in_place"):
            nflag += 1
            rep.check("C10.flag", "in-place write reports false (not rebuilt)", val == 0, loc_of(b, t), "", "an in-place update reports %s" % val)
        elif sname.endswith("rebuild_file"):
            nflag += 1
            rep.check("C10.flag", "rebuild reports true", val == 1, loc_of(b, t), "", "a rebuild reports %s" % val)
    # or the helpers attach the flag themselves (-> Result<bool, Error>) and update_file hands their result on
    for hname, want in (("write_in_place", 0), ("rebuild_file", 1)):
        hb = [x for x in F.bodies if x.promoted is None and x.kind != "Closure" and strip_generics(x.path) == "metadata::update_file::" + hname]
        for x in hb[:1]:
            if "bool" not in x.locals[0]["ty"]:
                continue
            vals = []
            for _, t in x.calls():
                if re.search(r"Result::<T, E>::map$", callee_name(t)) and t["cls"]:
                    cb = F.body(t["cls"][0])
                    if cb is not None:
                        vals += [op_int(s_["rv"]["o"]) for bl in cb.blocks for s_ in bl["s"] if s_["d"]["l"] == 0 and s_["rv"]["r"] == "use"]
            vals += [op_int(s_["rv"]["ops"][0]) for bl in x.blocks for s_ in bl["s"] if s_["rv"]["r"] == "agg" and s_["rv"].get("var") == "Ok" and s_["rv"]["ops"] and op_int(s_["rv"]["ops"][0]) is not None]
            nflag += 1
            rep.check("C10.flag", "%s reports %s" % (hname, "true (rebuilt)" if want else "false (not rebuilt)"), vals == [want], loc_of(x), str(vals), "%s reports %s" % (hname, vals))
    # or update_file itself picks the flag after the helper returned: `{ write_in_place(..)?; false }` / `{ rebuild_file(..)?; true }`
    if nflag == 0:
        pff = ok.path_facts(b)
        for bi, bl in enumerate(b.blocks):
            f = pff.get(bi, TOP)
            if f is TOP:
                continue
            inpl, rebu = fact_match(f, "call-ok", r"update_file::write_in_place$"), fact_match(f, "call-ok", r"update_file::rebuild_file$")
            if inpl == rebu:
                continue
            for s_ in bl["s"]:
                k = (s_["rv"].get("o") or {}).get("k") if s_["rv"]["r"] == "use" and isinstance(s_["rv"].get("o"), dict) else None
                if k and k.get("ty") == "bool" and not s_["d"]["p"]:
                    nflag += 1
                    rep.check("C10.flag", "%s" % ("in-place write reports false (not rebuilt)" if inpl else "rebuild reports true"), k["v"] == (0 if inpl else 1), b.loc(s_["sp"]), "",
                              "after %s the update reports %s" % ("an in-place write" if inpl else "a rebuild", bool(k["v"])))
    rep.floor("C10.flag", "flagged results", nflag, 2)

    # ---- C10.copy --------------------------------------------------------------------------------------------
    rb = anchor(F, rep, "C10.copy", "metadata::update_file::rebuild_file")
    if rb is not None:
        pfr = ok.path_facts(rb)
        creat = [(i, t) for i, t in rb.calls() if re.search(r"FnOnce::call_once$", callee_name(t))]
        for bi, t in creat:
            f = pfr.get(bi, TOP)
            rep.check("C10.copy", "destination created only after blocks and audio were assembled", has_ok(f, r"metadata::write_blocks$") and has_ok(f, r"std::io::copy$"), loc_of(rb, t),
                      "", "rebuilt() (which may truncate the original) is called before write_blocks / io::copy succeeded; facts %s" % fact_str(f))
        rep.floor("C10.copy", "destination creation sites", len(creat), 1)
        wb = call_blocks(rb, r"metadata::write_blocks$")
        cp = call_blocks(rb, r"std::io::copy$")
        rep.check("C10.copy", "new blocks are written before the remaining stream is appended", len(wb) == 1 and len(cp) == 1 and rb.dominates(wb[0][0], cp[0][0]), loc_of(rb))
        # everything assembled is written: write_all of the assembled buffer inside the and_then closure
        wa = [1 for c in [rb] + F.closures_of(rb) for _, t in c.calls() if re.search(r"Write::write_all$", callee_name(t))]
        rep.check("C10.copy", "assembled buffer written with write_all", len(wa) == 1, loc_of(rb))
    from rules import iolib
    iolib.count_rules(ctx, rep, "C10")
    from rules import C11 as _C11
    compose(ctx, rep, "C11", "C10.blocks", r"^C11\.(gram|frame|len|size)$")
