"""helpers shared by the per-property rule modules"""
import re
from facts import *
from core import *


def anchor(F, rep, rule, stripped_path, multi=False):
    """the body whose generic-stripped def path is `stripped_path`; fail closed when missing"""
    c = F.one(stripped_path)
    if not c:
        rep.bad(rule, "anchor:" + stripped_path, "", "anchor function %s not found in the crate (renamed or removed?)" % stripped_path)
        return [] if multi else None
    if multi:
        return c
    if len(c) > 1:
        rep.bad(rule, "anchor:" + stripped_path, "", "anchor %s is ambiguous (%d bodies)" % (stripped_path, len(c)))
        return None
    return c[0]


def anchors_re(F, rep, rule, pattern, minimum=1):
    c = F.find(pattern)
    if len(c) < minimum:
        rep.bad(rule, "anchor:" + pattern, "", "expected at least %d functions matching %s, found %d" % (minimum, pattern, len(c)))
    return c


def impl_method(F, rep, rule, trait_re, self_re, method):
    """bodies of `method` in impls of a trait matching trait_re for a self type matching self_re"""
    out = []
    for im in F.impls:
        if im["trait"] and re.search(trait_re, im["trait"]) and re.search(self_re, im["self_ty"]):
            for it in im["items"]:
                if it["name"] == method:
                    b = F.body(it["path"])
                    if b is not None:
                        out.append(b)
    if not out:
        rep.bad(rule, "anchor:impl %s for %s::%s" % (trait_re, self_re, method), "", "impl method not found")
    return out


def loc_of(body, t=None):
    if t is not None and "sp" in t:
        return "%s:%d" % (t["sp"]["file"], t["sp"]["line"])
    return "%s:%d" % (body.file, body.line)


def call_blocks(body, pattern):
    r = re.compile(pattern)
    return [(i, t) for i, t in body.calls() if r.search(callee_name(t)) or r.search(t["f"].get("path") or "") or r.search(strip_generics(callee_name(t)))]


def agg_sites(body, adt, var=None):
    """(block, stmt) of aggregate constructions of adt[::var]"""
    out = []
    for bi, bl in enumerate(body.blocks):
        if bl["cleanup"]:
            continue
        for s in bl["s"]:
            rv = s["rv"]
            if rv["r"] == "agg" and rv["ak"] == "adt" and rv["adt"] == adt and (var is None or rv["var"] == var):
                out.append((bi, s))
    return out


def error_sites(F, variant, bodies=None):
    """all (body, block, stmt) constructing Error::<variant> in non-test code"""
    out = []
    for b in (bodies if bodies is not None else F.bodies):
        if b.promoted is not None:
            continue
        for bi, s in agg_sites(b, "Error", variant):
            out.append((b, bi, s))
    return out


def is_test_body(b):
    return False


def fact_match(facts, kind, *pats):
    """any fact of `kind` whose string fields match the regexes (None = any); searches inside 'or' facts too"""
    from okimplies import TOP
    if facts is TOP:
        return True
    for f in facts:
        if f[0] == kind and len(f) - 1 >= len(pats):
            if all(p is None or re.search(p, str(f[i + 1])) for i, p in enumerate(pats)):
                return True
    return False


def or_fact_match(facts, alts):
    """an ('or', alt1, alt2..) fact where every alternative contains a fact matching one of `alts`
    (alts: list of (kind, *pats)); used for `a == b || c > k` guards"""
    from okimplies import TOP
    if facts is TOP:
        return True
    for f in facts:
        if f[0] != "or":
            continue
        branches = f[1:]
        used = set()
        okb = True
        for br in branches:
            hit = None
            for ai, a in enumerate(alts):
                if fact_match(frozenset(br), a[0], *a[1:]):
                    hit = ai
                    break
            if hit is None:
                okb = False
                break
            used.add(hit)
        if okb and len(used) == len(alts):
            return True
    return False



def compose(ctx, rep, module, dst, only, key_only=None):
    """run another property's rule module inside this check, keeping only the rule families matching `only`, renamed
    `<dst>.<family>`.  Composition is one level deep: a module that is itself being composed does not compose others."""
    if getattr(ctx, "_composing", 0) >= 1:
        return
    import importlib
    mod = importlib.import_module("rules." + module)
    ctx._composing = getattr(ctx, "_composing", 0) + 1
    try:
        mod.run(ctx, SubReport(rep, module, dst, only=only, key_only=key_only))
    finally:
        ctx._composing -= 1


def fn_value_bodies(F, bodies):
    """bodies of crate functions that are handed around as values (`.and_then(Self::bounded)`) inside the given bodies"""
    out, seen = [], set()
    for b in bodies:
        for bl in b.blocks:
            ops = []
            for s in bl["s"]:
                ops += [o for o in rv_operands(s["rv"]) if isinstance(o, dict)]
            t = bl["t"]
            if t and t["t"] == "call":
                ops += list(t["a"])
            for o in ops:
                k = o.get("k") if isinstance(o, dict) else None
                fn = k.get("fn") if k else None
                if fn and (fn.get("res") or fn.get("path")):
                    fb = F.body(fn.get("res") or fn.get("path"))
                    if fb is not None and fb.path not in seen and fb.promoted is None:
                        seen.add(fb.path)
                        out.append(fb)
    return out


def callees_in_blocks(F, b, blocks):
    """names of everything the given blocks of `b` can call: direct callees, function items used as values there, and the
    callees of closures built there (one level) - a converter handed to a helper is still the converter used on that arm"""
    out = []
    for bi in sorted(blocks):
        bl = b.blocks[bi]
        ops = []
        for s_ in bl["s"]:
            ops += [o for o in rv_operands(s_["rv"]) if isinstance(o, dict)]
            if s_["rv"]["r"] == "agg" and s_["rv"].get("ak") == "closure":
                cb = F.body(s_["rv"].get("adt") or "")
                if cb is not None:
                    out += [callee_name(t) for _, t in cb.calls()]
        t = bl["t"]
        if t and t["t"] == "call":
            out.append(callee_name(t))
            ops += list(t["a"])
            for c in t.get("cls") or ():
                cb = F.body(c)
                if cb is not None:
                    out += [callee_name(t2) for _, t2 in cb.calls()]
        for o in ops:
            fn = (o.get("k") or {}).get("fn") if isinstance(o, dict) else None
            if fn:
                out.append(fn.get("res") or fn.get("path") or "")
    return out


def inclusive_range_limit(b, ty="u32"):
    """the operand L of the single `0..=L` / `0..L + 1` range over `ty` built in body b, or (None, why).  An exclusive range
    counts only when its end is `L + 1` with the addition outermost (a `+ 1` buried under a min() is a different range)."""
    incl = [t for _, t in b.calls() if re.search(r"RangeInclusive::<Idx>::new$", callee_name(t)) and t["f"]["args"] == [ty]]
    excl = [st for bl in b.blocks for st in bl["s"] if st["rv"]["r"] == "agg" and st["rv"].get("adt") == "std::ops::Range" and op_const(st["rv"]["ops"][0]) and op_const(st["rv"]["ops"][0])["ty"] == ty]
    if len(incl) + len(excl) != 1:
        return None, "no single %s range found" % ty
    if incl:
        return (incl[0]["a"][1], "0..=limit") if op_int(incl[0]["a"][0]) == 0 else (None, "the range does not start at 0")
    if op_int(excl[0]["rv"]["ops"][0]) != 0:
        return None, "the range does not start at 0"
    o = excl[0]["rv"]["ops"][1]
    for _ in range(4):
        pl = op_place(o)
        if pl is None:
            break
        ds = [d for d in b.defs().get(pl["l"], []) if not d[2]["d"]["p"]]
        if len(ds) != 1 or ds[0][1] == "T":
            break
        rv = ds[0][2]["rv"]
        if rv["r"] == "bin" and rv["op"] in ("Add", "AddWithOverflow", "AddUnchecked") and (op_int(rv["b"]) == 1 or op_int(rv["a"]) == 1):
            return (rv["a"] if op_int(rv["b"]) == 1 else rv["b"]), "0..limit + 1"
        if rv["r"] != "use":
            break
        o = rv["o"]
    return None, "0..limit (the end is not `limit + 1`)"
