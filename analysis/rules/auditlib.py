"""shared driver for engine B (panic-site audit) and engine C (loops / recursion / allocation)"""
import json, os
from rules.common import *
from rules.groups import GROUPS
from panics import Program, enumerate_sites, discharge
import loops

_CACHE = {}


def program(ctx, config=None):
    config = config or ctx.default_config
    k = (id(ctx), config)
    if k not in _CACHE:
        _CACHE[k] = Program(ctx.facts(config))
    return _CACHE[k]


_ARITH = {"add": "Add", "sub": "Sub", "mul": "Mul", "div": "Div", "rem": "Rem", "shl": "Shl", "shr": "Shr", "neg": "Neg"}


def norm_key(key, callee=None):
    """(function without closure components, kind, detail, operand type or None).  Arithmetic sites are brought to one
    form whether they are a primitive operation (assert Overflow:Op:ty) or a trait call (<ty as Op>::op)."""
    fn, kind, detail = (key.split("|", 2) + ["", ""])[:3]
    fn = fn.replace("::{closure}", "")
    ty = None
    if kind == "assert" and detail.startswith("Overflow:"):
        parts = detail.split(":")
        kind, detail, ty = "arith", parts[1], (parts[2] if len(parts) > 2 and parts[2] else None)
    elif (kind == "assert" and detail.startswith("Bounds")) or kind == "index":
        kind, detail = "index", "[]"     # v[i] on a Vec (Index::index call) and on the slice borrowed from it (bounds assert): one obligation
    elif kind == "nonzero-arg":
        detail = re.sub(r"_mut$", "", detail)     # chunks_exact / chunks_exact_mut of the same buffer with the same size: one obligation
    elif kind == "capacity":
        detail = "ArrayVec"      # collect::<ArrayVec<_, N>>() and an explicit push loop are the same capacity obligation
    elif kind == "overflow-call":
        m = re.search(r"::(add|sub|mul|div|rem|shl|shr|neg)(_assign)?$", detail)
        if m:
            kind, detail = "arith", _ARITH[m.group(1)]
            if callee:
                mt = re.match(r"^<&?([iu](?:8|16|32|64|size)) as ", callee)
                ty = mt.group(1) if mt else None
    return (fn, kind, detail, ty)


def norm_fn(body):
    fn = strip_generics(body.path) if not body.path.startswith("<") else body.path
    return re.sub(r"::\{closure#\d+\}", "", fn)


def panic_audit(ctx, rep, P, groups, extra_roots=None, floor_sites=0):
    """every panic-capable site reachable from the entry groups is discharged by intervals or audited"""
    F = ctx.facts()
    cg = ctx.cg()
    prog = program(ctx)
    audit = ctx.spec("audit_panics.json")
    roots = []
    for g in groups:
        r = GROUPS[g](F)
        rep.floor(P + ".entry", "entry points of %s" % g, len(r), {"G_dec": 80, "G_meta": 300, "G_mw": 30, "G_ctor": 40, "G_enc": 11, "G_stream_w": 15}.get(g, 1))
        roots += r
    roots += extra_roots or []
    reach = cg.reach(roots)
    rep.check(P + ".unsafe", "#![forbid(unsafe_code)] in force", F.j["unsafe_code_level"] == "Forbid", "src/lib.rs",
              "lint level of unsafe_code at the crate root is %s: memory unsafety is excluded, panics/hangs/allocation remain" % F.j["unsafe_code_level"])
    rep.check(P + ".profile", "analysed with overflow checks and debug assertions on", F.j["overflow_checks"] and F.j["debug_assertions"], "",
              "the MIR analysed is the checked profile's: its panic sites are a superset of the optimised profile's")
    seen = {}
    und_all = {}
    total = dis = aud = 0
    bykind = {}
    for k in sorted(reach):
        b = F.by_key.get(k)
        if b is None or b.promoted is not None:
            continue
        ss = enumerate_sites(b)
        if not ss:
            continue
        discharge(F, b, ss, prog.analysis(b))
        for s in ss:
            total += 1
            bykind[s.kind] = bykind.get(s.kind, 0) + 1
            if s.discharged:
                dis += 1
                rep.ok(P + ".panic", "discharged:%s" % s.key(), s.loc(), s.why)
            else:
                und_all.setdefault(s.key(), []).append((s, k))
    fn_bodies = {}
    for x, bb in F.by_key.items():
        if bb.promoted is None:
            fn_bodies.setdefault(norm_fn(bb), set()).add(x)
    # 1. exact keys with their multiplicity
    left_sites = []
    capacity = {k_: a_["n"] for k_, a_ in audit.items()}
    by_exact = {}
    for nk, sites in und_all.items():
        for s, k in sites:
            by_exact.setdefault(s.key(), []).append((s, k))
    for key, sites in sorted(by_exact.items()):
        n = capacity.get(key, 0)
        for i, (s, k) in enumerate(sites):
            if i < n:
                aud += 1
                rep.ok(P + ".panic", "audited:%s" % key, s.loc(), audit[key]["why"])
            else:
                left_sites.append((s, k))
        capacity[key] = max(0, n - len(sites))
    # 2. a site that moved between a function and one of its closures, or whose arithmetic is now lowered as a trait call
    #    instead of a primitive operation (same operation, same operand type), is still the same audited site
    for s, k in left_sites:
        callee = (s.term.get("f") or {}).get("res") or (s.term.get("f") or {}).get("path") if isinstance(s.term, dict) else None
        fn, kind, detail, ty = norm_key(s.key(), callee)
        hit = None
        for key, cap in capacity.items():
            if cap <= 0:
                continue
            fn2, kind2, detail2, ty2 = norm_key(key)
            if (fn, kind, detail) == (fn2, kind2, detail2) and (ty is None or ty2 is None or ty == ty2):
                hit = key
                break
        if hit is None:
            # 3. the site moved into a helper that the audited function calls (or out of one into its caller): same
            #    obligation, same neighbourhood in the call graph
            me = {k} | {x for x in F.by_key if norm_fn(F.by_key[x]) == fn}
            for key, cap in capacity.items():
                if cap <= 0:
                    continue
                fn2, kind2, detail2, ty2 = norm_key(key)
                if (kind, detail) != (kind2, detail2) or not (ty is None or ty2 is None or ty == ty2):
                    continue
                theirs = fn_bodies.get(fn2, set())
                if any(b_ in cg.edges.get(a_, ()) for a_ in theirs for b_ in me) or any(b_ in cg.edges.get(a_, ()) for a_ in me for b_ in theirs):
                    hit = key
                    break
        if hit is not None:
            capacity[hit] -= 1
            aud += 1
            rep.ok(P + ".panic", "audited:%s" % s.key(), s.loc(), audit[hit]["why"] + " (matched on the normalised key of %s)" % hit)
        else:
            n = audit.get(s.key(), {}).get("n", 0)
            rep.bad(P + ".panic", "site:%s" % s.key(), s.loc(),
                    "panic-capable site (%s %s) reachable from %s via %s is neither discharged by the interval analysis nor covered by the audit table (%d audited for this key)" % (
                        s.kind, s.detail, "/".join(groups), " -> ".join(strip_generics(x) for x in cg.path_to(k)[-4:]), n))
    rep.note(P + ".engineB", {"reachable_bodies": len(reach), "sites": total, "discharged_by_intervals": dis, "audited": aud, "by_kind": bykind})
    rep.floor(P + ".panic", "panic-capable sites enumerated", total, floor_sites)
    return reach, prog


def structure_audit(ctx, rep, P, reach, prog):
    F = ctx.facts()
    cg = ctx.cg()
    audit = ctx.spec("audit_loops.json")
    return loops.check(F, cg, prog, reach, rep, P, audit)
