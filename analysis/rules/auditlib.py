"""shared driver for engine B (panic-site audit) and engine C (loops / recursion / allocation)"""
import json, os
from rules.common import *
from rules.groups import GROUPS
from panics import Program, enumerate_sites, discharge
import loops

_CACHE = {}


def program(ctx, config=None):
    config = config or ctx.default_config
    k = (id(ctx), config)
    if k not in _CACHE:
        _CACHE[k] = Program(ctx.facts(config))
    return _CACHE[k]


_ARITH = {"add": "Add", "sub": "Sub", "mul": "Mul", "div": "Div", "rem": "Rem", "shl": "Shl", "shr": "Shr", "neg": "Neg"}


def norm_key(key):
    fn, kind, detail = (key.split("|", 2) + ["", ""])[:3]
    fn = fn.replace("::{closure}", "")
    if kind == "assert" and detail.startswith("Overflow:"):
        kind, detail = "arith", detail.split(":")[1]
    elif kind == "overflow-call":
        m = re.search(r"::(add|sub|mul|div|rem|shl|shr|neg)(_assign)?$", detail)
        if m:
            kind, detail = "arith", _ARITH[m.group(1)]
    return "%s|%s|%s" % (fn, kind, detail)


def panic_audit(ctx, rep, P, groups, extra_roots=None, floor_sites=0):
    """every panic-capable site reachable from the entry groups is discharged by intervals or audited"""
    F = ctx.facts()
    cg = ctx.cg()
    prog = program(ctx)
    audit = ctx.spec("audit_panics.json")
    roots = []
    for g in groups:
        r = GROUPS[g](F)
        rep.floor(P + ".entry", "entry points of %s" % g, len(r), {"G_dec": 80, "G_meta": 300, "G_mw": 30, "G_ctor": 40, "G_enc": 11, "G_stream_w": 15}.get(g, 1))
        roots += r
    roots += extra_roots or []
    reach = cg.reach(roots)
    rep.check(P + ".unsafe", "#![forbid(unsafe_code)] in force", F.j["unsafe_code_level"] == "Forbid", "src/lib.rs",
              "lint level of unsafe_code at the crate root is %s: memory unsafety is excluded, panics/hangs/allocation remain" % F.j["unsafe_code_level"])
    rep.check(P + ".profile", "analysed with overflow checks and debug assertions on", F.j["overflow_checks"] and F.j["debug_assertions"], "",
              "the MIR analysed is the checked profile's: its panic sites are a superset of the optimised profile's")
    seen = {}
    und_all = {}
    total = dis = aud = 0
    bykind = {}
    for k in sorted(reach):
        b = F.by_key.get(k)
        if b is None or b.promoted is not None:
            continue
        ss = enumerate_sites(b)
        if not ss:
            continue
        discharge(F, b, ss, prog.analysis(b))
        for s in ss:
            total += 1
            bykind[s.kind] = bykind.get(s.kind, 0) + 1
            if s.discharged:
                dis += 1
                rep.ok(P + ".panic", "discharged:%s" % s.key(), s.loc(), s.why)
            else:
                und_all.setdefault(norm_key(s.key()), []).append((s, k))
    # audited sites are matched on a normalised key: a site that moves between a function and one of its closures, or
    # whose arithmetic is lowered as a trait call instead of a primitive operation, is still the same audited site
    naudit = {}
    for key, a in audit.items():
        e = naudit.setdefault(norm_key(key), {"n": 0, "why": a["why"]})
        e["n"] += a["n"]
    for nkey, sites in sorted(und_all.items()):
        a = naudit.get(nkey)
        n = a["n"] if a else 0
        if len(sites) <= n:
            for s, k in sites:
                aud += 1
                rep.ok(P + ".panic", "audited:%s" % s.key(), s.loc(), a["why"])
        else:
            for s, k in sites:
                rep.bad(P + ".panic", "site:%s" % s.key(), s.loc(),
                        "panic-capable site (%s %s) reachable from %s via %s is neither discharged by the interval analysis nor covered by the audit table (%d audited, %d present)" % (
                            s.kind, s.detail, "/".join(groups), " -> ".join(strip_generics(x) for x in cg.path_to(k)[-4:]), n, len(sites)))
    rep.note(P + ".engineB", {"reachable_bodies": len(reach), "sites": total, "discharged_by_intervals": dis, "audited": aud, "by_kind": bykind})
    rep.floor(P + ".panic", "panic-capable sites enumerated", total, floor_sites)
    return reach, prog


def structure_audit(ctx, rep, P, reach, prog):
    F = ctx.facts()
    cg = ctx.cg()
    audit = ctx.spec("audit_loops.json")
    return loops.check(F, cg, prog, reach, rep, P, audit)
