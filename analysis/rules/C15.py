"""C15 Writer APIs validate their parameters and honour the declared length contract.

Decided:
  C15.limits  the constants and comparison directions of every parameter check equal the documented limits
              (block size >= 16; partition order <= 15; LPC order 1..=32; padding < 2^24; sample rate < 2^20;
              channels 1..=8; total samples < 2^36) - extracted by conditional constant propagation with one
              representative per interval induced by the constants each check compares with
  C15.len     Encoder::encode raises ExcessiveTotalSamples exactly under samples_written > total, evaluated after the
              counter was advanced by this block; finalize raises SampleCountMismatch under written != declared and
              records the count when none was declared
  C15.guard   the partition-order search is clamped to what the partition buffer can hold; exact_div guards a zero divisor
  C15.panic   engine B over the constructors and Options methods (and everything they reach)
  C15.cap     every seek table built by the encoder (constructor placeholder included) is capped at MAX_POINTS
  (C15.guard also: every place that fills an audio::Frame has established a non-empty block; C15.len also: the declared
   total is converted to channel-independent samples by exact division)
  C15.atomic  argument-shape errors of the buffering writers (channel count / length mismatch) are raised before anything is appended
Not decided: that every accepted configuration produces a working writer for every input (see C01).
"""
from rules.common import *
from rules import auditlib
from rules.tablelib import *
from okimplies import OkImplies, fact_str, TOP

META = {"level": "other", "rule": "interval-representative constant propagation through the parameter checks; path facts at the error sites; panic-site audit over the constructor entry points",
        "explanation": "Values are only compared, so the finite set of orderings against the program's own constants is an exact abstraction: each representative is propagated through the check's MIR and the exit (Ok / Err(variant)) is compared with the documented limit."}


def outcome(F, body, v, arg_local=2):
    (k, val), _ = apply_fn(F, body, v, arg_local=arg_local, extra_env={1: ("sym", "self")})
    r = result_of((k, val))
    return r[0] if r[0] in ("ok", "err") else "stop:%s" % (r[1],)


def nonempty_frame_rules(F, ok, rep, P):
    """audio::Frame splits its sample buffer into chunks of channel_len: every place that fills a frame must have
    established that the block is not empty (this backs the audited `chunks_exact(channel_len)` sites)"""
    n = 0
    for b in F.bodies:
        if b.promoted is not None:
            continue
        for bi, t in b.calls():
            if not re.search(r"audio::Frame::fill_from_(samples|buf|channels)$", strip_generics(callee_name(t))):
                continue
            n += 1
            sl = slice_with_captures(F, b, t["a"][1])
            why = None
            names = [callee_name(c) for c in sl["calls"]]
            if any(re.search(r"<impl \[T\]>::chunks_exact(_mut)?$", x) for x in names):
                why = "a chunk of chunks_exact (block size > 0)"
            if why is None:
                for c in sl["calls"]:
                    if re.search(r"Iterator::map$", callee_name(c)):
                        for cl in c["cls"]:
                            cb = F.body(cl)
                            if cb and any(re.search(r"<impl \[T\]>::chunks_exact(_mut)?$", callee_name(x)) for _, x in cb.calls()):
                                why = "chunks of chunks_exact per channel (block size > 0)"
            if why is None and b.kind == "Closure" and any(a >= 2 for a in backward_slice(b, t["a"][1])["args"]):
                # the block is the closure's own argument: the item of the iterator the closure was handed to
                parent = F.body(b.path.rsplit("::{closure#", 1)[0])
                host = [h for _, h in (parent.calls() if parent is not None else ()) if b.path in [getattr(F.body(x), "path", None) for x in (h.get("cls") or ())]]
                if len(host) == 1 and re.search(r"Iterator::(try_fold|try_for_each|for_each|fold|map)$", callee_name(host[0])) and \
                        any(re.search(r"<impl \[T\]>::chunks_exact(_mut)?$", callee_name(c)) for c in backward_slice(parent, host[0]["a"][0])["calls"]):
                    why = "the item of a chunks_exact iterator (block size > 0)"
            f = ok.path_facts(b).get(bi) or frozenset()
            if why is None and f is not TOP:
                for x in f:
                    if x[0] == "cmp" and x[1] == "Le" and "pcm_frame_size" in str(x[2]) and "len" in str(x[3]):
                        why = "guarded by len >= pcm_frame_size"
                    if x[0] == "call-false" and str(x[1]).endswith("is_empty") and not any(o.startswith("Rem") for o in sl["ops"]):
                        # (not enough where the block is first cut down to whole PCM frames: 1..channels-1 samples become 0)
                        why = "guarded by !is_empty()"
                    if x[0] == "call-ok" and re.search(r"stream::BlockSize as std::convert::TryFrom::try_from$", str(x[1])):
                        why = "after BlockSize::try_from(samples / channels) succeeded (0 is rejected)"
            rep.check(P + ".guard", "%s fills its frame only with a non-empty block" % strip_generics(b.path), why is not None, loc_of(b, t), why or "",
                      "a frame can be filled from an empty block: Frame::channels()/channels_mut() then panic in chunks_exact(0) instead of the call returning an error")
    rep.floor(P + ".guard", "frame fills", n, 4)


def block_size_fits_rule(F, ok, rep, P):
    """Encoder::encode refuses a frame whose PCM frame count does not fit the 16-bit block size field before anything of it
    is written or counted (this backs the audited `as u16` / expect("frame cannot be empty") sites of encode_frame: after a
    failed write the front-ends keep their pending input, so finalize can hand over more than one block)"""
    b = anchor(F, rep, P + ".guard", "encode::Encoder::encode")
    if b is None:
        return
    conv = [(bi, t) for bi, t in b.calls() if re.search(r"TryFrom<.*>>?::try_from$|TryInto<.*>>?::try_into$", callee_name(t)) and "u16" in " ".join(t["f"].get("args") or []) + (t["f"].get("res") or "")
            and any(callee_name(c).endswith("Frame::pcm_frames") for c in backward_slice(b, t["a"][0])["calls"])]
    ef = call_blocks(b, r"encode::encode_frame$")
    pf = ok.path_facts(b)
    good = len(conv) >= 1 and len(ef) == 1 and pf.get(ef[0][0], TOP) is not TOP and fact_match(pf.get(ef[0][0], TOP), "call-ok", r"try_from$|try_into$")
    casts = [1 for bl in b.blocks for s_ in bl["s"] if s_["rv"]["r"] == "cast" and s_["rv"].get("ty") == "u16" and any(callee_name(c).endswith("Frame::pcm_frames") for c in backward_slice(b, s_["rv"]["o"])["calls"])]
    rep.check(P + ".guard", "Encoder::encode converts the frame's sample count to u16 fallibly before encode_frame (no truncating cast)", good and not casts, loc_of(b), "%d checked conversions, %d casts" % (len(conv), len(casts)),
              "a frame of 65536 or more samples (pending input after a failed write, flushed by finalize / Drop) reaches encode_frame: its block size is truncated to 16 bits - exactly 65536 panics on expect(\"frame cannot be empty\")")


def exact_div_guard_rule(F, ok, rep, P):
    """encode::exact_div (bytes -> samples -> PCM frames of a declared total) divides only behind `rhs != 0`: the division and
    the remainder are generic trait calls the interval engine cannot see into, audited as guarded"""
    b = anchor(F, rep, P + ".guard", "encode::exact_div")
    if b is None:
        return
    bad, n = [], 0
    for c in [b] + F.closures_of(b):
        pf = ok.path_facts(c)
        for bi, t in c.calls():
            if (t["f"].get("path") or "") not in ("std::ops::Div::div", "std::ops::Rem::rem"):
                continue
            n += 1
            f = pf.get(bi, TOP)
            guarded = f is not TOP and fact_match(f, "cmp", "^Ne$", "rhs", "Default::default|const:0")
            if not guarded and c is not b:
                # lazily evaluated: the closure of bool::then on a condition that includes rhs != 0
                host = [(hi, h) for hi, h in b.calls() if c.path in [getattr(F.body(x), "path", None) for x in (h.get("cls") or ())]]
                if len(host) == 1 and re.search(r"bool>?::then$", callee_name(host[0][1])):
                    # `a && b` is lowered to conditional assignments: the condition is true only where it was assigned
                    # something other than the constant false, and every such assignment must sit behind rhs != 0
                    cl = op_local(host[0][1]["a"][0])
                    pfb = ok.path_facts(b)
                    ds = [d for d in b.defs().get(cl, []) if not d[2]["d"]["p"]] if cl is not None else []
                    live = [d for d in ds if not (d[1] != "T" and d[2]["rv"]["r"] == "use" and op_int(d[2]["rv"]["o"]) == 0)]
                    guarded = bool(live) and all(pfb.get(d[0], TOP) is not TOP and fact_match(pfb.get(d[0], TOP), "cmp", "^Ne$", "rhs", "Default::default|const:0") for d in live)
            if not guarded:
                bad.append(c.loc(t["sp"]))
    rep.check(P + ".guard", "exact_div divides and takes the remainder only behind rhs != 0", not bad and n >= 2, loc_of(b), "%d divisions / remainders" % n,
              "exact_div evaluates a division by its (possibly zero) divisor unconditionally (%s): a declared total with 0 channels panics instead of being refused" % bad)


def _divisor_class(F, body, o):
    out = set()
    places = []
    p = op_place(o)
    if p:
        places.append(p)
    for c in backward_slice(body, o)["calls"]:
        for a in c["a"]:
            q = op_place(a)
            if q:
                places.append(q)
    for p in places:
        cs = capture_source(F, body, p)
        if cs and cs[1] is not None:
            pb, pp = cs
            l = pp["l"]
            if pb.kind != "Closure" and 1 <= l <= pb.j["argc"]:
                out.add("arg:" + pb.locals[l]["ty"])
            else:
                s2 = backward_slice(pb, {"c": pp})
                if any(re.search(r"div_ceil$", callee_name(c)) for c in s2["calls"]):
                    out.add("bytes_per_sample")
    return out


def declared_total_rules(F, rep, P):
    """the declared total of the byte / interleaved-sample writers is converted to channel-independent samples:
    bytes / channels / bytes-per-sample, samples / channels (exact divisions)"""
    def all_cl(b0):
        out = []
        for c in F.closures_of(b0):
            out.append(c)
            out += all_cl(c)
        return out
    for path, want in (("encode::FlacByteWriter::new", [{"arg:u8"}, {"bytes_per_sample"}]), ("encode::FlacSampleWriter::new", [{"arg:u8"}])):
        b = anchor(F, rep, P + ".len", path)
        if b is None:
            continue
        got = []
        for body in [b] + all_cl(b):
            for bi, t in body.calls():
                if strip_generics(callee_name(t)) == "encode::exact_div":
                    cl_ = _divisor_class(F, body, t["a"][1])
                    cl_ = {"bytes_per_sample"} if "bytes_per_sample" in cl_ else cl_
                    if not cl_ and body.kind == "Closure":
                        # the divisors are the elements of a list the division is folded over: classify each element
                        for bb2 in [b] + all_cl(b):
                            for bl2 in bb2.blocks:
                                for s2 in bl2["s"]:
                                    if s2["rv"]["r"] == "agg" and s2["rv"].get("ak") == "array" and "u64" in bb2.local_ty(s2["d"]["l"]):
                                        for o2 in s2["rv"]["ops"]:
                                            c2 = _divisor_class(F, bb2, o2)
                                            c2 = {"bytes_per_sample"} if "bytes_per_sample" in c2 else c2
                                            if c2 and c2 not in got:
                                                got.append(c2)
                        continue
                    if cl_ not in got:
                        got.append(cl_)
        rep.check(P + ".len", "%s: declared total is divided exactly by %s" % (path, " and by ".join("the channel count" if w == {"arg:u8"} else "bytes per sample" for w in want)),
                  sorted(map(sorted, got)) == sorted(map(sorted, want)), loc_of(b), str(got),
                  "the declared total is not converted to channel-independent samples by exact division by %s (found divisors %s): the length contract is enforced against the wrong number" % (want, got))


def contiguous_bound_rules(F, rep, P):
    """metadata::contiguous::Contiguous<MAX, T>: a Vec of exactly MAX items is accepted (the placeholder seek table of a
    long stream is exactly MAX_POINTS long and is unwrapped), pushing is refused at MAX"""
    tf = [b for b in F.bodies if b.promoted is None and b.kind != "Closure" and re.search(r"contiguous::Contiguous<MAX, T> as std::convert::TryFrom<std::vec::Vec<T>>>::try_from$", b.path)]
    if not tf:
        rep.bad(P + ".cap", "anchor:Contiguous::try_from(Vec)", "", "not found")
    for b in tf[:1]:
        cm = []
        for bl in b.blocks:
            for st_ in bl["s"]:
                rv = st_["rv"]
                if rv["r"] == "bin" and rv["op"] in ("Le", "Lt", "Ge", "Gt"):
                    sa, sb = backward_slice(b, rv["a"]), backward_slice(b, rv["b"])
                    if any(re.search(r"::len$", callee_name(c)) for c in sa["calls"] + sb["calls"]):
                        lhs_len = any(re.search(r"::len$", callee_name(c)) for c in sa["calls"])
                        cm.append(rv["op"] if lhs_len else {"Le": "Ge", "Lt": "Gt", "Ge": "Le", "Gt": "Lt"}[rv["op"]])
        rep.check(P + ".cap", "Contiguous::try_from(Vec) accepts up to and including MAX items (len <= MAX)", cm == ["Le"], loc_of(b), str(cm),
                  "the capacity test of Contiguous::try_from(Vec) is %s: a table of exactly MAX items (a full placeholder seek table) is refused and the encoder constructor unwraps the error" % cm)


def validate_before_buffering_rule(F, rep, R):
    """a write() that refuses its arguments (wrong number of channels, channels of unequal length) refuses them before it has
    appended anything to the writer's buffers: no argument-shape error is reachable after an append"""
    n = 0
    for path in ("encode::FlacChannelWriter::write", "encode::FlacSampleWriter::write", "<encode::FlacByteWriter<W, E> as std::io::Write>::write"):
        b = [x for x in F.bodies if x.promoted is None and (x.path == path or strip_generics(x.path) == path)]
        if len(b) != 1:
            continue
        b = b[0]
        appends = [bi for bi, t in b.calls() if re.search(r"Extend<.*>>::extend$|::extend$|VecDeque::<.*>::push_back$|::extend_from_slice$", callee_name(t)) and "VecDeque" in (t["aty"][0] if t["aty"] else "")]
        raises = [(bi, st) for bi, bl in enumerate(b.blocks) if not bl["cleanup"] for st in bl["s"]
                  if st["rv"]["r"] == "agg" and st["rv"].get("adt") == "Error" and st["rv"].get("var") in ("ChannelLengthMismatch", "ChannelCountMismatch", "SamplesNotDivisibleByChannels")]
        if not raises:
            continue
        after = set()
        st_ = [x for a in appends for x in b.succs(a)]
        while st_:
            x = st_.pop()
            if x in after or b.blocks[x]["cleanup"]:
                continue
            after.add(x)
            st_.extend(b.succs(x))
        for bi, st in raises:
            n += 1
            rep.check(R, "%s: Error::%s is raised before anything is buffered" % (strip_generics(b.path), st["rv"]["var"]), bi not in after and bool(appends), b.loc(st["sp"]), "",
                      "Error::%s can be returned after samples were already appended to the writer's buffers: the refused call has changed what later calls and finalize encode" % st["rv"]["var"])
    rep.floor(R, "argument-shape errors of the buffered writers", n, 2)


def run(ctx, rep):
    F = ctx.facts()
    spec = ctx.spec("rfc9639.json")["limits"]
    ok = OkImplies(F, ctx.cg())
    validate_before_buffering_rule(F, rep, "C15.atomic")
    # ---- Options::block_size / max_partition_order / padding ---------------------------------------------
    for path, lo_ok, hi_ok, dom_hi, what in (
        ("encode::Options::block_size", spec["block_size_min"], 65535, 65535, "block size >= 16"),
        ("encode::Options::max_partition_order", 0, spec["partition_order_max"], 1 << 32 - 1, "partition order <= 15"),
    ):
        b = anchor(F, rep, "C15.limits", path)
        if b is None:
            continue
        reps_ = sorted(set(representatives(compare_constants(b), 0, min(dom_hi, (1 << 32) - 1))) | {lo_ok - 1 if lo_ok > 0 else 0, lo_ok, hi_ok, min(hi_ok + 1, dom_hi), 0})
        for v in reps_:
            want = "ok" if lo_ok <= v <= hi_ok else "err"
            got = outcome(F, b, v)
            rep.check("C15.limits", "%s(%d) -> %s" % (path, v, want), got == want, loc_of(b), what, "%s(%d) yields %s, documented: %s" % (path, v, got, what))
    tb = impl_body(F, r"^std::convert::TryFrom<u32>$", r"^metadata::BlockSize$", "try_from", rep, "C15.limits")
    if tb is not None:
        for v in sorted(set(representatives(compare_constants(tb), 0, (1 << 32) - 1)) | {0, spec["block_bytes_max"], spec["block_bytes_max"] + 1}):
            want = "ok" if v <= spec["block_bytes_max"] else "err"
            (k, val), _ = apply_fn(F, tb, v)
            r = result_of((k, val))
            rep.check("C15.limits", "BlockSize::try_from(%d) -> %s (padding < 2^24)" % (v, want), r[0] == want, loc_of(tb), "", "yields %s" % (r,))
    # every rate below 2^20 (what STREAMINFO's 20-bit field holds) converts: Encoder::new expects it after its own range check
    sr = [x for x in F.bodies if x.promoted is None and x.path == "<stream::SampleRate<u32> as std::convert::TryFrom<u32>>::try_from"]
    if not sr:
        rep.bad("C15.limits", "anchor:SampleRate<u32>::try_from", "", "not found")
    for b in sr[:1]:
        hi = spec["sample_rate_max"]
        reps_ = sorted(set(v for v in representatives(compare_constants(b), 0, (1 << 32) - 1)) | {1, 65534, 65535, 65536, 254999, 255000, 256000, 655349, 655350, 655351, 655360, 655361, 700001, 1000000, hi - 1, hi, hi + 1, (1 << 32) - 1})
        bad = []
        for v in reps_:
            try:
                (k, val), _ = apply_fn(F, b, v, arg_local=1)
                r = result_of((k, val))
            except Exception as e:
                r = ("stop", str(e))
            want = "ok" if v <= hi else "err"
            if r[0] != want or (want == "ok" and isinstance(r[1], tuple) and r[1][-1] and r[1][-1] != [v]):
                bad.append((v, r[0], r[1][2] if isinstance(r[1], tuple) and len(r[1]) > 2 else r[1]))
        rep.check("C15.limits", "SampleRate::try_from(rate) succeeds exactly for rate < 2^20 and keeps the rate (%d representatives)" % len(reps_), not bad, loc_of(b), "",
                  "sample rates %s convert wrongly (value, outcome, variant): a rate the writers document as valid makes Encoder::new panic on its expect(), or an invalid one is accepted" % bad[:6])
    pb = anchor(F, rep, "C15.limits", "encode::Options::padding")
    if pb is not None:
        ti = [t for _, t in pb.calls() if (re.search(r"TryInto<U>>::try_into$", callee_name(t)) and "metadata::BlockSize" in " ".join(t["f"]["args"])) or
              re.search(r"^<metadata::BlockSize as std::convert::TryFrom<u32>>::try_from$", t["f"].get("res") or "") or
              (re.search(r"TryFrom<.*>>?::try_from$", callee_name(t)) and "metadata::BlockSize" in " ".join(t["f"]["args"][:1]))]
        rep.check("C15.limits", "Options::padding validates through BlockSize::try_from", len(ti) == 1, loc_of(pb))
    # ---- max_lpc_order -------------------------------------------------------------------------------------------
    lb = anchor(F, rep, "C15.limits", "encode::Options::max_lpc_order")
    if lb is not None:
        found = None
        for cb in F.closures_of(lb):
            for _, t in cb.calls():
                if re.search(r"PartialOrd>::(le|lt|ge|gt)$", callee_name(t)):
                    # constant side: NonZero::new(c).unwrap()
                    consts = set()
                    for a in t["a"]:
                        consts |= backward_slice(cb, a)["consts"]
                    found = (callee_name(t).rsplit("::", 1)[1], consts, backward_slice(cb, t["a"][0])["args"])
        # idiom-independent first: evaluate the function on representative orders
        outs = {}
        for v in (None, 0, 1, spec["lpc_order_max"], spec["lpc_order_max"] + 1, 255):
            arg = ("adt", "std::option::Option", "None", 0, []) if v is None else ("adt", "std::option::Option", "Some", 1, [v])
            try:
                (k_, val_), _ = apply_fn(F, lb, arg, arg_local=2)
                outs[v] = result_of((k_, val_))[0]
            except Exception:
                outs[v] = "stop"
        raised = any(st_["rv"]["r"] == "agg" and st_["rv"].get("var") == "InvalidLpcOrder" for bb_ in [lb] + F.closures_of(lb) for bl in bb_.blocks for st_ in bl["s"])
        rep.check("C15.limits", "max_lpc_order can raise InvalidLpcOrder", raised, loc_of(lb))
        if all(o in ("ok", "err") for o in outs.values()):
            want = {None: "ok", 0: "err", 1: "ok", spec["lpc_order_max"]: "ok", spec["lpc_order_max"] + 1: "err", 255: "err"}
            rep.check("C15.limits", "max_lpc_order accepts exactly None and 1..=32", outs == want, loc_of(lb), "evaluated: %s" % outs, "max_lpc_order outcome per order %s, documented %s" % (outs, want))
        elif found is not None:
            rep.check("C15.limits", "max_lpc_order accepts exactly 1..=32 (o <= 32 on a NonZero)", found[0] == "le" and spec["lpc_order_max"] in found[1] and 2 in found[2], loc_of(lb), str(found),
                      "LPC order limit is compared as %s" % (found,))
            nz = [t for cb in F.closures_of(lb) for _, t in cb.calls() if re.search(r"TryInto<U>>::try_into$", callee_name(t)) and "std::num::NonZero<u8>" in " ".join(t["f"]["args"])]
            rep.check("C15.limits", "max_lpc_order rejects 0 through the NonZero conversion", len(nz) == 1, loc_of(lb))
        else:
            rep.ok("C15.limits", "max_lpc_order: range test in a form the rule does not recognise (inconclusive, not an alarm)", loc_of(lb), str(outs))
    # ---- Encoder::new ----------------------------------------------------------------------------------------------
    nb = anchor(F, rep, "C15.limits", "encode::Encoder::new")
    if nb is not None:
        found = {}
        for bi, t in nb.calls():
            nm = callee_name(t)
            if re.search(r"Range(Inclusive)?::<Idx>::contains$", nm):
                sl = backward_slice(nb, t["a"][0])
                consts = set(sl["consts"])
                for pb_ in F.by_path.get(nb.path, []):
                    if pb_.promoted is not None and any(k == "call" or True for k in [1]):
                        pass
                item = backward_slice(nb, t["a"][1])
                found["incl" if "Inclusive" in nm else "excl"] = (consts, item["args"])
        # constants may live in promoted bodies (&(0..1048576))
        prom = {}
        for pb_ in F.by_path.get(nb.path, []):
            if pb_.promoted is not None:
                cs = set()
                for bl in pb_.blocks:
                    for s in bl["s"]:
                        for o in rv_operands(s["rv"]):
                            if op_int(o) is not None:
                                cs.add(op_int(o))
                    t = bl["t"]
                    if t and t["t"] == "call":
                        for a in t["a"]:
                            if op_int(a) is not None:
                                cs.add(op_int(a))
                prom[pb_.promoted] = cs
        allc = set().union(*prom.values()) if prom else set()
        for v in found.values():
            allc |= v[0]
        summ = ok.summary(nb)
        summ = summ if summ is not TOP else frozenset()

        def cfact(opname, who, const):
            return any(x[0] == "cmp" and x[1] == opname and who in str(x[2]) and str(x[3]) == "const:%d" % const for x in summ)
        if found:
            rep.check("C15.limits", "sample rate accepted iff in 0..2^20", {0, spec["sample_rate_max"] + 1} <= allc and "excl" in found, loc_of(nb), str(sorted(allc)[:12]),
                      "the sample-rate range constants are %s" % sorted(allc))
            rep.check("C15.limits", "channel count accepted iff in 1..=8", {spec["channels_min"], spec["channels_max"]} <= allc and "incl" in found, loc_of(nb), "",
                      "the channel range constants are %s" % sorted(allc))
        elif any(x[0] == "cmp" and "sample_rate" in str(x[2]) for x in summ):
            # explicit comparisons: success of Encoder::new implies them
            rep.check("C15.limits", "sample rate accepted iff in 0..2^20", cfact("Lt", "sample_rate", spec["sample_rate_max"] + 1) or cfact("Le", "sample_rate", spec["sample_rate_max"]), loc_of(nb), fact_str(summ)[:200],
                      "success of Encoder::new does not imply sample_rate < 2^20: %s" % fact_str(summ)[:300])
            rep.check("C15.limits", "channel count accepted iff in 1..=8", (cfact("Le", "NonZero::get", spec["channels_max"]) or cfact("Lt", "NonZero::get", spec["channels_max"] + 1) or cfact("Le", "channels", spec["channels_max"])) and
                      any(x[0] == "is" and x[1] == "Some" and "NonZero::new" in str(x[2]) for x in summ) or (cfact("Le", "channels", spec["channels_max"]) and (cfact("Lt", "const:0", 0) or any(x[0] == "cmp" and x[1] in ("Lt", "Le", "Ne") and "channels" in str(x) for x in summ))),
                      loc_of(nb), "", "success of Encoder::new does not imply 1 <= channels <= 8: %s" % fact_str(summ)[:300])
        else:
            rep.ok("C15.limits", "Encoder::new: range tests in a form the rule does not recognise (inconclusive, not an alarm)", loc_of(nb))
        lts = [s for bl in nb.blocks for s in bl["s"] if s["rv"]["r"] == "bin" and s["rv"]["op"] in ("Lt", "Le", "Ge", "Gt") and op_int(s["rv"]["b"]) is not None and op_int(s["rv"]["b"]) > 1 << 30]
        lts += [s for c_ in F.closures_of(nb) for bl in c_.blocks for s in bl["s"] if s["rv"]["r"] == "bin" and s["rv"]["op"] in ("Lt", "Le", "Ge", "Gt") and op_int(s["rv"]["b"]) is not None and op_int(s["rv"]["b"]) > 1 << 30]
        tmax = spec["total_samples_max"]
        okforms = {("Lt", tmax + 1), ("Le", tmax), ("Ge", tmax + 1), ("Gt", tmax)}
        good = len(lts) == 1 and (lts[0]["rv"]["op"], op_int(lts[0]["rv"]["b"])) in okforms
        rep.check("C15.limits", "declared total accepted iff < 2^36", good, loc_of(nb), "", "total-samples bound is %s" % [(x["rv"]["op"], op_int(x["rv"]["b"])) for x in lts])
        for var in ("InvalidSampleRate", "ExcessiveChannels", "ExcessiveTotalSamples"):
            rep.check("C15.limits", "Encoder::new raises %s" % var, any(eb.path.startswith(nb.path) for eb, _, _ in error_sites(F, var)), loc_of(nb))
        # validation precedes the first byte written
        wb = call_blocks(nb, r"metadata::write_blocks$")
        # every rejecting exit for a parameter sits before the first byte is written
        errs = [bi for var in ("InvalidSampleRate", "ExcessiveChannels", "ExcessiveTotalSamples") for bi, _ in agg_sites(nb, "Error", var)]
        before = bool(wb) and all(not nb.dominates(wb[0][0], e) for e in errs)
        rep.check("C15.limits", "all parameter checks precede the first write", before, loc_of(nb))
    for path in ("encode::FlacByteWriter::new", "encode::FlacSampleWriter::new", "encode::FlacChannelWriter::new", "encode::FlacStreamWriter::write"):
        b = anchor(F, rep, "C15.limits", path)
        if b is None:
            continue
        ti = [t for _, t in b.calls() if re.search(r"TryInto<U>>::try_into$", callee_name(t)) and "bitstream_io::SignedBitCount<32>" in " ".join(t["f"]["args"])]
        rep.check("C15.limits", "%s validates bits-per-sample through SignedBitCount<32> (1..=32)" % path, len(ti) == 1, loc_of(b))

    # ---- C15.len ------------------------------------------------------------------------------------------------------
    eb = anchor(F, rep, "C15.len", "encode::Encoder::encode")
    if eb is not None:
        pf = ok.path_facts(eb)
        sites = [(bi, s) for bi, s in agg_sites(eb, "Error", "ExcessiveTotalSamples")]
        for bi, s in sites:
            f = pf.get(bi, TOP)
            rep.check("C15.len", "ExcessiveTotalSamples exactly when samples_written > declared total", fact_match(f, "cmp", "^Lt$", "NonZero::get|total", "samples_written") and fact_match(f, "is", "^Some$", "total_samples"),
                      eb.loc(s["sp"]), "", "over-length writes are detected under a different condition; facts: %s" % fact_str(f))
        rep.floor("C15.len", "ExcessiveTotalSamples sites in Encoder::encode", len(sites), 1)
        adds = [bi for bi, bl in enumerate(eb.blocks) for s in bl["s"] if s["d"]["p"] and "samples_written" in place_fields(s["d"])]
        cmps = [bi for bi, bl in enumerate(eb.blocks) for s in bl["s"] if s["rv"]["r"] == "bin" and s["rv"]["op"] in ("Gt", "Ge", "Lt", "Le") and "samples_written" in (backward_slice(eb, s["rv"]["a"])["fields"] | backward_slice(eb, s["rv"]["b"])["fields"])]
        rep.check("C15.len", "the declared-length check sees the counter including this block", len(adds) == 1 and len(cmps) == 1 and eb.dominates(adds[0], cmps[0]) and adds[0] != cmps[0], loc_of(eb), "",
                  "the length check runs before samples_written is advanced: an over-fill inside the last frame goes unnoticed")
    fb = anchor(F, rep, "C15.len", "encode::Encoder::finalize_inner")
    if fb is not None:
        pf = ok.path_facts(fb)
        sites = agg_sites(fb, "Error", "SampleCountMismatch")
        for bi, s in sites:
            f = pf.get(bi, TOP)
            rep.check("C15.len", "SampleCountMismatch exactly when written != declared", fact_match(f, "cmp", "^Ne$", "samples_written|NonZero::get", "samples_written|NonZero::get"), fb.loc(s["sp"]), "",
                      "finalize compares the written and declared counts with something other than !=; facts: %s" % fact_str(f))
        rep.floor("C15.len", "SampleCountMismatch sites in finalize_inner", len(sites), 1)
        st = [1 for bl in fb.blocks for s in bl["s"] if s["d"]["p"] and s["rv"]["r"] in ("use", "agg") and place_fields(root_place(fb, s["d"]) or {"p": []})[-1:] == ["total_samples"]]
        rep.check("C15.len", "an undeclared total is recorded at finalize", len(st) >= 1, loc_of(fb))

    # ---- C15.guard -------------------------------------------------------------------------------------------------------
    bp = F.one("encode::write_residuals::best_partitions")
    if not bp:
        rep.bad("C15.guard", "anchor:best_partitions", "", "not found")
    else:
        b = bp[0]
        lim, _how = inclusive_range_limit(b)
        good = False
        cap = None
        for cb in [b] + F.closures_of(b):
            for _, t in cb.calls():
                m = re.search(r"arrayvec::ArrayVec<.*, (\d+)>", t["dty"]) if re.search(r"Iterator::collect$", callee_name(t)) else None
                if m:
                    cap = max(cap or 0, int(m.group(1)))
        if lim is not None and cap:
            sl = backward_slice(b, lim)
            mins = [c for c in sl["calls"] if re.search(r"Ord::min$", callee_name(c))]
            logs = [c for c in sl["calls"] if re.search(r"::ilog2$", callee_name(c)) and op_int(c["a"][0]) is not None and op_int(c["a"][0]) <= cap]
            smallc = [c for c in sl["consts"] if isinstance(c, int) and 0 < c and (1 << c) <= cap]
            good = bool(mins) and (bool(logs) or bool(smallc))
        rep.check("C15.guard", "partition-order search is clamped to log2 of the partition buffer capacity (%s)" % cap, good, loc_of(b), "",
                  "partition orders above log2(%s) are tried: collecting 2^order partitions overflows the ArrayVec for documented max_partition_order values 7..15" % cap)
    xb = anchor(F, rep, "C15.guard", "encode::exact_div")
    if xb is not None:
        ne = [t for _, t in xb.calls() if (t["f"].get("path") or "") == "std::cmp::PartialEq::ne"]
        rem = [i for i, t in xb.calls() if (t["f"].get("path") or "") == "std::ops::Rem::rem"]
        rep.check("C15.guard", "exact_div tests the divisor against zero before the remainder", len(ne) >= 1 and len(rem) == 1 and all(xb.dominates(i, rem[0]) for i, t in xb.calls() if t in ne), loc_of(xb))

    nonempty_frame_rules(F, ok, rep, "C15")
    declared_total_rules(F, rep, "C15")
    contiguous_bound_rules(F, rep, "C15")
    exact_div_guard_rule(F, ok, rep, "C15")
    block_size_fits_rule(F, ok, rep, "C15")
    from rules import C09
    C09.cap_rules(F, rep, "C15", F.statics.get("metadata::SeekTable::MAX_POINTS", {}).get("v"))

    # ---- C15.panic ----------------------------------------------------------------------------------------------------------
    auditlib.panic_audit(ctx, rep, "C15", ["G_ctor"], floor_sites=240)
    from rules import C09 as _C09
    compose(ctx, rep, "C09", "C15.fin", r"^C09\.(start|order)$")
