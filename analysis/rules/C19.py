"""C19 Encoding never expands audio beyond verbatim size plus a fixed frame overhead.

Decided:
  C19.guard  in encode_subframe every return of a predictor candidate (neither the constant nor the verbatim
             recorder) is reached only on the true edge of  written(candidate) < samples x bits-per-sample;
             every other return hands back the constant or the verbatim recorder
  C19.min    every candidate selection uses a minimum combinator (min_by_key / min_by), keyed by the written /
             estimated size; no maximum combinator is used for selection
  C19.const  the all-zero and all-wasted early exits return the constant recorder (one sample regardless of length)
  C19.orders encode_fixed_subframe tries every FIXED order its four difference buffers allow (no limiting adaptor on the
             order loop) and selects among all computed orders: what makes a constant non-zero block cost a few bytes
  C19.kind   narrowing 5-bit Rice parameters to 4 bits keeps each partition's kind (Constant stays Constant)
  C19.cache  scratch buffers and recorders are reset before each block (cachelib, shared with C01/C02/C16)
  C19.orders (also) the order-collecting loop exits only for structural reasons (short block, overflow, empty); partition orders tried are 0..=limit
  C19.cache  (also) per-channel caches are not sized once behind is_empty()
Not decided: the numeric bound itself (header sizes, Rice estimate accuracy).
"""
from rules.common import *
from okimplies import OkImplies, fact_str, TOP

META = {"level": "other", "rule": "path facts at every return of encode_subframe; selection-combinator table",
        "explanation": "Each Ok(..) construction of encode_subframe is classified by the recorder it returns (dataflow origin); candidate recorders require the size comparison among the facts that hold on every path to that return."}

SELECT_SITES = {  # function -> expected number of minimum-selection call sites (confirmed by reading)
    "encode::correlate_channels": 2, "encode::correlate_channels_exhaustive": 2, "encode::encode_subframe": 1,
    "encode::encode_fixed_subframe": 1, "encode::compute_best_order": 1, "encode::write_residuals::best_partitions": 1,
}


def run(ctx, rep):
    F = ctx.facts()
    ok = OkImplies(F, ctx.cg())
    b = anchor(F, rep, "C19.guard", "encode::encode_subframe")
    if b is not None:
        pf = ok.path_facts(b)
        kinds = {"constant_output": 0, "verbatim_output": 0, "candidate": 0}
        # the return place, and temporaries moved into it whole (`return helper(..)` after the helper is inlined)
        ret_locals = {0}
        for bl in b.blocks:
            for s in bl["s"]:
                if s["d"]["l"] == 0 and not s["d"]["p"] and s["rv"]["r"] == "use" and op_place(s["rv"]["o"]) is not None and not op_place(s["rv"]["o"])["p"]:
                    ret_locals.add(op_place(s["rv"]["o"])["l"])
        for bi, s in agg_sites(b, "std::result::Result", "Ok"):
            if s["d"]["l"] not in ret_locals or s["d"]["p"]:
                continue
            sl = backward_slice(b, s["rv"]["ops"][0])
            flds = sl["fields"] & {"constant_output", "verbatim_output", "fixed_output", "lpc_output"}
            f = pf.get(bi, TOP)
            if flds == {"constant_output"}:
                kinds["constant_output"] += 1
                # constant recorder only for all-zero / all-wasted blocks
                rep.ok("C19.const", "constant recorder returned at %s" % ("all-zero or all-wasted exit"), b.loc(s["sp"]))
            elif flds == {"verbatim_output"}:
                kinds["verbatim_output"] += 1
                rep.ok("C19.guard", "verbatim recorder returned (fallback)", b.loc(s["sp"]))
            else:
                kinds["candidate"] += 1
                good = False
                if f is not TOP:
                    for fact in f:
                        if fact[0] == "cmp" and fact[1] == "Lt" and "written" in fact[2] and "Mul" in fact[3]:
                            good = True
                rep.check("C19.guard", "predictor candidate returned only if written(candidate) < samples x bits", good, b.loc(s["sp"]),
                          "guarded by the size comparison", "encode_subframe can return a fixed/LPC candidate that is not smaller than verbatim; facts: %s" % fact_str(f))
        rep.check("C19.guard", "return inventory is not empty: constant, verbatim and candidate recorders are all returned somewhere", kinds["candidate"] >= 1 and kinds["verbatim_output"] >= 1 and kinds["constant_output"] >= 1, loc_of(b), str(kinds))
        # verbatim_len = len * bits_per_sample
        for bl in b.blocks:
            for s in bl["s"]:
                if b.local_name(s["d"]["l"]) == "verbatim_len":
                    pass
        lts = [s for bl in b.blocks for s in bl["s"] if s["rv"]["r"] == "bin" and s["rv"]["op"] in ("Lt", "Gt")]
        g = False
        for s in lts:
            small, big = (s["rv"]["a"], s["rv"]["b"]) if s["rv"]["op"] == "Lt" else (s["rv"]["b"], s["rv"]["a"])
            a, c = backward_slice(b, small), backward_slice(b, big)
            if any(callee_name(x).endswith("BitRecorder::<N, E>::written") for x in a["calls"]) and any(o.startswith("Mul") for o in c["ops"]):
                cc = [callee_name(x) for x in c["calls"]]
                g = any(re.search(r"From<bitstream_io::SignedBitCount<MAX>> for u32>::from$|Into<U>>::into$", x) for x in cc)
                # nothing else is done to the bound: one multiplication of the length by the effective depth
                muls = [o for o in c["ops"] if o.startswith("Mul")]
                other = [o for o in c["ops"] if not o.startswith("Mul") and o not in ("Eq", "Ne")]
                extra_calls = [x for x in cc if re.search(r"div_ceil|next_multiple_of|next_power_of_two|::max$|::min$|saturating|wrapping", x)]
                g = g and len(muls) == 1 and not other and not extra_calls
        rep.check("C19.guard", "the bound compared with is len x effective bits-per-sample", g, loc_of(b))
        # early exits
        consts = [t for _, t in b.calls() if strip_generics(callee_name(t)) == "encode::encode_constant_subframe"]
        rep.check("C19.const", "all-zero and all-wasted blocks are written as a CONSTANT subframe", len(consts) == 2, loc_of(b), "%d calls" % len(consts))
        sw = [bl["t"] for bl in b.blocks if bl["t"] and bl["t"]["t"] == "switch" and b.local_name(op_local(bl["t"]["o"]) or -1) is None]
    # ---- C19.min
    total = 0
    for path, want in SELECT_SITES.items():
        fb = anchor(F, rep, "C19.min", path)
        if fb is None:
            continue
        mins = [t for _, t in fb.calls() if re.search(r"Iterator::min_by(_key)?$", callee_name(t))]
        maxs = [t for _, t in fb.calls() if re.search(r"Iterator::max_by(_key)?$|Iterator::max$", callee_name(t))]
        # an explicit `if a.written() <= b.written() { a } else { b }` is the same selection: count comparisons of two sizes whose
        # smaller side is what gets chosen on the true edge (checked through the path facts at the reference to the chosen recorder)
        explicit = 0
        if len(mins) < want:
            pfm = ok.path_facts(fb)
            for bi, bl in enumerate(fb.blocks):
                f = pfm.get(bi) or frozenset()
                for st_ in bl["s"]:
                    if st_["rv"]["r"] != "ref":
                        continue
                    fl = place_fields(root_place(fb, st_["rv"]["p"]))
                    rec = [x for x in fl if x.endswith("_output")]
                    if not rec:
                        continue
                    for x in f:
                        if x[0] == "cmp" and x[1] in ("Le", "Lt") and "written" in str(x[2]) and "written" in str(x[3]) and rec[-1] in str(x[2]) and rec[-1] not in str(x[3]):
                            explicit += 1
            explicit = 1 if explicit else 0
        total += len(mins) + explicit
        rep.check("C19.min", "%s selects with a minimum combinator (%d site(s)), never a maximum" % (path, want), len(mins) + explicit == want and not maxs, loc_of(fb),
                  "%d min, %d explicit, %d max" % (len(mins), explicit, len(maxs)), "%s: %d minimum selections (expected %d), %d maximum selections" % (path, len(mins) + explicit, want, len(maxs)))
        # the key of min_by_key closures is the written()/estimate, i.e. the closure reads .written() or a tuple's size field
        for t in mins:
            for c in t["cls"]:
                cb = F.body(c)
                if cb is None:
                    continue
    rep.floor("C19.min", "minimum selections", total, 4)
    # stale scratch data (a buffer or recorder not reset between blocks) inflates a frame beyond its declared samples
    from rules import cachelib
    cachelib.cache_rules(ctx, rep, "C19")
    # ---- C19.kind: narrowing the Rice parameter field (method 1 -> method 0) keeps each partition's kind: an all-zero
    # (Constant) partition stays a zero-width escape, it is not turned into one bit per residual
    hb = [x for x in F.bodies if x.promoted is None and x.kind != "Closure" and strip_generics(x.path) == "encode::write_residuals::try_shrink_header"]
    if not hb:
        rep.bad("C19.kind", "anchor:write_residuals::try_shrink_header", "", "not found")
    for x0 in hb[:1]:
        pfh = ok.path_facts(x0)
        rows = 0
        for x in region(F, x0):
          for bi, bl in enumerate(x.blocks):
            for s_ in bl["s"]:
                if s_["rv"]["r"] == "agg" and "ResidualPartitionHeader" in str(s_["rv"].get("adt")):
                    if x is x0:
                        f = pfh.get(bi, TOP)
                    else:
                        # built by a closure (`.map(|rice| Standard { rice })`): what holds where the closure is created
                        built = [bj for bj, bl2 in enumerate(x0.blocks) for s2 in bl2["s"] if s2["rv"]["r"] == "agg" and s2["rv"].get("ak") == "closure" and s2["rv"].get("adt") == x.path]
                        f = pfh.get(built[0], TOP) if len(built) == 1 else frozenset()
                    src = [y[1] for y in (f or ()) if f is not TOP and y[0] == "is" and y[1] in ("Standard", "Escaped", "Constant") and "header" in str(y[2])]
                    rows += 1
                    rep.check("C19.kind", "try_shrink_header maps a %s partition to a %s partition" % (s_["rv"]["var"], s_["rv"]["var"]), src == [s_["rv"]["var"]], x.loc(s_["sp"]), str(src),
                              "the header narrowing turns a %s partition into a %s one: e.g. an all-zero partition would cost one bit per residual instead of nothing" % (src, s_["rv"]["var"]))
        rep.floor("C19.kind", "partition kinds handled by try_shrink_header", rows, 3)
    # ---- C19.orders: a constant (non-zero) block is cheap only because FIXED order 1 is tried: all four difference
    # orders are attempted, the only early exits being an overflowing difference or a block shorter than the order
    fb = anchor(F, rep, "C19.orders", "encode::encode_fixed_subframe")
    if fb is not None:
        fc = F.adts.get("encode::FixedCache")
        ty = fc["variants"][0]["fields"][0]["ty"] if fc else ""
        rep.check("C19.orders", "FixedCache holds four difference buffers (orders 1..=4)", re.search(r";\s*4\]$", ty) is not None, "src/encode.rs", ty)
        LIMITING = ("Take<", "Skip<", "StepBy<", "Filter<", "FilterMap<", "TakeWhile<", "SkipWhile<", "MapWhile<", "Scan<")
        loops = [t for _, t in fb.calls() if re.search(r"IntoIterator>::into_iter$", callee_name(t)) and t["aty"] and ("std::vec::Vec<i32>" in t["aty"][0] or t["aty"][0].startswith("std::ops::Range<usize>"))]
        good = len(loops) == 1 and not any(x in loops[0]["aty"][0] for x in LIMITING)
        if good and loops[0]["aty"][0].startswith("std::ops::Range"):
            sl = backward_slice(fb, loops[0]["a"][0])
            good = 4 in sl["consts"] or any(callee_name(c).endswith("::len") for c in sl["calls"])
        rep.check("C19.orders", "encode_fixed_subframe computes the differences for every buffer (no take / skip / filter on the order loop)", good, loc_of(fb), str([t["aty"][0] for t in loops]),
                  "the loop over the FIXED difference buffers is limited (%s): higher orders are never tried for some inputs, so e.g. a constant block at high bit depth is stored at verbatim size" % [t["aty"][0] for t in loops])
        # the loop that collects the orders leaves early only for structural reasons (iterator exhausted, block shorter than the
        # order, difference overflowed, nothing left): no exit decided by looking at the values of a difference buffer
        pushes = [bi for bi, t in fb.calls() if re.search(r"ArrayVec::<T, CAP>::push$", callee_name(t))]
        def reach(frm):
            seen, st_ = set(), list(fb.succs(frm))
            while st_:
                x = st_.pop()
                if x in seen or fb.blocks[x]["cleanup"]:
                    continue
                seen.add(x)
                st_.extend(fb.succs(x))
            return seen
        inloop = [pb for pb in pushes if pb in reach(pb)]
        STRUCT = re.compile(r"(::next|::checked_\w+|::overflowing_\w+|::split_at_checked|::split_first|::split_at|::is_empty|::len|::get|::first|::last|::last_mut|::branch|::into_iter|::iter|::iter_mut|::zip|::deref|::deref_mut|::as_slice|::as_mut_slice|::index|::index_mut|::try_from|::from|::clear|::unwrap|::push|::new|::as_ref|::borrow|::from_residual|::from_output|::is_some|::is_none|::then_some|::ok_or|::ok)$")
        if len(inloop) != 1:
            rep.bad("C19.orders", "anchor:order-collecting loop of encode_fixed_subframe", loc_of(fb), "%d pushes inside a loop" % len(inloop))
        else:
            loop = reach(inloop[0])
            loop = {x for x in loop if inloop[0] in reach(x)} | {inloop[0]}
            odd = []
            for x in sorted(loop):
                t = fb.blocks[x]["t"]
                if t and t["t"] == "switch":
                    sl = backward_slice(fb, t["o"])
                    odd += [strip_generics(callee_name(c)) for c in sl["calls"] if not STRUCT.search(strip_generics(callee_name(c)))]
            rep.check("C19.orders", "the order-collecting loop exits only when a difference cannot be formed (short block, overflow, empty)", not odd, loc_of(fb), "%d blocks in the loop" % len(loop),
                      "an exit of the loop over the FIXED orders is decided by %s: an order whose differences have some value pattern (e.g. all zero - the cheapest of all) is never offered to the selection" % sorted(set(odd)))
        av = [t for _, t in fb.calls() if re.search(r"ArrayVec<T, CAP> as std::iter::IntoIterator>::into_iter$", callee_name(t)) and re.search(r",\s*5>$", t["aty"][0])]
        rep.check("C19.orders", "all of orders 0..=4 that were computed take part in the selection", len(av) == 1, loc_of(fb))
    # ---- C19.orders (partitions): the candidate partition orders are 0..=limit - order 0 is tried for every block length (an odd
    # block has no other), and the limit itself is tried; an exclusive range must add the one back after taking the minimum
    pb = anchor(F, rep, "C19.orders", "encode::write_residuals::best_partitions")
    if pb is not None:
        lim, how = inclusive_range_limit(pb)
        good = lim is not None
        rep.check("C19.orders", "best_partitions tries every partition order from 0 up to and including the limit", good, loc_of(pb), how,
                  "the partition orders tried are %s: for some block lengths (odd ones have only order 0) no Rice-coded layout is tried at all and the block falls back to 31-bit escapes / verbatim" % how)
    # keys: closures passed to min_by_key in encode_subframe / correlate_channels_exhaustive use written()
    for path in ("encode::encode_subframe",):
        fb = anchor(F, rep, "C19.min", path)
        if fb is None:
            continue
        for _, t in fb.calls():
            if re.search(r"Iterator::min_by_key$", callee_name(t)):
                keyed = False
                for c in t["cls"]:
                    cb = F.body(c)
                    if cb is not None and any(callee_name(x).endswith("BitRecorder::<N, E>::written") for _, x in cb.calls()):
                        keyed = True
                rep.check("C19.min", "%s: candidates are compared by bits written" % path, keyed, loc_of(fb, t))
