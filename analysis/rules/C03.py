"""C03 The decoder follows RFC 9639 on every valid stream.

Decided (table and grammar agreement against an independent transcription of RFC 9639):
  C03.rfc    every reader-side code table is total on its field width and equal to the RFC table;
             reserved / forbidden codes map to an error (block size, sample rate, channels, bit depth,
             subframe type, residual coding method, QLP precision, LPC shift, sync code, fixed predictors)
  C03.wide   each side-channel arm of the streaming and of the structural decoder has the 33-bit alternative
  C03.md5    MD5 agreement is reported only on the equality edge
  C03.wasted  every subframe type is read with the effective depth (bits - wasted), the wasted-bits shift is applied to all
              four types exactly when wasted > 0, fixed predictors use shift 0, LPC the 5-bit shift read from the stream
  C03.part    both decoders accept a residual partition layout under the RFC's condition (count <= block, exact division,
              first partition longer than the predictor order / chunk count == partition count)
  C03.utf8    the coded frame number: every continuation byte is checked to start with 0b10, 6 payload bits each
  (C03.wide also requires |side| % 2 as the parity term of both mid-side reconstructions)
  C03.wide   (also) every function mapping bit-depth codes to bit-count constants uses, per code, the constant of From<BitsPerSample>
  C03.accept the table-like code readers of the frame header (from_reader / try_from of BlockSize, SampleRate, BitsPerSample ..) raise errors at no more sites than the reviewed inventory spec/reject_sites.json
  C03.params Frame::resize stamps all three frame parameters on every path (taken from C16)
Not decided: the arithmetic of reconstruction (prediction, mid/side) against the RFC for all sample values.
"""
from rules.common import *
from rules.tablelib import *
from okimplies import OkImplies, fact_str, TOP
import struct

META = {
    "level": "other",
    "rule": "conditional constant propagation of every value of each N-bit header field through the reader's MIR; comparison with hand-transcribed RFC 9639 tables",
    "explanation": "For each field the check enumerates the full code space (2^N values), propagates each code through the reader function's MIR and records the exit (Ok(value expression) / Err(variant)); the resulting table must equal spec/rfc9639.json row by row. Table agreement against an independent reference; not a proof of the reconstruction arithmetic.",
}


def _spec_sem(x):
    if isinstance(x, int):
        return ("ok", str(x))
    if x in ("reserved", "forbidden"):
        return ("err", None)
    return ("ok", x)


def compare_table(rep, rule, name, tab, spec_codes, width, subst=None, loc=""):
    n = 0
    for code in range(1 << width):
        want = _spec_sem(spec_codes[str(code)])
        if subst and want[1] in subst:
            want = subst[want[1]]
        got = tab.get(code)
        n += 1
        if got is None:
            rep.bad(rule, "%s code %d" % (name, code), loc, "no table row extracted")
            continue
        if want[0] == "err":
            rep.check(rule, "%s code %d rejected" % (name, code), got[0] == "err", loc, "reserved code -> Err(%s)" % (got[1],),
                      "RFC 9639 reserves %s code %d but the reader yields %s" % (name, code, got,))
        else:
            rep.check(rule, "%s code %d = %s" % (name, code, want[1]), got[0] == "ok" and str(got[1]) == want[1], loc,
                      "reader yields %s" % (got[1],), "RFC 9639: %s code %d means %s, reader yields %s" % (name, code, want[1], got))
    return n


def frame_number_reader_rules(F, rep, P):
    """the coded frame / sample number (RFC 9639 9.1.5): every continuation byte must start with the bits 10 and
    carries 6 payload bits; a lone continuation byte (unary count 1) and counts above 7 are rejected"""
    bs = [b for b in F.bodies if b.promoted is None and b.kind != "Closure" and b.path == "<stream::FrameNumber as bitstream_io::FromBitStream>::from_reader"]
    if not bs:
        rep.bad(P + ".utf8", "anchor:FrameNumber::from_reader", "", "not found")
        return
    b = bs[0]
    import loops
    cyc = set()
    for comp in loops.cfg_sccs(b):
        cyc |= set(comp)
    rc = [(bi, t) for bi, t in b.calls() if (t["f"].get("path") or "") == "bitstream_io::BitRead::read_const"]
    rd = [(bi, t) for bi, t in b.calls() if (t["f"].get("path") or "") == "bitstream_io::BitRead::read"]
    targs = lambda t: [x for x in t["f"]["args"] if not x.startswith("'")][1:]
    in_loop_const = [(bi, t) for bi, t in rc if bi in cyc and targs(t)[:2] == ["2", "2"]]
    in_loop_read6 = [(bi, t) for bi, t in rd if bi in cyc and targs(t)[:1] == ["6"]]
    good = len(in_loop_const) == 1 and len(in_loop_read6) == 1 and b.dominates(in_loop_const[0][0], in_loop_read6[0][0])
    rep.check(P + ".utf8", "reader: every continuation byte of the coded number is checked to start with 0b10 before its 6 payload bits are taken", good, loc_of(b), "",
              "continuation bytes of the coded frame number are no longer validated (read_const::<2, 0b10>): malformed headers with a valid CRC are accepted")
    shl = [s_ for bi, bl in enumerate(b.blocks) if bi in cyc for s_ in bl["s"] if s_["rv"]["r"] == "bin" and s_["rv"]["op"] == "Shl" and op_int(s_["rv"]["b"]) == 6]
    rep.check(P + ".utf8", "reader: the accumulated number is shifted by 6 per continuation byte", len(shl) == 1, loc_of(b))


def midside_parity_rules(F, rep, P):
    """mid-side reconstruction: the parity bit restored into 2 x mid is |side| mod 2 (so that -1 gives +1), in the
    ordinary and in the 33-bit branch alike"""
    n = 0
    for b in F.bodies:
        if b.promoted is not None or b.kind != "Closure" or not b.path.startswith("decode::read_subframes::{closure"):
            continue
        rems = [st for bl in b.blocks for st in bl["s"] if st["rv"]["r"] == "bin" and st["rv"]["op"] == "Rem" and op_int(st["rv"]["b"]) == 2]
        if not rems:
            continue
        n += 1
        good = len(rems) == 1 and any(k == "call" and re.search(r"::(wrapping_abs|abs|unsigned_abs)$", callee_name(x)) for k, x in origins(b, rems[0]["rv"]["a"]))
        rep.check(P + ".wide", "mid-side reconstruction in %s takes the parity from |side| %% 2" % b.path.rsplit("::", 1)[-1], good, loc_of(b), "",
                  "the parity term of the mid-side reconstruction is `side % 2` instead of `|side| % 2`: negative odd side values give -1 and both channels come out one too low")
    rep.floor(P + ".wide", "mid-side reconstructions (ordinary and 33-bit)", n, 2)


def _bps_arm_constants(b):
    """for a body that switches on the discriminant of a stream::BitsPerSample: variant index -> bit-count constants used in that arm"""
    for bi, bl in enumerate(b.blocks):
        t = bl["t"]
        if not t or t["t"] != "switch":
            continue
        dl = op_local(t["o"])
        if not any(st["d"]["l"] == dl and st["rv"]["r"] == "disc" and st["rv"].get("ty") == "stream::BitsPerSample" for bl2 in b.blocks for st in bl2["s"]):
            continue
        out = {}
        for val, tgt in t["v"]:
            syms, cur, seen = set(), tgt, set()
            while cur is not None and cur not in seen:
                seen.add(cur)
                blk = b.blocks[cur]
                ops = [o for st in blk["s"] for o in rv_operands(st["rv"])]
                tt = blk["t"]
                if tt and tt["t"] == "call":
                    ops += tt["a"]
                for o in ops:
                    k = op_const(o)
                    if k is not None and k["ty"].startswith("bitstream_io::SignedBitCount<") and k.get("s"):
                        syms.add(k["s"])
                nxt = b.succs(cur)
                nxt = [n for n in nxt if not b.blocks[n]["cleanup"]]
                cur = nxt[0] if len(nxt) == 1 and len(b.preds()[nxt[0]]) == 1 else None
            out[val] = syms
        return out
    return None


def bps_constant_agreement(F, rep, rule):
    """sibling agreement: every function that maps the frame header's bit-depth codes to a bit count constant (conversion to a
    SignedBitCount, the +1 of a side channel in checked_add ..) uses, per variant, the constant the plain conversion uses"""
    ref = [b for b in F.bodies if b.promoted is None and re.search(r"From<stream::BitsPerSample> for bitstream_io::SignedBitCount<32>>::from$", b.path)]
    if len(ref) != 1:
        rep.bad(rule, "anchor:From<BitsPerSample> for SignedBitCount<32>", "", "conversion not found")
        return
    rt = _bps_arm_constants(ref[0])
    good = rt is not None and len([v for v in rt.values() if len(v) == 1]) >= 6 and len({tuple(v) for v in rt.values() if v}) == len([v for v in rt.values() if v])
    rep.check(rule, "From<BitsPerSample> for SignedBitCount<32>: one distinct constant per fixed bit-depth code", bool(good), loc_of(ref[0]), str(rt))
    if not good:
        return
    n = 0
    for b in F.bodies:
        if b.promoted is not None or b is ref[0] or not re.match(r"<?(stream|decode|encode|audio)::", b.path):
            continue
        at = _bps_arm_constants(b)
        if not at or sum(1 for v in at.values() if v) < 2:
            continue
        n += 1
        wrong = {k: sorted(v) for k, v in at.items() if v and rt.get(k) and v != rt[k]}
        rep.check(rule, "%s uses the same bit-count constant per bit-depth code as the plain conversion" % strip_generics(b.path), not wrong, loc_of(b), "",
                  "bit-depth code(s) %s map to a different bit count here than in From<BitsPerSample> for SignedBitCount: %s (conversion: %s) - a side channel of that depth is read / written one size off" % (
                      sorted(wrong), wrong, {k: sorted(rt[k]) for k in wrong}))
    rep.note("bps_constant_tables", n)   # may be 0 when every other function delegates to the conversion


def accept_rules(ctx, F, rep, R):
    """the header code readers refuse their input only for the reviewed reasons: per reader function (closures included) and error, no more
    raise sites than spec/reject_sites.json lists - a further rejection on the parse path is how a valid stream gets refused"""
    inv = ctx.spec("reject_sites.json")["sites"]
    got = {}
    for b in F.bodies:
        if b.promoted is not None or not (b.file.endswith("stream.rs") or b.file.endswith("decode.rs")):
            continue
        top = re.sub(r"(::\{closure#\d+\})+$", "", b.path)
        top = top if top.startswith("<") or top.startswith("stream::<") else strip_generics(top)
        # only the table-like code readers of the frame header: their raise sites are one per reserved code / consistency test.
        # (The subframe and residual readers of decode.rs are ordinary code that refactors split and merge - counting their raise
        # sites reported behaviour-preserving rewrites, so they are left to the path-fact rules C05.* / C03.part.)
        if not (re.match(r"^<stream::(BlockSize|SampleRate|BitsPerSample|ChannelAssignment|FrameNumber|SubframeHeader|SubframeHeaderType|FrameHeader)\b", top) and re.search(r"::(from_reader|try_from)$", top)):
            continue
        for bl in b.blocks:
            if bl["cleanup"]:
                continue
            for st in bl["s"]:
                rv = st["rv"]
                if rv["r"] == "agg" and rv.get("adt") == "Error":
                    got.setdefault((top, rv["var"]), []).append(b.loc(st["sp"]))
    n = 0
    for (top, var), locs in sorted(got.items()):
        want = inv.get(top, {}).get(var, 0)
        n += len(locs)
        if len(locs) <= want:
            rep.ok(R, "%s raises Error::%s at %d reviewed site(s)" % (top, var, len(locs)), locs[0])
        else:
            rep.bad(R, "%s raises Error::%s at more sites than reviewed" % (top, var), locs[-1],
                    "%d raise site(s) of Error::%s in %s, %d reviewed in spec/reject_sites.json: a reader that refuses more than the format's rules refuses some valid stream" % (len(locs), var, top, want))
    rep.floor(R, "raise sites of the header code readers", n, 15)


def run(ctx, rep):
    F = ctx.facts()
    spec = ctx.spec("rfc9639.json")
    T = header_reader_tables(F, rep, "C03.rfc")
    rows = 0
    if "block_size" in T:
        rows += compare_table(rep, "C03.rfc", "block_size", T["block_size"], spec["block_size"]["codes"], 4, loc="src/stream.rs")
    for c in ("subset", "streaminfo"):
        k = "sample_rate:" + c
        if k in T:
            subst = {"streaminfo": ("err", None) if c == "subset" else ("ok", "streaminfo_rate")}
            rows += compare_table(rep, "C03.rfc", k, T[k], spec["sample_rate"]["codes"], 4, subst, "src/stream.rs")
        k = "bit_depth:" + c
        if k in T:
            subst = {"streaminfo": ("err", None) if c == "subset" else ("ok", "streaminfo_bps")}
            rows += compare_table(rep, "C03.rfc", k, T[k], spec["bit_depth"]["codes"], 3, subst, "src/stream.rs")
    if "channels" in T:
        tab = {}
        for code, r in T["channels"].items():
            if r[0] == "ok":
                var, cnt = r[1]
                sem = {"LeftSide": "left_side", "SideRight": "side_right", "MidSide": "mid_side"}.get(var)
                if var == "Independent":
                    tab[code] = ("ok", cnt)
                else:
                    tab[code] = ("ok", sem if cnt == "2" else "%s(count %s)" % (sem, cnt))
            else:
                tab[code] = r
        rows += compare_table(rep, "C03.rfc", "channels", tab, spec["channels"]["codes"], 4, None, "src/stream.rs")

    # ---- subframe type -------------------------------------------------------------------
    b = impl_body(F, r"FromBitStream$", r"^stream::SubframeHeaderType$", "from_reader", rep, "C03.rfc")
    if b is not None:
        st = spec["subframe_type"]
        for (_, code), oc in reader_table(F, b, 6).items():
            r = result_of(oc)
            rows += 1
            if code in st["constant"]:
                want = "SubframeHeaderType::Constant"
            elif code in st["verbatim"]:
                want = "SubframeHeaderType::Verbatim"
            elif st["fixed"]["from"] <= code <= st["fixed"]["to"]:
                want = "SubframeHeaderType::Fixed(%d)" % (code - st["fixed"]["order_minus"])
            elif st["lpc"]["from"] <= code <= st["lpc"]["to"]:
                want = "SubframeHeaderType::Lpc(%d)" % (code - st["lpc"]["order_minus"])
            else:
                want = None
            if want is None:
                rep.check("C03.rfc", "subframe_type code %d rejected" % code, r[0] == "err", loc_of(b), "reserved -> %s" % (r,),
                          "RFC 9639 reserves subframe type %d, reader yields %s" % (code, r))
            else:
                got = show(r[1], 4) if r[0] == "ok" else str(r)
                rep.check("C03.rfc", "subframe_type code %d = %s" % (code, want), got == want, loc_of(b), got,
                          "RFC 9639: subframe type %d is %s, reader yields %s" % (code, want, got))

    # ---- residual coding method (both decoders) ------------------------------------------------
    for path, callee in (("decode::read_residuals", r"read_block$"), ("<stream::Residuals<I> as bitstream_io::FromBitStreamUsing>::from_reader", r"read_partitions$")):
        bs = [x for x in F.bodies if x.promoted is None and (strip_generics(x.path) == path or x.path == path)]
        if len(bs) != 1:
            rep.bad("C03.rfc", "anchor:" + path, "", "function not found")
            continue
        b = bs[0]
        for code in range(4):
            rec = []

            def on_call(pe, env, t, name, args, code=code, rec=rec):
                tm = terminal(t)
                if tm is not None and tm[0] == "read" and tm[1][:1] == ["2"] and not rec:
                    rec.append("read2")
                    return OK(code)
                if re.search(callee, strip_generics(name)):
                    ga = [a for a in t["f"]["args"] if not a.startswith("'")]
                    rec.append(("call", ga[0] if ga else None))
                    return OK(("sym", "partitions"))
                if tm is not None:
                    return OK(UNK)
                return None
            pe = PEval(F, b, on_call)
            r = run_region(pe, {1: ("sym", "reader"), 2: ("sym", "ctx"), 3: ("sym", "residuals")}, 0)
            want = spec["coding_method"]["codes"][str(code)]
            calls = [x for x in rec if isinstance(x, tuple)]
            rows += 1
            if want == "reserved":
                v = r[1].get(0, UNK) if r[0] == "ret" else UNK
                isok = r[0] == "ret" and not calls and isinstance(v, tuple) and v[0] == "adt" and v[2] == "Err"
                rep.check("C03.rfc", "%s coding method %d rejected" % (strip_generics(path), code), isok, loc_of(b), show(v),
                          "reserved residual coding method %d is not rejected (%s, calls %s)" % (code, show(v), calls))
            else:
                isok = len(calls) == 1 and calls[0][1] == str(want)
                rep.check("C03.rfc", "%s coding method %d -> RICE_MAX %s" % (strip_generics(path), code, want), isok, loc_of(b), str(calls),
                          "coding method %d must use escape code / parameter maximum %s, found %s (%s)" % (code, want, calls, r[1] if r[0] == "stop" else ""))

    # ---- escape code comparison uses the type's RICE_MAX --------------------------------------
    b = impl_body(F, r"FromBitStream$", r"^stream::ResidualPartitionHeader<RICE_MAX>$", "from_reader", rep, "C03.rfc")
    if b is not None:
        news = [t for _, t in b.calls() if re.search(r"BitCount::<MAX>::new$", callee_name(t))]
        okn = len(news) == 1 and [a for a in news[0]["f"]["args"]][:2] == ["RICE_MAX", "RICE_MAX"]
        rc = [terminal(t) for _, t in b.calls() if terminal(t)]
        rep.check("C03.rfc", "partition escape code == RICE_MAX (all ones)", okn, loc_of(b), "BitCount::<RICE_MAX>::new::<RICE_MAX>() compared with the parameter; terminals %s" % rc)
        rep.check("C03.rfc", "partition header reads parameter then 5-bit escape width", [x[0] for x in rc] == ["read_count", "read_count"] and rc[0][1] == ["RICE_MAX"] and rc[1][1] == ["31"], loc_of(b), str(rc))

    # ---- LPC precision / shift, both decoders ---------------------------------------------------
    for path in ("decode::read_lpc_subframe", "stream::read_subframe"):
        for b in anchor(F, rep, "C03.rfc", path, multi=True):
            terms = [terminal(t) for _, t in b.calls() if terminal(t)]
            rep.check("C03.rfc", "%s: QLP precision is a 4-bit count (+1), 1111 rejected" % path,
                      ("read_count", ["15"]) in [(m, a) for m, a in terms] and bool([1 for bb, _, _ in error_sites(F, "InvalidQlpPrecision") if bb.path.startswith(b.path)]),
                      loc_of(b), "read_count::<0b1111> + checked_add(1) + InvalidQlpPrecision")
            adds = [t for _, t in b.calls() if re.search(r"BitCount::<MAX>::checked_add$", callee_name(t)) and op_int(t["a"][1]) == 1]
            rep.check("C03.rfc", "%s: precision = field + 1" % path, len(adds) >= 1, loc_of(b))
            rep.check("C03.rfc", "%s: shift is a 5-bit signed field, negative rejected" % path,
                      ("read", ["5", "i32"]) in [(m, a) for m, a in terms] and bool([1 for bb, _, _ in error_sites(F, "NegativeLpcShift") if bb.path.startswith(b.path)]),
                      loc_of(b))

    # ---- subframe header / wasted bits ------------------------------------------------------------
    b = impl_body(F, r"FromBitStream$", r"^stream::SubframeHeader$", "from_reader", rep, "C03.rfc")
    if b is not None:
        terms = [terminal(t) for _, t in b.calls() if terminal(t)]
        rep.check("C03.rfc", "subframe header: pad bit 0, type, wasted flag, unary(k-1)",
                  [m for m, a in terms] == ["read_const", "parse", "read_bit", "read_unary"] and terms[0][1][:2] == ["1", "0"] and terms[3][1] == ["1"],
                  loc_of(b), str(terms))
        adds = [s for bl in b.blocks for s in bl["s"] if s["rv"]["r"] == "bin" and s["rv"]["op"].startswith("Add") and op_int(s["rv"]["b"]) == 1]
        cadds = [t for _, t in b.calls() if re.search(r"<impl u32>::checked_add$", callee_name(t)) and op_int(t["a"][1]) == 1]
        rep.check("C03.rfc", "wasted bits = unary count + 1", len(adds) + len(cadds) == 1, loc_of(b))

    # ---- frame sync ----------------------------------------------------------------------------------
    for b in anchor(F, rep, "C03.rfc", "stream::FrameHeader::parse", multi=True):
        terms = [terminal(t) for _, t in b.calls() if terminal(t)]
        rc = [a for m, a in terms if m == "read_const"]
        rep.check("C03.rfc", "frame sync 0b111111111111100 in 15 bits", rc and rc[0][:2] == [str(spec["sync_bits"]), str(spec["sync_code"])], loc_of(b), str(rc))
        seq = [m + ("<%s>" % a[0] if m.startswith("parse") and a else "") for m, a in terms]
        want = ["read_const", "read_bit", "parse<stream::BlockSize<()>>", "parse_using<stream::SampleRate<()>>", "parse<stream::ChannelAssignment>",
                "parse_using<stream::BitsPerSample>", "skip", "parse<stream::FrameNumber>", "parse_using<stream::BlockSize<u16>>", "parse_using<stream::SampleRate<u32>>", "skip"]
        rep.check("C03.rfc", "frame header field order (sync, strategy, 4 coded fields, reserved bit, coded number, block-size escape, sample-rate escape, CRC-8)",
                  seq == want, loc_of(b), str(seq), "RFC 9639 9.1 field order is %s, reader parses %s" % (want, seq))

    # ---- fixed predictor coefficients ----------------------------------------------------------------
    fc = F.statics.get("stream::SubframeHeaderType::FIXED_COEFFS")
    if fc is None:
        rep.bad("C03.rfc", "anchor:FIXED_COEFFS", "", "constant not found")
    else:
        got = []
        for p in sorted(fc.get("ptrs", []), key=lambda x: x["offset"]):
            raw = bytes.fromhex(p["bytes"])
            got.append(list(struct.unpack("<%dq" % (len(raw) // 8), raw)))
        rep.check("C03.rfc", "FIXED_COEFFS == RFC fixed predictors", got == spec["fixed_predictors"], "src/stream.rs", str(got),
                  "fixed predictor coefficients %s differ from RFC 9639 %s" % (got, spec["fixed_predictors"]))
    rep.floor("C03.rfc", "table rows compared", rows, 120)

    # ---- C03.wide ---------------------------------------------------------------------------------------
    b = anchor(F, rep, "C03.wide", "decode::read_subframes")
    if b is not None:
        wide = [t for _, t in b.calls() if strip_generics(callee_name(t)) == "decode::read_subframe" and t["f"]["args"][0] == "33" and t["f"]["args"][-1] == "i64"]
        narrow_adds = [t for _, t in b.calls() if re.search(r"BitsPerSample::checked_add$", callee_name(t))]
        rep.check("C03.wide", "decode::read_subframes: 3 side-channel arms with a 33-bit (i64) alternative", len(wide) >= 3 and len(narrow_adds) >= 3, loc_of(b),
                  "%d wide read_subframe::<33,_,i64> calls, %d checked_add(1) decisions" % (len(wide), len(narrow_adds)))
        # the wide call is only taken on the None edge of bits_per_sample.checked_add(1)
    b = anchor(F, rep, "C03.wide", "stream::Frame::read_inner")
    if b is not None:
        wide = [t for _, t in b.calls() if (t["f"].get("path") == "bitstream_io::BitRead::parse_using" and targs(t) and targs(t)[0] == "stream::Subframe<i64>")]
        rep.check("C03.wide", "stream::Frame::read_inner: 3 side-channel arms with a Subframe<i64> alternative", len(wide) >= 3, loc_of(b), "%d" % len(wide))
    # wide arms must do their arithmetic in 64 bits: no i32 arithmetic inside a closure that handles the i64 side channel
    if b is not None:
        b2 = anchor(F, rep, "C03.wide", "decode::read_subframes")
        nw = 0
        for cb in F.closures_of(b2) if b2 is not None else []:
            if not any(l["ty"] == "i64" for l in cb.locals[1:]):
                continue
            if not any("i64" in l["ty"] for l in cb.locals[1:cb.j["argc"] + 1]):
                continue
            nw += 1
            narrow = []
            for bl in cb.blocks:
                for st in bl["s"]:
                    if st["rv"]["r"] == "bin" and st["rv"]["op"] in ("Add", "Sub", "Mul", "AddWithOverflow", "SubWithOverflow", "MulWithOverflow", "Shl") and st["rv"].get("ty") == "i32":
                        narrow.append(st["rv"]["op"])
            for _, t in cb.calls():
                if re.search(r"core::num::<impl i32>::(wrapping|checked|saturating|overflowing)_(add|sub|mul|shl|abs)$", callee_name(t)):
                    narrow.append(callee_name(t).rsplit("::", 1)[1])
            rep.check("C03.wide", "33-bit reconstruction in %s is done in 64 bits (no i32 arithmetic before widening)" % strip_generics(cb.path).rsplit("::", 1)[-1] , not narrow, loc_of(cb),
                      "", "wide side-channel reconstruction performs %s on i32 before widening: overflows for loud 32-bit material" % narrow)
        rep.floor("C03.wide", "wide reconstruction closures", nw, 3)
    bps_constant_agreement(F, rep, "C03.wide")
    accept_rules(ctx, F, rep, "C03.accept")
    rb = F.one("decode::read_residuals::read_block")
    rep.check("C03.wide", "read_block is generic over the sample type (i32 and i64 instantiations share one body)", len(rb) == 1, "", "")

    # ---- C03.md5 ------------------------------------------------------------------------------------------
    ok = OkImplies(F, ctx.cg())
    vb = anchor(F, rep, "C03.md5", "decode::verify_reader")
    if vb is not None:
        pf = ok.path_facts(vb)
        for bi, st in agg_sites(vb, "decode::Verified", "MD5Match"):
            f = pf.get(bi, TOP)
            rep.check("C03.md5", "MD5Match only when stored==computed", fact_match(f, "cmp", "^Eq$", "finalize|md5", "md5|finalize"), vb.loc(st["sp"]),
                      "on the equality edge", "MD5Match reachable without digest equality: %s" % fact_str(f))
    from rules import C17
    from okimplies import OkImplies as _OK
    _ok = _OK(F, ctx.cg())
    C17.decoder_depth_rules(F, _ok, rep, "C03")
    C17.decoder_shift_rules(F, _ok, rep, "C03")
    C17.partition_guard_rules(F, _ok, rep, "C03")
    frame_number_reader_rules(F, rep, "C03")
    midside_parity_rules(F, rep, "C03")
    from rules import C05 as _C05
    compose(ctx, rep, "C05", "C03.valid", r"^C05\.(short|eof)$")
    compose(ctx, rep, "C07", "C03.bytes", r"^C07\.width$")
    compose(ctx, rep, "C11", "C03.md5", r"^C11\.sentinel$", key_only=r"from_reader reports md5")
    compose(ctx, rep, "C16", "C03.params", r"^C16\.params$")
