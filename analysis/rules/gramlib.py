"""grammar agreement helpers (engine A2/A3) shared by C11, C17, C03"""
from rules.common import *
from grammar import Grammar, flat

INLINE = lambda n: not re.search(r"^<.* as .*>::(from_reader|to_writer)$", n) and not re.search(r"::(read|read_subset|write|write_subset|read_inner|write_inner)$", n)

# pairs whose two sides are deliberately asymmetric, with the reason
ASYM = {
    "metadata::Block": "the writer emits the block header in front of the body; the reader receives the header as context",
    "metadata::BlockRef<'_>": "write-only view of a block",
    "stream::FrameNumber": "UTF-8 style variable-length number: checked row by row in C02.utf8 / C03.rfc",
    "stream::BitsPerSample": "the reader has a subset (no STREAMINFO) wrapper that forwards to the context reader",
    "stream::BlockSize<()>": "two-stage reader (4-bit code, then escape field); writer side is BlockSize<B> plus FrameHeader::build",
    "stream::BlockSize<u16>": "second stage of the reader; the escape is written by FrameHeader::build (C02.rfc)",
    "stream::BlockSize<B>": "writer of the 4-bit code",
    "stream::SampleRate<()>": "two-stage reader", "stream::SampleRate<u32>": "two-stage reader", "stream::SampleRate<R>": "writer of the 4-bit code",
    "stream::FrameHeader": "reader parses the escapes as nonterminals, the writer emits them inline (checked in C02.rfc escape rules and C16.order)",
}


def pairs(F, prefix):
    out = {}
    for im in F.impls:
        if im["trait"] and re.search(r"bitstream_io::(From|To)BitStream", im["trait"]) and im["self_ty"].startswith(prefix):
            for it in im["items"]:
                if it["name"] in ("from_reader", "to_writer"):
                    b = F.body(it["path"])
                    if b is not None:
                        out.setdefault(im["self_ty"], {}).setdefault(it["name"], []).append(b)
    return out


def _generic_nt(x):
    """a nonterminal whose type is a bare generic parameter (`w.build(track)` inside a helper generic over T that was
    inlined): it stands for whatever type the caller passed, so it matches any nonterminal at the same position"""
    return isinstance(x, tuple) and len(x) == 2 and x[0] == "nt" and isinstance(x[1], str) and re.fullmatch(r"&?(mut )?[A-Z][A-Za-z0-9]{0,2}", x[1]) is not None


def _seq_match(a, b):
    return len(a) == len(b) and all(x == y or (_generic_nt(x) and isinstance(y, tuple) and y[:1] == ("nt",)) or (_generic_nt(y) and isinstance(x, tuple) and x[:1] == ("nt",)) for x, y in zip(a, b))


def _agree(r, w):
    return r == w or (all(any(_seq_match(a, b) for b in w) for a in r) and all(any(_seq_match(a, b) for a in r) for b in w))


def grammar_agreement(ctx, rep, P, prefix, floor, only=None):
    F = ctx.facts()
    G = Grammar(F, inline=INLINE)
    n = 0
    for ty, d in sorted(pairs(F, prefix).items()):
        if only is not None and not re.search(only, ty):
            continue
        r, w = set(), set()
        for b in d.get("from_reader", []):
            r |= flat(G.sigs(b))
        for b in d.get("to_writer", []):
            w |= flat(G.sigs(b))
        if ty in ASYM:
            rep.ok(P + ".gram", "%s: asymmetric by design (%s)" % (ty, ASYM[ty]), "", "")
            continue
        if not r or not w:
            rep.bad(P + ".gram", "%s: reader or writer missing" % ty, "", "type %s has %d reader / %d writer sequences and is not listed as asymmetric" % (ty, len(r), len(w)))
            continue
        n += 1
        b0 = (d.get("from_reader") or d.get("to_writer"))[0]
        rep.check(P + ".gram", "%s: reader and writer use the same bit-field sequences" % ty, _agree(r, w), loc_of(b0), "%d sequence(s), longest %d terminals" % (len(r), max(len(x) for x in r)),
                  "reader-only %s ; writer-only %s" % (sorted(r - w)[:2], sorted(w - r)[:2]))
    rep.floor(P + ".gram", "symmetric (de)serialiser pairs", n, floor)
    return G
