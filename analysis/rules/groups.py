"""entry-point groups (public API), enumerated from the fact base"""
import re
from facts import strip_generics

WRITE_NAMES = re.compile(r"(^|::)(write_blocks|update|update_file|to_writer)$")


def _pub(b):
    return b.promoted is None and b.kind != "Closure" and (b.j.get("reach") or b.j.get("impl_trait"))


def g_dec(F):
    pats = [r"decode::Flac(Byte|Sample|Channel|Stream)Reader::.*", r"<decode::Flac.*", r"decode::verify(_reader)?",
            r"stream::Frame(Header)?::read(_subset)?", r"stream::FrameIterator::.*", r"<stream::FrameIterator.*",
            r"encode::generate_seektable", r"stream::Subframe::decode", r"<decode::.*"]
    return sorted(b.key for b in F.bodies if _pub(b) and any(re.fullmatch(p, strip_generics(b.path)) or re.match(p, b.path) for p in pats))


def g_meta(F):
    out = []
    for b in F.bodies:
        if not _pub(b) or not b.file.startswith("src/metadata"):
            continue
        sp = strip_generics(b.path)
        it = b.j.get("impl_trait") or ""
        if WRITE_NAMES.search(sp) or it.startswith("bitstream_io::ToBitStream"):
            continue
        out.append(b.key)
    return sorted(out)


def g_mw(F):
    out = []
    for b in F.bodies:
        if not _pub(b) or not b.file.startswith("src/metadata"):
            continue
        sp = strip_generics(b.path)
        it = b.j.get("impl_trait") or ""
        if WRITE_NAMES.search(sp) or it.startswith("bitstream_io::ToBitStream") or re.match(r"metadata::BlockList::(insert|update|remove|extract|sort_by|streaminfo_mut|get_mut|get_pair_mut|get_all_mut)$", sp):
            out.append(b.key)
    return sorted(out)


def g_ctor(F):
    out = []
    for b in F.bodies:
        if not _pub(b) or not b.file.endswith("encode.rs"):
            continue
        sp = strip_generics(b.path)
        if re.match(r"encode::Flac(Byte|Sample|Channel)Writer::(new|new_cdda|endian|create|create_cdda)$", sp) or re.match(r"encode::FlacStreamWriter::new$", sp) or re.match(r"encode::Options::", sp) \
                or b.path.startswith("<encode::Options") or b.path.startswith("<encode::SeekTableInterval") or b.path.startswith("<encode::Window"):
            out.append(b.key)
    return sorted(out)


def g_enc(F):
    out = []
    for b in F.bodies:
        if not _pub(b) or not b.file.endswith("encode.rs"):
            continue
        sp = strip_generics(b.path)
        if re.match(r"encode::Flac(Byte|Sample|Channel)Writer::(write|finalize)$", sp) or re.match(r"encode::FlacStreamWriter::(write|write_cdda)$", sp) or re.match(r"<encode::Flac.* as std::(io::Write|ops::Drop)>::", b.path) \
                or re.match(r"<encode::Encoder<W> as std::ops::Drop>::", b.path):
            out.append(b.key)
    return sorted(out)


def g_stream_w(F):
    """structural frame writers (C17)"""
    return sorted(b.key for b in F.bodies if _pub(b) and b.file.endswith("stream.rs") and (re.match(r"stream::Frame(Header)?::write(_subset)?$", strip_generics(b.path)) or (b.j.get("impl_trait") or "").startswith("bitstream_io::ToBitStream")))


GROUPS = {"G_dec": g_dec, "G_meta": g_meta, "G_mw": g_mw, "G_ctor": g_ctor, "G_enc": g_enc, "G_stream_w": g_stream_w}
