"""C01 Encoding is lossless: every finalized stream decodes to exactly its input.

Decided (necessary structural conditions only; this and C20 are the weakest claims):
  C01.tab      writer and reader code tables are mutually inverse (header enums, subframe types, coding method)
  C01.part     the encoder only emits a residual split with exactly 2^order partitions, the layout the decoder derives
               (decoder compares the chunk count with the partition count; encoder filters on the same equality)
  C01.fallback a failed fixed / LPC candidate never fails the subframe: its error is matched and leads to the other
               candidate or to verbatim; errors can only come from the constant / verbatim writers
  C01.pred     the encoder's residual expression and the decoder's prediction are the same sum: most recent sample
               first (rev + zip), products in 64 bits, shift after summation; encoder subtracts (checked), decoder adds
  C01.corr     channel decorrelation: for every channel assignment the encoder emits (which channel, which depth) in the
               slots the decoder reads them from, in both the fast and the exhaustive search; difference = left - right,
               average = (left + right) >> 1; the decoder reads the side channel with one extra bit in the same slot
  C01.zero     the all-zero shortcut of every channel handed to encode_subframe is computed from that channel's own
               samples (sum of magnitudes accumulated over the same iterator / all(== 0)); constant subframes only under it
  C01.fixed    fixed-predictor residuals are iterated differences next - previous; warm-up = channel[0..order]
  C01.wasted   wasted bits = min trailing zeros; the shifted samples, the reduced depth and the header field come from one
               value and reach all four subframe writers together
  C01.slot     encode_frame writes the two stereo subframes in the slot order of the Correlated result (both branches)
  C01.carve    a seek table inserted at finalize takes its total size (block header included) out of the padding, on the
               Some edge of the checked subtraction only: the rewritten metadata never grows over the first frame (shared with C09)
  C01.cache    reusable scratch buffers and bit recorders are cleared before they are refilled
  C01.md5      (see C08/C09) ; C01.panic  engine B over the writers' entry points
  C01.front    the three front-ends feed the encoder and the MD5 with the same little-endian data, cut at whole PCM frames
               (the C08 protocol rules: .front.sib / .front.md5 / .front.trunc)
  C01.resid    Rice parameters stay strictly below the escape code, also when narrowed to the 4-bit method; both folding
               sites use a known form of the zig-zag map
  C01.cast     every narrowing `as` cast in encode / decode / audio / byteorder is shown lossless or audited (castlib)
Not decided: numerical equality of reconstructed samples; LPC quantisation; Rice parameter choice.
"""
from rules.common import *
from rules import auditlib, cachelib
from okimplies import OkImplies, fact_str, TOP

META = {"level": "other", "rule": "inverse code tables, guard parity, error-flow of the candidate fallback, operator signature of the prediction pair, decorrelation slot table via path facts and dataflow origin, clear-before-fill pairing",
        "explanation": "Structural necessary conditions for losslessness; the numerical behaviour is not decided."}

EXPECT = {"LeftSide": [("left", "plain"), ("difference", "plus1")], "SideRight": [("difference", "plus1"), ("right", "plain")],
          "MidSide": [("average", "plain"), ("difference", "plus1")], "Independent": [("left", "plain"), ("right", "plain")]}


def _arm(f):
    arms = [x[1] for x in (f or []) if x[0] == "is" and x[1] in ("LeftSide", "SideRight", "MidSide", "Independent") and "min_by_key" in str(x[2])]
    if arms:
        return arms[0]
    if any(x[0] == "is" and x[1] == "None" and "checked_add" in str(x[2]) for x in (f or [])):
        return "Independent"
    return None


def run(ctx, rep):
    F = ctx.facts()
    ok = OkImplies(F, ctx.cg())
    # ---- C01.tab (shared with C17.tab) -----------------------------------------------------------------
    from rules import C17
    sub = Report("C01")
    # reuse the inversion rows of C17 under the C01 prefix
    import rules.tablelib as tl
    R = tl.header_reader_tables(F, rep, "C01.tab")
    W = tl.header_writer_tables(F, rep, "C01.tab")
    n = 0
    for field, rk in (("block_size", "block_size"), ("sample_rate", "sample_rate:streaminfo"), ("bit_depth", "bit_depth:streaminfo"), ("channels", "channels")):
        for k, d in W.get(field, {}).items():
            code = d["code"]
            got = R.get(rk, {}).get(code) if tl.is_int(code) else None
            n += 1
            if field == "channels":
                good = got is not None and got[0] == "ok" and got[1][0] == d["variant"][2]
            else:
                special = {"Uncommon8.0": "read8+1", "Uncommon16.0": "read16+1", "KHz.0": "read8*1000", "Hz.0": "read16", "DHz.0": "read16*10"}
                want = special.get(d["value"], d["value"])
                good = got is not None and got[0] == "ok" and (str(got[1]) == str(want) or (want == "Streaminfo.0" and str(got[1]).startswith("streaminfo")))
            rep.check("C01.tab", "%s: the decoder reads code of %s back as the same value" % (field, k), good, "src/stream.rs", "code %s -> %s" % (code, got))
    rep.floor("C01.tab", "writer rows inverted", n, 40)

    # ---- C01.part ------------------------------------------------------------------------------------------------
    bp = F.one("encode::write_residuals::best_partitions")
    if not bp:
        rep.bad("C01.part", "anchor:best_partitions", "", "not found")
    else:
        b = bp[0]
        good = False

        def all_cl2(b0):
            out = []
            for c in F.closures_of(b0):
                out.append(c)
                out += all_cl2(c)
            return out
        for cb in all_cl2(b):
            f = ok.closure_bool_facts(cb) if cb.locals[0]["ty"] == "bool" else frozenset()
            if any(x[0] == "cmp" and x[1] == "Eq" and "len" in str(x) for x in f):
                good = True
            # (p.len() == partition_count).then_some(p): the comparison feeds then_some / a branch inside a closure
            for bl in cb.blocks:
                for st_ in bl["s"]:
                    rv = st_["rv"]
                    if rv["r"] == "bin" and rv["op"] == "Eq":
                        sl = backward_slice(cb, rv["a"])["calls"] + backward_slice(cb, rv["b"])["calls"]
                        if any(re.search(r"::len$", callee_name(c)) for c in sl):
                            good = True
        rep.check("C01.part", "encoder keeps a split only if its chunk count equals the partition count it was made for", good, loc_of(b), "",
                  "best_partitions accepts a split whose chunk count differs from 2^order: the decoder rejects the stream")
        wp = F.one("encode::write_residuals::write_partitions")
        if wp:
            il = [t for _, t in wp[0].calls() if re.search(r"::ilog2$", callee_name(t))]
            rep.check("C01.part", "the order written is log2 of the number of partitions written", len(il) == 1, loc_of(wp[0]))
    db = F.one("decode::read_residuals::read_block")
    if db:
        b = db[0]
        ne = [s for bl in b.blocks for s in bl["s"] if s["rv"]["r"] == "bin" and s["rv"]["op"] == "Ne"]
        rep.check("C01.part", "decoder compares the chunk count with the partition count", len(ne) >= 1 and any(eb.path == b.path for eb, _, _ in error_sites(F, "InvalidPartitionOrder")), loc_of(b))
    # block size = predictor order + number of residuals, on both sides
    for path, consumer, argi in (("encode::write_residuals", r"write_residuals::best_partitions$", 1), ("decode::read_residuals::read_block", None, None)):
        bs_ = [x for x in F.bodies if x.promoted is None and x.kind != "Closure" and (x.path == path or strip_generics(x.path) == path)]
        if not bs_:
            rep.bad("C01.part", "anchor:" + path, "", "not found")
        for b in bs_[:1]:
            adds = []
            for bl in b.blocks:
                for st_ in bl["s"]:
                    rv = st_["rv"]
                    if rv["r"] == "bin" and rv["op"].startswith("Add"):
                        ra, rb_ = root_place(b, rv["a"]), root_place(b, rv["b"])
                        sa, sb = backward_slice(b, rv["a"]), backward_slice(b, rv["b"])
                        names = {b.local_name(x["l"]) for x in (ra, rb_) if x is not None and 1 <= x["l"] <= b.j["argc"]}
                        has_len = any(re.search(r"<impl \[T\]>::len$", callee_name(c)) for c in sa["calls"] + sb["calls"])
                        if has_len and names:
                            adds.append((st_, names))
            good = len(adds) >= 1
            if good and consumer:
                cons = [t for _, t in b.calls() if re.search(consumer, callee_name(t))]
                good = bool(cons) and all(any(o.startswith("Add") for o in backward_slice(b, t["a"][argi])["ops"]) for t in cons)
            rep.check("C01.part", "%s: block size = predictor order + number of residuals" % path, good, loc_of(b), "",
                      "the partition layout is computed from a block size that is not `predictor order + residual count`: encoder and decoder cut the residuals differently")
    # both sides cut the residual buffer from the back with block / count
    for path, fn in (("encode::write_residuals::best_partitions", "rchunks"), ("decode::read_residuals::read_block", "rchunks_mut")):
        for b in F.one(path):
            reg = region(F, b)
            rc = [(bb, t) for bb in reg for _, t in bb.calls() if re.search(r"<impl \[T\]>::%s$" % fn, callee_name(t))]
            good = len(rc) == 1
            if good:
                sl = slice_with_captures(F, rc[0][0], rc[0][1]["a"][1])
                good = "Div" in sl["ops"]
                rv = [1 for bb in reg for _, t in bb.calls() if re.search(r"Iterator::rev$", callee_name(t))]
                good = good and len(rv) >= 1
            rep.check("C01.part", "%s: partitions are cut from the back with size block / count and visited front to back" % path, good, loc_of(b))

    # ---- C01.fallback -------------------------------------------------------------------------------------------
    eb = anchor(F, rep, "C01.fallback", "encode::encode_subframe")
    if eb is not None:
        import errdisc
        cand = []
        for bi, t in eb.calls():
            nm = strip_generics(callee_name(t))
            if nm in ("encode::encode_fixed_subframe", "encode::encode_lpc_subframe", "encode::join", "rayon::join"):
                cand.append((bi, t))
        for bi, t in cand:
            l = t["d"]["l"]
            us = errdisc.uses_of(eb, l)
            br = [u for u in us if u[0] == "callarg" and re.search(r"Try>::branch$", callee_name(u[2]))]
            ret = [u for u in us if u[0] == "stmt" and u[2]["d"]["l"] == 0]
            rep.check("C01.fallback", "the result of %s is matched, never propagated with `?` or returned" % strip_generics(callee_name(t)), not br and not ret, loc_of(eb, t), "",
                      "a failing predictor candidate aborts the subframe instead of falling back")
        rep.floor("C01.fallback", "candidate calls in encode_subframe", len(cand), 2)
        vb = [t for _, t in eb.calls() if strip_generics(callee_name(t)) == "encode::encode_verbatim_subframe"]
        rep.check("C01.fallback", "verbatim fallbacks exist (both candidates failed / fixed failed / candidate not smaller)", len(vb) >= 1, loc_of(eb), "%d" % len(vb))
        # the join arms: (Err, Ok) -> lpc ; (Ok, Err) -> fixed : a recorder is only used after ITS encoder returned Ok
        pf = ok.path_facts(eb)
        slot_of = {}
        for bi, t in eb.calls():
            if strip_generics(callee_name(t)) in ("encode::join", "rayon::join"):
                for k, c in enumerate(t["cls"]):
                    cb = F.body(c)
                    for _, ct in (cb.calls() if cb else []):
                        if re.match(r"encode::encode_(fixed|lpc)_subframe$", strip_generics(callee_name(ct))):
                            for a, ty in zip(ct["a"], ct["aty"]):
                                if "BitRecorder" in ty:
                                    cs = capture_source(F, cb, a)
                                    if cs and cs[1]:
                                        for f_ in place_fields(cs[1]):
                                            if f_.endswith("_output"):
                                                slot_of[f_] = "#%d" % k
        nuse = 0
        for bi, bl in enumerate(eb.blocks):
            f = pf.get(bi) or frozenset()
            decided = [x for x in f if x[0] == "is" and x[1] in ("Ok", "Err") and (re.search(r"call:(encode|rayon|rayon_core)::join\(", str(x[2])) or "call:encode::encode_fixed_subframe(" in str(x[2]))]
            if not decided:
                continue
            for st_ in bl["s"]:
                # a recorder is selected by re-borrowing it (&*fixed_output) or by moving the reference (Some(fixed_output))
                if st_["rv"]["r"] == "ref":
                    sel = st_["rv"]["p"]
                elif st_["rv"]["r"] == "use" and op_place(st_["rv"]["o"]) is not None and "BitRecorder" in eb.local_ty(op_place(st_["rv"]["o"])["l"]):
                    sel = op_place(st_["rv"]["o"])
                else:
                    continue
                fl = place_fields(root_place(eb, sel) or {"p": []})
                rec = [x for x in fl if x in ("fixed_output", "lpc_output")]
                if not rec:
                    continue
                rec = rec[-1]
                nuse += 1
                def mine(x):
                    d = str(x[2])
                    if re.search(r"call:(encode|rayon|rayon_core)::join\(", d):
                        return d.endswith(slot_of.get(rec, "#?"))
                    return rec == "fixed_output"
                okk = any(x[1] == "Ok" and mine(x) for x in decided) and not any(x[1] == "Err" and mine(x) for x in decided)
                rep.check("C01.fallback", "%s is selected only on a path where its own encoder returned Ok" % rec, okk, eb.loc(st_["sp"]), "",
                          "%s is used as the subframe although its encoder failed (or the other one's result was tested): a partially written candidate would be emitted; facts: %s" % (rec, fact_str(frozenset(decided))))
        rep.floor("C01.fallback", "candidate selections after the encoders returned", nuse, 1)

    # ---- C01.pred -----------------------------------------------------------------------------------------------
    sigs = {}
    for name, path in (("encoder", "encode::LpcSubframeParameters::encode_residuals"), ("decoder", "decode::predict"), ("structural", "stream::Subframe::decode::predict")):
        for b in anchor(F, rep, "C01.pred", path, multi=True):
            calls = [strip_generics(callee_name(t)).rsplit("::", 1)[-1] for _, t in b.calls()]
            adapt = [c for c in calls if c in ("rev", "zip", "map", "sum", "fold", "iter")]
            shr = [s for bl in b.blocks for s in bl["s"] if s["rv"]["r"] == "bin" and s["rv"]["op"] == "Shr" and s["rv"].get("ty") == "i64"]
            mul64 = False
            for c in [b] + F.closures_of(b):
                for bl in c.blocks:
                    for s in bl["s"]:
                        if s["rv"]["r"] == "bin" and s["rv"]["op"].startswith("Mul") and s["rv"].get("ty") == "i64":
                            mul64 = True
                for _, t in c.calls():
                    if re.search(r"<impl i64>::wrapping_mul$", callee_name(t)):
                        mul64 = True
            # accumulation: an iterator sum / fold, or an explicit accumulator (acc = acc (+) product) inside a loop
            acc_iter = "sum" in adapt or "fold" in adapt
            acc_loop = any(re.search(r"<impl i64>::wrapping_add$", callee_name(t)) for _, t in b.calls()) or \
                any(s["rv"]["r"] == "bin" and s["rv"]["op"].startswith("Add") and s["rv"].get("ty") == "i64" for bl in b.blocks for s in bl["s"])
            # the shift is applied to the accumulated sum, not to the single products
            shift_after = False
            for s in shr:
                sl = backward_slice(b, s["rv"]["a"])
                if any(re.search(r"Iterator>?::(sum|fold)$", callee_name(c)) for c in sl["calls"]) or any(re.search(r"<impl i64>::wrapping_add$", callee_name(c)) for c in sl["calls"]) or any(o.startswith("Add") for o in sl["ops"]):
                    shift_after = True
            sigs[name] = (("rev" in adapt, "zip" in adapt, True, (acc_iter or acc_loop)), mul64, len(shr), shift_after)
            combine = "checked_sub" if name == "encoder" else "wrapping_add"
            has = any(c == combine for c in calls)
            rep.check("C01.pred", "%s: prediction = (sum of sample x coefficient, newest first, in 64 bits) >> shift, combined with %s" % (name, combine),
                      sigs[name] == ((True, True, True, True), True, 1, True) and has, loc_of(b), str(sigs[name]),
                      "%s prediction has signature %s (expected rev+zip+map+sum, 64-bit products, one shift applied after the sum) / %s present: %s" % (name, sigs[name], combine, has))
    if len(sigs) == 3:
        rep.check("C01.pred", "encoder and both decoders use the same prediction expression", len(set(sigs.values())) == 1, "", str(sigs))
    for b in anchor(F, rep, "C01.pred", "encode::LpcSubframeParameters::encode_residuals", multi=True):
        rg = [st_ for bl in b.blocks for st_ in bl["s"] if st_["rv"]["r"] == "agg" and st_["rv"].get("adt") == "std::ops::Range"]
        kinds = []
        for st_ in rg:
            o0, o1 = st_["rv"]["ops"]
            s0, s1 = backward_slice(b, o0), backward_slice(b, o1)
            arith = lambda sl: {o for o in sl["ops"] if o.replace("WithOverflow", "") in ("Add", "Sub", "Mul", "Shl", "Shr")}
            if op_int(o0) == 0 and "order" in s1["fields"] and not arith(s1):
                kinds.append("warmup")
            elif "order" in s0["fields"] and not arith(s0) and any(re.search(r"::len$", callee_name(c)) for c in s1["calls"]) and not arith(s1):
                kinds.append("loop")
            else:
                kinds.append("other")
        rep.check("C01.pred", "encoder: residuals start at sample `order`, warm-up = channel[0..order] (no offset)", sorted(kinds) == ["loop", "warmup"], loc_of(b), str(kinds),
                  "the LPC warm-up slice / residual loop do not split the block at exactly `order`: %s" % kinds)
    # truncation of the prediction to the sample width happens on both sides
    for b in anchor(F, rep, "C01.pred", "encode::LpcSubframeParameters::encode_residuals", multi=True):
        casts = [s for bl in b.blocks for s in bl["s"] if s["rv"]["r"] == "cast" and s["rv"].get("from") == "i64" and s["rv"]["ty"] == "i32"]
        rep.check("C01.pred", "encoder truncates the prediction to 32 bits like the decoder's from_i64", len(casts) == 1, loc_of(b))

    # ---- C01.corr -----------------------------------------------------------------------------------------------------
    cb = anchor(F, rep, "C01.corr", "encode::correlate_channels")
    nrows = 0
    if cb is not None:
        pf = ok.path_facts(cb)
        for bi, bl in enumerate(cb.blocks):
            for s in bl["s"]:
                rv = s["rv"]
                if rv["r"] != "agg" or rv["adt"] != "encode::Correlated":
                    continue
                arrs = [x for k, x in origins(cb, rv["ops"][1]) if k == "agg"]
                arm0 = _arm(pf.get(bi))
                if arm0 is None and len(arrs) > 1:
                    # one Correlated { assignment, channels: match assignment { .. } }: each channel pair is judged on the
                    # edge of the assignment it was built for
                    where = {id(st2["rv"]): bj for bj, bl2 in enumerate(cb.blocks) for st2 in bl2["s"]}
                    groups = [(_arm(pf.get(where.get(id(x)))), [x]) for x in arrs]
                else:
                    groups = [(arm0, arrs)]
                for arm, arrs_ in groups:
                    slots = []
                    for x in arrs_:
                        if True:
                            for o in x["ops"]:
                                src = None
                                depth = "plain"
                                for kk, ch in origins(cb, o):
                                    if kk == "agg" and ch["adt"] == "encode::CorrelatedChannel":
                                        sl = backward_slice(cb, ch["ops"][0])
                                        if "difference_samples" in sl["fields"]:
                                            src = "difference"
                                        elif "average_samples" in sl["fields"]:
                                            src = "average"
                                        elif "[c0/2]" in sl["elems"]:
                                            src = "left"
                                        elif "[c1/2]" in sl["elems"]:
                                            src = "right"
                                        bs = backward_slice(cb, ch["ops"][1])
                                        depth = "plus1" if any(re.search(r"checked_add$", callee_name(c)) for c in bs["calls"]) else "plain"
                                    elif kk == "call" and re.search(r"CorrelatedChannel::independent$", strip_generics(callee_name(ch))):
                                        sl = backward_slice(cb, ch["a"][1])
                                        src = "left" if "[c0/2]" in sl["elems"] else ("right" if "[c1/2]" in sl["elems"] else None)
                                slots.append((src, depth))
                    nrows += 1
                    # the header's channel_assignment operand is the matched value itself
                    rep.check("C01.corr", "fast search: %s emits %s" % (arm, EXPECT.get(arm)), arm in EXPECT and slots == EXPECT[arm], cb.loc(s["sp"]), str(slots),
                              "channel assignment %s is paired with subframes %s, the decoder expects %s" % (arm, slots, EXPECT.get(arm)))
    xb = anchor(F, rep, "C01.corr", "encode::correlate_channels_exhaustive")
    if xb is not None:
        pf = ok.path_facts(xb)

        def cache_of(body, t):
            sl = slice_with_captures(F, body, t["a"][1])
            for name in ("left", "right", "average", "difference"):
                if name + "_cache" in sl["fields"]:
                    return name
            return None

        def resolve(o):
            rp = root_place(xb, o)
            ds = xb.defs().get(rp["l"], [])
            if len(ds) != 1 or ds[0][1] != "T":
                return None
            br = ds[0][2]
            src = [x for k, x in origins(xb, br["a"][0]) if k == "call"]
            if not src:
                return None
            c = src[0]
            nm = strip_generics(callee_name(c))
            if nm == "encode::encode_subframe":
                return cache_of(xb, c)
            if nm == "encode::try_join":
                idx = [e for e in rp["p"] if re.match(r"^\.[01]:$", e)]
                if len(idx) != 1 or len(c["cls"]) != 2:
                    return None
                clb = F.body(c["cls"][int(idx[0][1])])
                if clb is None:
                    return None
                es = [t for _, t in clb.calls() if strip_generics(callee_name(t)) == "encode::encode_subframe"]
                return cache_of(clb, es[0]) if len(es) == 1 else None
            return None
        for bi, bl in enumerate(xb.blocks):
            for s in bl["s"]:
                rv = s["rv"]
                if rv["r"] != "agg" or rv["adt"] != "encode::Correlated":
                    continue
                arm = _arm(pf.get(bi))
                slots = []
                for k, x in origins(xb, rv["ops"][1]):
                    if k == "agg":
                        slots = [resolve(o) for o in x["ops"]]
                nrows += 1
                want = [a for a, _ in EXPECT.get(arm, [])]
                rep.check("C01.corr", "exhaustive search: %s returns the recorders of %s" % (arm, want), arm in EXPECT and slots == want, xb.loc(s["sp"]), str(slots),
                          "channel assignment %s is paired with the recorded subframes %s, the decoder expects %s" % (arm, slots, want))
        # the recorders were encoded with the right depth: difference_cache with bps + 1
        for c in [xb] + F.closures_of(xb):
            for _, t in c.calls():
                if strip_generics(callee_name(t)) == "encode::encode_subframe":
                    which = cache_of(c, t)
                    chs = [x for k, x in origins(c, t["a"][2]) if k == "agg" and x["adt"] == "encode::CorrelatedChannel"]
                    if which and chs:
                        bs = slice_with_captures(F, c, chs[0]["ops"][1])
                        plus1 = any(re.search(r"checked_add$", callee_name(cc)) for cc in bs["calls"])
                        ss = slice_with_captures(F, c, chs[0]["ops"][0])
                        srcok = {"left": "[c0/2]" in ss["elems"], "right": "[c1/2]" in ss["elems"], "average": "average_samples" in ss["fields"], "difference": "difference_samples" in ss["fields"]}[which]
                        rep.check("C01.corr", "exhaustive search: %s recorder encodes the %s samples at %s depth" % (which, which, "bps + 1" if which == "difference" else "bps"),
                                  srcok and plus1 == (which == "difference"), loc_of(c, t))
    rep.floor("C01.corr", "Correlated results classified", nrows, 8)
    # the samples: difference = l - r, average = (l + r) >> 1 in every place they are computed
    for path in ("encode::correlate_channels", "encode::correlate_channels_exhaustive"):
        b0 = anchor(F, rep, "C01.corr", path)
        if b0 is None:
            continue
        subs = adds = 0
        for c in F.closures_of(b0):
            if c.j["argc"] != 2:
                continue
            for _, t in c.calls():
                nm = callee_name(t)
                if re.search(r"<&i32 as std::ops::Sub<&i32>>::sub$", nm):
                    a0, a1 = root_place(c, t["a"][0]), root_place(c, t["a"][1])
                    okord = a0 and a1 and a0["l"] == 2 and a1["l"] == 2 and [e for e in a0["p"] if e.startswith(".")][:1] == [".0:"] and [e for e in a1["p"] if e.startswith(".")][:1] == [".1:"]
                    subs += 1
                    rep.check("C01.corr", "%s: difference is left - right (in that order)" % path, bool(okord), loc_of(c, t))
                if re.search(r"<&i32 as std::ops::Add<&i32>>::add$", nm):
                    adds += 1
                    sh = [s for bl in c.blocks for s in bl["s"] if s["rv"]["r"] == "bin" and s["rv"]["op"] == "Shr" and op_int(s["rv"]["b"]) == 1]
                    rep.check("C01.corr", "%s: average is (left + right) >> 1" % path, len(sh) == 1, loc_of(c, t))
        rep.check("C01.corr", "%s computes difference and average samples" % path, subs >= 2 and adds >= 1, loc_of(b0), "%d subtractions, %d additions" % (subs, adds))
    # decoder side: which slot is read with the extra bit
    rb = anchor(F, rep, "C01.corr", "decode::read_subframes")
    if rb is not None:
        pf = ok.path_facts(rb)
        by_arm = {}
        for bi, t in rb.calls():
            if strip_generics(callee_name(t)) == "decode::read_subframe":
                f = pf.get(bi) or []
                arm = next((x[1] for x in f if x[0] == "is" and x[1] in ("LeftSide", "SideRight", "MidSide")), None)
                if arm is None:
                    continue
                br = next((x[1] for x in f if x[0] == "is" and x[1] in ("Some", "None") and "checked_add" in str(x[2])), "both")
                sl = backward_slice(rb, t["a"][1])
                wide = any(re.search(r"(BitsPerSample|SignedBitCount)::<?.*checked_add$", callee_name(c)) for c in sl["calls"])
                by_arm.setdefault(arm, []).append((bi, wide, br))
        nd = 0
        for arm, want in (("LeftSide", [False, True]), ("SideRight", [True, False]), ("MidSide", [False, True])):
            for br in ("Some", "None"):
                items = [x for x in by_arm.get(arm, []) if x[2] in (br, "both")]
                seq = None
                if len(items) == 2:
                    a, b2 = items
                    seq = [a[1], b2[1]] if rb.dominates(a[0], b2[0]) else [b2[1], a[1]]
                nd += 1
                rep.check("C01.corr", "decoder %s (%s): extra-bit subframe in slot %d" % (arm, "bps < 32" if br == "Some" else "bps = 32", want.index(True)), seq == want, loc_of(rb), str(seq),
                          "decoder reads %s with the extra side bit in %s, the encoder emits it in slot %d" % (arm, seq, want.index(True)))
        rep.floor("C01.corr", "decoder slot rows", nd, 6)

    # ---- C01.zero: the all-zero shortcut of a channel is computed from that very channel --------------------------
    zb = anchor(F, rep, "C01.zero", "encode::correlate_channels")
    nz = 0
    if zb is not None:
        def all_closures(b0):
            out = []
            for c in F.closures_of(b0):
                out.append(c)
                out += all_closures(c)
            return out
        sumclass = {}
        for body in [zb] + all_closures(zb):
            for bi, t in body.calls():
                if not re.search(r"Iterator::inspect$", callee_name(t)):
                    continue
                cls_ = None
                for k, c in origins(body, t["a"][0]):
                    if k != "call":
                        continue
                    if re.search(r"<impl \[T\]>::iter$", callee_name(c)):
                        cs = capture_source(F, body, c["a"][0]) if op_place(c["a"][0]) else None
                        if cs and cs[1]:
                            cls_ = "left" if "[c0/2]" in cs[1]["p"] else "right" if "[c1/2]" in cs[1]["p"] else None
                    elif re.search(r"Iterator::map$", callee_name(c)) and c["cls"]:
                        mb = F.body(c["cls"][0])
                        names = [callee_name(x) for _, x in mb.calls()] if mb else []
                        if any(re.search(r"Sub<&i32>>::sub$", n) for n in names):
                            cls_ = "difference"
                        elif any(re.search(r"Add<&i32>>::add$", n) for n in names):
                            cls_ = "average"
                for k, x in origins(body, t["a"][1]):
                    if k == "agg" and x["ak"] == "closure" and x["ops"]:
                        cs = capture_source(F, body, op_place(x["ops"][0]))
                        if cs and cs[1] is not None and cs[0].path == zb.path and cls_:
                            sumclass.setdefault(cs[1]["l"], set()).add(cls_)
        for bi, bl in enumerate(zb.blocks):
            for st_ in bl["s"]:
                rv = st_["rv"]
                if rv["r"] != "agg" or rv.get("adt") != "encode::CorrelatedChannel":
                    continue
                sl = backward_slice(zb, rv["ops"][0])
                src = "difference" if "difference_samples" in sl["fields"] else "average" if "average_samples" in sl["fields"] else "left" if "[c0/2]" in sl["elems"] else "right" if "[c1/2]" in sl["elems"] else None
                z = rv["ops"][2]
                good, detail = False, ""
                if op_int(z) == 0:
                    good, detail = True, "all_0: false"
                else:
                    for k, x in origins(zb, z):
                        if k == "bin" and x["op"] == "Eq" and 0 in (op_int(x["a"]), op_int(x["b"])):
                            v = x["a"] if op_int(x["b"]) == 0 else x["b"]
                            rp = root_place(zb, v)
                            cl = sumclass.get(rp["l"], set()) if rp else set()
                            detail = "sum of |%s| == 0" % "/".join(sorted(cl))
                            good = cl == {src}
                nz += 1
                rep.check("C01.zero", "fast search: the all-zero flag of the %s channel is derived from the %s samples" % (src, src), good, zb.loc(st_["sp"]), detail,
                          "a channel holding the %s samples is marked all-zero from %s: a non-silent channel would be written as a constant 0 subframe" % (src, detail))
    ib = anchor(F, rep, "C01.zero", "encode::CorrelatedChannel::independent")
    if ib is not None:
        al = [t for _, t in ib.calls() if re.search(r"Iterator::all$|Iterator>::all$", callee_name(t))]
        an_ = [t for _, t in ib.calls() if re.search(r"Iterator::any$|Iterator>::any$", callee_name(t))]
        good = False
        if len(al) == 1 and al[0]["cls"] and not an_:
            cb = F.body(al[0]["cls"][0])
            f = ok.closure_bool_facts(cb) if cb else frozenset()
            good = any(x[0] == "cmp" and x[1] == "Eq" and "const:0" in (str(x[2]), str(x[3])) for x in f)
        elif len(an_) == 1 and an_[0]["cls"] and not al:
            # !any(|s| s != 0)
            cb = F.body(an_[0]["cls"][0])
            f = ok.closure_bool_facts(cb) if cb else frozenset()
            neg = [st_ for bl in ib.blocks for st_ in bl["s"] if st_["rv"]["r"] == "un" and st_["rv"]["op"] == "Not"]
            good = any(x[0] == "cmp" and x[1] == "Ne" and "const:0" in (str(x[2]), str(x[3])) for x in f) and len(neg) == 1
        nz += 1
        rep.check("C01.zero", "independent channel: all-zero flag = every sample == 0", good, loc_of(ib), "",
                  "CorrelatedChannel::independent no longer computes the all-zero flag with all(|s| s == 0)")
    rep.floor("C01.zero", "all-zero flags classified", nz, 6)
    eb0 = F.one("encode::encode_subframe")
    if eb0:
        eb0 = eb0[0]
        pf0 = ok.path_facts(eb0)
        for bi, t in eb0.calls():
            if strip_generics(callee_name(t)) == "encode::encode_constant_subframe":
                f = pf0.get(bi) or frozenset()
                good = any(x[0] == "flag" and x[1] is True and "all_0" in str(x[2]) for x in f) or any(x[0] == "is" and x[1] == "Some" for x in f) or any(x[0] == "cmp" for x in f)
                rep.check("C01.zero", "a constant subframe is written only under the all-zero flag or the all-bits-wasted result", good, loc_of(eb0, t), "", "facts: %s" % fact_str(f))

    from rules import C02
    C02.rice_escape_rules(F, ok, rep, "C01")
    C17.fold_rules(F, rep, "C01")
    C17.decoder_depth_rules(F, ok, rep, "C01")
    C17.decoder_shift_rules(F, ok, rep, "C01")
    from rules import C08
    C08.protocol(ctx, rep, "C01.front")

    # ---- C01.fixed: the encoder's fixed-predictor residuals are iterated differences next - previous ---------------
    fx = anchor(F, rep, "C01.fixed", "encode::encode_fixed_subframe")
    if fx is not None:
        subs = [(bi, t) for bi, t in fx.calls() if re.search(r"<impl i32>::checked_sub$", callee_name(t))]
        zips = [(bi, t) for bi, t in fx.calls() if re.search(r"Iterator::zip$", callee_name(t))]
        good = len(subs) == 1 and len(zips) == 1
        detail = ""
        if good:
            a0, a1 = root_place(fx, subs[0][1]["a"][0]), root_place(fx, subs[0][1]["a"][1])
            i0 = [e for e in a0["p"] if re.match(r"^\.[01]:$", e)]
            i1 = [e for e in a1["p"] if re.match(r"^\.[01]:$", e)]
            zt = zips[0][1]
            # zip(receiver = iterator over the tail after split_at_checked(1), argument = the previous order itself)
            recv = backward_slice(fx, zt["a"][0])
            tail = any(re.search(r"split_at_checked$", callee_name(c)) for c in recv["calls"])
            rr = [root_place(fx, c["a"][0]) for c in recv["calls"] if re.search(r"<impl \[T\]>::iter$", callee_name(c))]
            tail = tail and any(r_ is not None and ".1:" in r_["p"] for r_ in rr)
            arg_prev = not any(re.search(r"split_at_checked$", callee_name(c)) for c in backward_slice(fx, zt["a"][1])["calls"])
            one = [c for c in recv["calls"] if re.search(r"split_at_checked$", callee_name(c))]
            one = bool(one) and op_int(one[0]["a"][1]) == 1
            good = i0 == [".0:"] and i1 == [".1:"] and tail and arg_prev and one
            detail = "checked_sub(item%s, item%s); zip(tail=%s, previous=%s), split at 1: %s" % (i0, i1, tail, arg_prev, one)
        rep.check("C01.fixed", "order k+1 residual = order k [i+1] - order k [i] (next minus previous, checked)", good, loc_of(fx), detail,
                  "the iterated difference of the fixed predictors is not `next - previous` over (tail, whole): the decoder adds the prediction back and gets other samples")
        # warm-up = the first `order` samples of the channel; residuals are the buffer of that order
        wl = [st_ for bl in fx.blocks for st_ in bl["s"] if st_["rv"]["r"] == "agg" and st_["rv"].get("adt") == "std::ops::Range"]
        for c in F.closures_of(fx):
            wl += [("c", c, st_) for bl in c.blocks for st_ in bl["s"] if st_["rv"]["r"] == "agg" and st_["rv"].get("adt") == "std::ops::Range"]
        okw = False
        for w_ in wl:
            if isinstance(w_, tuple):
                _, c, st_ = w_
                if op_int(st_["rv"]["ops"][0]) == 0:
                    e = root_place(c, st_["rv"]["ops"][1])
                    okw = okw or (e is not None and e["l"] == 2)
        rep.check("C01.fixed", "warm-up samples are channel[0..order] for the order chosen by enumerate()", okw, loc_of(fx), "",
                  "the warm-up slice of a fixed subframe is not the first `order` samples")

    # ---- C01.wasted: wasted-bits handling in encode_subframe --------------------------------------------------------
    wb_ = F.one("encode::encode_subframe")
    if wb_:
        wb_ = wb_[0]

        def all_cl(b0):
            out = []
            for c in F.closures_of(b0):
                out.append(c)
                out += all_cl(c)
            return out
        cl_all = all_cl(wb_)
        tf = [t for _, t in wb_.calls() if re.search(r"Iterator::try_fold$", callee_name(t))]
        good = False
        if len(tf) == 1 and tf[0]["cls"]:
            reg = [F.body(tf[0]["cls"][0])] + all_cl(F.body(tf[0]["cls"][0]))
            names = [callee_name(t) for c in reg if c for _, t in c.calls()]
            good = any(re.search(r"<impl i32>::trailing_zeros$", n) for n in names) and any(re.search(r"Ord>::min$|Ord::min$", n) for n in names) and not any(re.search(r"Ord>::max$|Ord::max$", n) for n in names)
        rep.check("C01.wasted", "wasted bits = minimum number of trailing zero bits over the block", good, loc_of(wb_), "",
                  "the wasted-bits count is not the minimum of trailing_zeros over all samples: shifting by more drops set bits")
        # the tuple (channel, bits, wasted) of the shifted arm
        tuples = [(bi, st_) for bi, bl in enumerate(wb_.blocks) for st_ in bl["s"] if st_["rv"]["r"] == "agg" and st_["rv"]["ak"] == "tuple" and len(st_["rv"]["ops"]) == 3]
        tl = {st_["d"]["l"] for _, st_ in tuples}
        rep.check("C01.wasted", "one (samples, bits, wasted) triple feeds all subframe writers", len(tl) == 1 and len(tuples) == 2, loc_of(wb_), str(len(tuples)))
        for bi, st_ in tuples:
            ops = st_["rv"]["ops"]
            if op_int(ops[2]) == 0:
                s0, s1 = backward_slice(wb_, ops[0]), root_place(wb_, ops[1])
                rep.check("C01.wasted", "no wasted bits: original samples and depth, wasted = 0", "samples" in s0["fields"] and s1 is not None and "bits_per_sample" in place_fields(s1), wb_.loc(st_["sp"]))
            else:
                w_root = root_place(wb_, ops[2])
                s0 = backward_slice(wb_, ops[0])
                s1 = backward_slice(wb_, ops[1])
                sub = [c for c in s1["calls"] if re.search(r"SignedBitCount::<MAX>::checked_sub$|checked_sub$", callee_name(c))]
                same = bool(sub) and root_place(wb_, sub[0]["a"][1]) == w_root
                shr = False
                for c in cl_all:
                    for _, t in c.calls():
                        if re.search(r"Shr<u32>>::shr$", callee_name(t)):
                            cs = capture_source(F, c, t["a"][1])
                            shr = cs is not None and cs[1] is not None and cs[1]["l"] == (w_root or {}).get("l")
                rep.check("C01.wasted", "wasted bits: samples shifted right by w, depth reduced by the same w, header carries w", "wasted" in s0["fields"] and same and shr, wb_.loc(st_["sp"]),
                          "", "the shifted samples, the reduced bit depth and the wasted-bits header field are not derived from one value")
        if len(tl) == 1:
            T = next(iter(tl))
            n_enc = 0
            for body in [wb_] + cl_all:
                for _, t in body.calls():
                    nm = strip_generics(callee_name(t))
                    if re.match(r"encode::encode_(fixed|lpc|verbatim)_subframe$", nm):
                        n_enc += 1
                        got = []
                        for a in t["a"][-3:]:
                            if op_place(a) is None:
                                got.append(None)
                                continue
                            cs = capture_source(F, body, a)
                            got.append((cs[1]["l"], [e for e in cs[1]["p"] if e.startswith(".")][:1]) if cs and cs[1] else None)
                        want = [(T, [".0:"]), (T, [".1:"]), (T, [".2:"])]
                        rep.check("C01.wasted", "%s receives the (samples, bits, wasted) triple unchanged" % nm, got == want, loc_of(body, t), "",
                                  "a subframe writer is not handed the shifted samples / reduced depth / wasted count of this block together: %s" % (got,))
            rep.floor("C01.wasted", "subframe writer calls", n_enc, 4)
        # every writer puts its wasted_bps argument into the subframe header
        for nm in ("constant", "verbatim", "fixed", "lpc"):
            for hb in F.one("encode::encode_%s_subframe" % nm):
                hs = [st_ for bl in hb.blocks for st_ in bl["s"] if st_["rv"]["r"] == "agg" and st_["rv"].get("adt") == "stream::SubframeHeader"]
                argc = hb.j["argc"]
                good = len(hs) == 1 and (root_place(hb, hs[0]["rv"]["ops"][1]) or {}).get("l") == argc
                rep.check("C01.wasted", "encode_%s_subframe writes its wasted_bps argument into the subframe header" % nm, good, loc_of(hb))

    # ---- C01.slot: encode_frame emits the two stereo subframes in the slot order of the Correlated result -----------
    fb = anchor(F, rep, "C01.slot", "encode::encode_frame")
    if fb is not None:
        groups = {}
        for bi, t in fb.calls():
            if not re.search(r"BitRecorder::<N, E>::playback$", callee_name(t)):
                continue
            rp = root_place(fb, t["a"][0])
            el = [e for e in rp["p"] if e.startswith("[c")]
            if el:
                groups.setdefault("exhaustive", []).append((bi, int(el[0][2])))
                continue
            ds = [d for d in fb.defs().get(rp["l"], []) if not d[2]["d"]["p"]]
            if len(ds) == 1 and ds[0][1] == "T" and re.search(r"Try>::branch$", callee_name(ds[0][2])):
                rx = root_place(fb, ds[0][2]["a"][0])
                dj = [d for d in fb.defs().get(rx["l"], []) if not d[2]["d"]["p"]]
                tk = [e for e in rx["p"] if re.match(r"^\.[01]:", e)]
                if len(dj) == 1 and dj[0][1] == "T" and strip_generics(callee_name(dj[0][2])) in ("encode::join", "rayon::join") and tk:
                    groups.setdefault("fast", []).append((bi, int(tk[0][1])))
        for g in ("exhaustive", "fast"):
            items = groups.get(g, [])
            good = len(items) == 2
            if good:
                a, b2 = items
                first, second = (a, b2) if fb.dominates(a[0], b2[0]) else (b2, a)
                good = (first[1], second[1]) == (0, 1)
            rep.check("C01.slot", "%s stereo branch plays back slot 0 before slot 1" % g, good, loc_of(fb), str(items),
                      "encode_frame writes the two stereo subframes in the wrong order for the channel assignment in the header: %s" % (items,))
        for bi, t in fb.calls():
            if strip_generics(callee_name(t)) in ("encode::join", "rayon::join") and len(t["cls"]) == 2:
                for k, c in enumerate(t["cls"]):
                    cb = F.body(c)
                    es = [tt for _, tt in cb.calls() if strip_generics(callee_name(tt)) == "encode::encode_subframe"] if cb else []
                    good = False
                    if len(es) == 1:
                        cs = capture_source(F, cb, es[0]["a"][2])
                        good = cs is not None and cs[1] is not None and ("[c%d/2]" % k) in cs[1]["p"]
                    rep.check("C01.slot", "fast stereo branch: task %d encodes slot %d of the Correlated result" % (k, k), good, loc_of(fb, t), "",
                              "the two parallel subframe tasks encode the correlated channels in swapped order")

    # ---- C01.carve: a seek table inserted at finalize must take exactly its own total size (header + body) from the padding
    from rules import C09
    C09.carve_rules(F, ok, rep, "C01")

    # ---- C01.cache / C01.panic -------------------------------------------------------------------------------------------
    from rules import castlib
    rep.floor("C01.cast", "narrowing casts inspected", castlib.cast_audit(ctx, rep, "C01", ["encode.rs", "decode.rs", "audio.rs", "byteorder.rs"]), 8)
    cachelib.cache_rules(ctx, rep, "C01")
    auditlib.panic_audit(ctx, rep, "C01", ["G_enc"], floor_sites=260)
    # families shared with other properties (necessary conditions of a lossless round trip as well)
    from rules import iolib, C03
    iolib.count_rules(ctx, rep, "C01")
    compose(ctx, rep, "C03", "C01.dec", r"^C03\.(wide|rfc)$")
    from rules import C07 as _C07
    compose(ctx, rep, "C07", "C01.conv", r"^C07\.endian$")
    # the frame header writer puts the two optional trailers where the header reader (C03.rfc above) looks for them
    compose(ctx, rep, "C02", "C01.hdr", r"^C02\.rfc$", key_only=r"FrameHeader::build|escape")
