"""C01 Encoding is lossless: every finalized stream decodes to exactly its input.

Decided (necessary structural conditions only; this and C20 are the weakest claims):
  C01.tab      writer and reader code tables are mutually inverse (header enums, subframe types, coding method)
  C01.part     the encoder only emits a residual split with exactly 2^order partitions, the layout the decoder derives
               (decoder compares the chunk count with the partition count; encoder filters on the same equality)
  C01.fallback a failed fixed / LPC candidate never fails the subframe: its error is matched and leads to the other
               candidate or to verbatim; errors can only come from the constant / verbatim writers
  C01.pred     the encoder's residual expression and the decoder's prediction are the same sum: most recent sample
               first (rev + zip), products in 64 bits, shift after summation; encoder subtracts (checked), decoder adds
  C01.corr     channel decorrelation: for every channel assignment the encoder emits (which channel, which depth) in the
               slots the decoder reads them from, in both the fast and the exhaustive search; difference = left - right,
               average = (left + right) >> 1; the decoder reads the side channel with one extra bit in the same slot
  C01.carve    a seek table inserted at finalize takes its total size (block header included) out of the padding, on the
               Some edge of the checked subtraction only: the rewritten metadata never grows over the first frame (shared with C09)
  C01.cache    reusable scratch buffers and bit recorders are cleared before they are refilled
  C01.md5      (see C08/C09) ; C01.panic  engine B over the writers' entry points
Not decided: numerical equality of reconstructed samples; LPC quantisation; Rice parameter choice.
"""
from rules.common import *
from rules import auditlib, cachelib
from okimplies import OkImplies, fact_str, TOP

META = {"level": "other", "rule": "inverse code tables, guard parity, error-flow of the candidate fallback, operator signature of the prediction pair, decorrelation slot table via path facts and dataflow origin, clear-before-fill pairing",
        "explanation": "Structural necessary conditions for losslessness; the numerical behaviour is not decided."}

EXPECT = {"LeftSide": [("left", "plain"), ("difference", "plus1")], "SideRight": [("difference", "plus1"), ("right", "plain")],
          "MidSide": [("average", "plain"), ("difference", "plus1")], "Independent": [("left", "plain"), ("right", "plain")]}


def _arm(f):
    arms = [x[1] for x in (f or []) if x[0] == "is" and x[1] in ("LeftSide", "SideRight", "MidSide", "Independent") and "min_by_key" in str(x[2])]
    if arms:
        return arms[0]
    if any(x[0] == "is" and x[1] == "None" and "checked_add" in str(x[2]) for x in (f or [])):
        return "Independent"
    return None


def run(ctx, rep):
    F = ctx.facts()
    ok = OkImplies(F, ctx.cg())
    # ---- C01.tab (shared with C17.tab) -----------------------------------------------------------------
    from rules import C17
    sub = Report("C01")
    # reuse the inversion rows of C17 under the C01 prefix
    import rules.tablelib as tl
    R = tl.header_reader_tables(F, rep, "C01.tab")
    W = tl.header_writer_tables(F, rep, "C01.tab")
    n = 0
    for field, rk in (("block_size", "block_size"), ("sample_rate", "sample_rate:streaminfo"), ("bit_depth", "bit_depth:streaminfo"), ("channels", "channels")):
        for k, d in W.get(field, {}).items():
            code = d["code"]
            got = R.get(rk, {}).get(code) if tl.is_int(code) else None
            n += 1
            if field == "channels":
                good = got is not None and got[0] == "ok" and got[1][0] == d["variant"][2]
            else:
                special = {"Uncommon8.0": "read8+1", "Uncommon16.0": "read16+1", "KHz.0": "read8*1000", "Hz.0": "read16", "DHz.0": "read16*10"}
                want = special.get(d["value"], d["value"])
                good = got is not None and got[0] == "ok" and (str(got[1]) == str(want) or (want == "Streaminfo.0" and str(got[1]).startswith("streaminfo")))
            rep.check("C01.tab", "%s: the decoder reads code of %s back as the same value" % (field, k), good, "src/stream.rs", "code %s -> %s" % (code, got))
    rep.floor("C01.tab", "writer rows inverted", n, 40)

    # ---- C01.part ------------------------------------------------------------------------------------------------
    bp = F.one("encode::write_residuals::best_partitions")
    if not bp:
        rep.bad("C01.part", "anchor:best_partitions", "", "not found")
    else:
        b = bp[0]
        good = False
        for cb in F.closures_of(b):
            f = ok.closure_bool_facts(cb) if cb.locals[0]["ty"] == "bool" else frozenset()
            if any(x[0] == "cmp" and x[1] == "Eq" and "len" in str(x) for x in f):
                good = True
        rep.check("C01.part", "encoder keeps a split only if its chunk count equals the partition count it was made for", good, loc_of(b), "",
                  "best_partitions accepts a split whose chunk count differs from 2^order: the decoder rejects the stream")
        wp = F.one("encode::write_residuals::write_partitions")
        if wp:
            il = [t for _, t in wp[0].calls() if re.search(r"::ilog2$", callee_name(t))]
            rep.check("C01.part", "the order written is log2 of the number of partitions written", len(il) == 1, loc_of(wp[0]))
    db = F.one("decode::read_residuals::read_block")
    if db:
        b = db[0]
        ne = [s for bl in b.blocks for s in bl["s"] if s["rv"]["r"] == "bin" and s["rv"]["op"] == "Ne"]
        rep.check("C01.part", "decoder compares the chunk count with the partition count", len(ne) >= 1 and any(eb.path == b.path for eb, _, _ in error_sites(F, "InvalidPartitionOrder")), loc_of(b))
    # both sides cut the residual buffer from the back with block / count
    for path, fn in (("encode::write_residuals::best_partitions", "rchunks"), ("decode::read_residuals::read_block", "rchunks_mut")):
        for b in F.one(path):
            reg = region(F, b)
            rc = [(bb, t) for bb in reg for _, t in bb.calls() if re.search(r"<impl \[T\]>::%s$" % fn, callee_name(t))]
            good = len(rc) == 1
            if good:
                sl = slice_with_captures(F, rc[0][0], rc[0][1]["a"][1])
                good = "Div" in sl["ops"]
                rv = [1 for bb in reg for _, t in bb.calls() if re.search(r"Iterator::rev$", callee_name(t))]
                good = good and len(rv) >= 1
            rep.check("C01.part", "%s: partitions are cut from the back with size block / count and visited front to back" % path, good, loc_of(b))

    # ---- C01.fallback -------------------------------------------------------------------------------------------
    eb = anchor(F, rep, "C01.fallback", "encode::encode_subframe")
    if eb is not None:
        import errdisc
        cand = []
        for bi, t in eb.calls():
            nm = strip_generics(callee_name(t))
            if nm in ("encode::encode_fixed_subframe", "encode::encode_lpc_subframe", "encode::join", "rayon::join"):
                cand.append((bi, t))
        for bi, t in cand:
            l = t["d"]["l"]
            us = errdisc.uses_of(eb, l)
            br = [u for u in us if u[0] == "callarg" and re.search(r"Try>::branch$", callee_name(u[2]))]
            ret = [u for u in us if u[0] == "stmt" and u[2]["d"]["l"] == 0]
            rep.check("C01.fallback", "the result of %s is matched, never propagated with `?` or returned" % strip_generics(callee_name(t)), not br and not ret, loc_of(eb, t), "",
                      "a failing predictor candidate aborts the subframe instead of falling back")
        rep.floor("C01.fallback", "candidate calls in encode_subframe", len(cand), 2)
        vb = [t for _, t in eb.calls() if strip_generics(callee_name(t)) == "encode::encode_verbatim_subframe"]
        rep.check("C01.fallback", "verbatim fallbacks exist (both candidates failed / fixed failed / candidate not smaller)", len(vb) >= 1, loc_of(eb), "%d" % len(vb))
        # the join arms: (Err, Ok) -> lpc ; (Ok, Err) -> fixed
        pf = ok.path_facts(eb)

    # ---- C01.pred -----------------------------------------------------------------------------------------------
    sigs = {}
    for name, path in (("encoder", "encode::LpcSubframeParameters::encode_residuals"), ("decoder", "decode::predict"), ("structural", "stream::Subframe::decode::predict")):
        for b in anchor(F, rep, "C01.pred", path, multi=True):
            calls = [strip_generics(callee_name(t)).rsplit("::", 1)[-1] for _, t in b.calls()]
            adapt = [c for c in calls if c in ("rev", "zip", "map", "sum", "fold", "iter")]
            shr = [s for bl in b.blocks for s in bl["s"] if s["rv"]["r"] == "bin" and s["rv"]["op"] == "Shr" and s["rv"].get("ty") == "i64"]
            mul64 = False
            for c in F.closures_of(b):
                for bl in c.blocks:
                    for s in bl["s"]:
                        if s["rv"]["r"] == "bin" and s["rv"]["op"].startswith("Mul") and s["rv"].get("ty") == "i64":
                            mul64 = True
                for _, t in c.calls():
                    if re.search(r"<impl i64>::wrapping_mul$", callee_name(t)):
                        mul64 = True
            # the shift is applied to the accumulated sum (its operand is the sum/fold result)
            shift_after = False
            for s in shr:
                sl = backward_slice(b, s["rv"]["a"])
                if any(re.search(r"Iterator>?::(sum|fold)$", callee_name(c)) for c in sl["calls"]):
                    shift_after = True
            sigs[name] = (("rev" in adapt, "zip" in adapt, "map" in adapt, ("sum" in adapt or "fold" in adapt)), mul64, len(shr), shift_after)
            combine = "checked_sub" if name == "encoder" else "wrapping_add"
            has = any(c == combine for c in calls)
            rep.check("C01.pred", "%s: prediction = (sum of sample x coefficient, newest first, in 64 bits) >> shift, combined with %s" % (name, combine),
                      sigs[name] == ((True, True, True, True), True, 1, True) and has, loc_of(b), str(sigs[name]),
                      "%s prediction has signature %s (expected rev+zip+map+sum, 64-bit products, one shift applied after the sum) / %s present: %s" % (name, sigs[name], combine, has))
    if len(sigs) == 3:
        rep.check("C01.pred", "encoder and both decoders use the same prediction expression", len(set(sigs.values())) == 1, "", str(sigs))
    # truncation of the prediction to the sample width happens on both sides
    for b in anchor(F, rep, "C01.pred", "encode::LpcSubframeParameters::encode_residuals", multi=True):
        casts = [s for bl in b.blocks for s in bl["s"] if s["rv"]["r"] == "cast" and s["rv"].get("from") == "i64" and s["rv"]["ty"] == "i32"]
        rep.check("C01.pred", "encoder truncates the prediction to 32 bits like the decoder's from_i64", len(casts) == 1, loc_of(b))

    # ---- C01.corr -----------------------------------------------------------------------------------------------------
    cb = anchor(F, rep, "C01.corr", "encode::correlate_channels")
    nrows = 0
    if cb is not None:
        pf = ok.path_facts(cb)
        for bi, bl in enumerate(cb.blocks):
            for s in bl["s"]:
                rv = s["rv"]
                if rv["r"] != "agg" or rv["adt"] != "encode::Correlated":
                    continue
                arm = _arm(pf.get(bi))
                slots = []
                for k, x in origins(cb, rv["ops"][1]):
                    if k == "agg":
                        for o in x["ops"]:
                            src = None
                            depth = "plain"
                            for kk, ch in origins(cb, o):
                                if kk == "agg" and ch["adt"] == "encode::CorrelatedChannel":
                                    sl = backward_slice(cb, ch["ops"][0])
                                    if "difference_samples" in sl["fields"]:
                                        src = "difference"
                                    elif "average_samples" in sl["fields"]:
                                        src = "average"
                                    elif "[c0/2]" in sl["elems"]:
                                        src = "left"
                                    elif "[c1/2]" in sl["elems"]:
                                        src = "right"
                                    bs = backward_slice(cb, ch["ops"][1])
                                    depth = "plus1" if any(re.search(r"checked_add$", callee_name(c)) for c in bs["calls"]) else "plain"
                                elif kk == "call" and re.search(r"CorrelatedChannel::independent$", strip_generics(callee_name(ch))):
                                    sl = backward_slice(cb, ch["a"][1])
                                    src = "left" if "[c0/2]" in sl["elems"] else ("right" if "[c1/2]" in sl["elems"] else None)
                            slots.append((src, depth))
                nrows += 1
                # the header's channel_assignment operand is the matched value itself
                rep.check("C01.corr", "fast search: %s emits %s" % (arm, EXPECT.get(arm)), arm in EXPECT and slots == EXPECT[arm], cb.loc(s["sp"]), str(slots),
                          "channel assignment %s is paired with subframes %s, the decoder expects %s" % (arm, slots, EXPECT.get(arm)))
    xb = anchor(F, rep, "C01.corr", "encode::correlate_channels_exhaustive")
    if xb is not None:
        pf = ok.path_facts(xb)

        def cache_of(body, t):
            sl = slice_with_captures(F, body, t["a"][1])
            for name in ("left", "right", "average", "difference"):
                if name + "_cache" in sl["fields"]:
                    return name
            return None

        def resolve(o):
            rp = root_place(xb, o)
            ds = xb.defs().get(rp["l"], [])
            if len(ds) != 1 or ds[0][1] != "T":
                return None
            br = ds[0][2]
            src = [x for k, x in origins(xb, br["a"][0]) if k == "call"]
            if not src:
                return None
            c = src[0]
            nm = strip_generics(callee_name(c))
            if nm == "encode::encode_subframe":
                return cache_of(xb, c)
            if nm == "encode::try_join":
                idx = [e for e in rp["p"] if re.match(r"^\.[01]:$", e)]
                if len(idx) != 1 or len(c["cls"]) != 2:
                    return None
                clb = F.body(c["cls"][int(idx[0][1])])
                if clb is None:
                    return None
                es = [t for _, t in clb.calls() if strip_generics(callee_name(t)) == "encode::encode_subframe"]
                return cache_of(clb, es[0]) if len(es) == 1 else None
            return None
        for bi, bl in enumerate(xb.blocks):
            for s in bl["s"]:
                rv = s["rv"]
                if rv["r"] != "agg" or rv["adt"] != "encode::Correlated":
                    continue
                arm = _arm(pf.get(bi))
                slots = []
                for k, x in origins(xb, rv["ops"][1]):
                    if k == "agg":
                        slots = [resolve(o) for o in x["ops"]]
                nrows += 1
                want = [a for a, _ in EXPECT.get(arm, [])]
                rep.check("C01.corr", "exhaustive search: %s returns the recorders of %s" % (arm, want), arm in EXPECT and slots == want, xb.loc(s["sp"]), str(slots),
                          "channel assignment %s is paired with the recorded subframes %s, the decoder expects %s" % (arm, slots, want))
        # the recorders were encoded with the right depth: difference_cache with bps + 1
        for c in [xb] + F.closures_of(xb):
            for _, t in c.calls():
                if strip_generics(callee_name(t)) == "encode::encode_subframe":
                    which = cache_of(c, t)
                    chs = [x for k, x in origins(c, t["a"][2]) if k == "agg" and x["adt"] == "encode::CorrelatedChannel"]
                    if which and chs:
                        bs = slice_with_captures(F, c, chs[0]["ops"][1])
                        plus1 = any(re.search(r"checked_add$", callee_name(cc)) for cc in bs["calls"])
                        ss = slice_with_captures(F, c, chs[0]["ops"][0])
                        srcok = {"left": "[c0/2]" in ss["elems"], "right": "[c1/2]" in ss["elems"], "average": "average_samples" in ss["fields"], "difference": "difference_samples" in ss["fields"]}[which]
                        rep.check("C01.corr", "exhaustive search: %s recorder encodes the %s samples at %s depth" % (which, which, "bps + 1" if which == "difference" else "bps"),
                                  srcok and plus1 == (which == "difference"), loc_of(c, t))
    rep.floor("C01.corr", "Correlated results classified", nrows, 16)
    # the samples: difference = l - r, average = (l + r) >> 1 in every place they are computed
    for path in ("encode::correlate_channels", "encode::correlate_channels_exhaustive"):
        b0 = anchor(F, rep, "C01.corr", path)
        if b0 is None:
            continue
        subs = adds = 0
        for c in F.closures_of(b0):
            if c.j["argc"] != 2:
                continue
            for _, t in c.calls():
                nm = callee_name(t)
                if re.search(r"<&i32 as std::ops::Sub<&i32>>::sub$", nm):
                    a0, a1 = root_place(c, t["a"][0]), root_place(c, t["a"][1])
                    okord = a0 and a1 and a0["l"] == 2 and a1["l"] == 2 and [e for e in a0["p"] if e.startswith(".")][:1] == [".0:"] and [e for e in a1["p"] if e.startswith(".")][:1] == [".1:"]
                    subs += 1
                    rep.check("C01.corr", "%s: difference is left - right (in that order)" % path, bool(okord), loc_of(c, t))
                if re.search(r"<&i32 as std::ops::Add<&i32>>::add$", nm):
                    adds += 1
                    sh = [s for bl in c.blocks for s in bl["s"] if s["rv"]["r"] == "bin" and s["rv"]["op"] == "Shr" and op_int(s["rv"]["b"]) == 1]
                    rep.check("C01.corr", "%s: average is (left + right) >> 1" % path, len(sh) == 1, loc_of(c, t))
        rep.check("C01.corr", "%s computes difference and average samples" % path, subs >= 2 and adds >= 1, loc_of(b0), "%d subtractions, %d additions" % (subs, adds))
    # decoder side: which slot is read with the extra bit
    rb = anchor(F, rep, "C01.corr", "decode::read_subframes")
    if rb is not None:
        pf = ok.path_facts(rb)
        by_arm = {}
        for bi, t in rb.calls():
            if strip_generics(callee_name(t)) == "decode::read_subframe":
                f = pf.get(bi) or []
                arm = next((x[1] for x in f if x[0] == "is" and x[1] in ("LeftSide", "SideRight", "MidSide")), None)
                if arm is None:
                    continue
                br = next((x[1] for x in f if x[0] == "is" and x[1] in ("Some", "None") and "checked_add" in str(x[2])), "both")
                sl = backward_slice(rb, t["a"][1])
                wide = any(re.search(r"(BitsPerSample|SignedBitCount)::<?.*checked_add$", callee_name(c)) for c in sl["calls"])
                by_arm.setdefault(arm, []).append((bi, wide, br))
        nd = 0
        for arm, want in (("LeftSide", [False, True]), ("SideRight", [True, False]), ("MidSide", [False, True])):
            for br in ("Some", "None"):
                items = [x for x in by_arm.get(arm, []) if x[2] in (br, "both")]
                seq = None
                if len(items) == 2:
                    a, b2 = items
                    seq = [a[1], b2[1]] if rb.dominates(a[0], b2[0]) else [b2[1], a[1]]
                nd += 1
                rep.check("C01.corr", "decoder %s (%s): extra-bit subframe in slot %d" % (arm, "bps < 32" if br == "Some" else "bps = 32", want.index(True)), seq == want, loc_of(rb), str(seq),
                          "decoder reads %s with the extra side bit in %s, the encoder emits it in slot %d" % (arm, seq, want.index(True)))
        rep.floor("C01.corr", "decoder slot rows", nd, 6)

    # ---- C01.carve: a seek table inserted at finalize must take exactly its own total size (header + body) from the padding
    from rules import C09
    C09.carve_rules(F, ok, rep, "C01")

    # ---- C01.cache / C01.panic -------------------------------------------------------------------------------------------
    cachelib.cache_rules(ctx, rep, "C01")
    auditlib.panic_audit(ctx, rep, "C01", ["G_enc"], floor_sites=260)
