"""C02 Encoder output is conforming RFC 9639 FLAC.

Decided:
  C02.rfc     writer-side code tables (block size, sample rate incl. the 8/16-bit escapes and their divisors,
              channel assignment, bit depth, subframe type, coding method, metadata block type) equal RFC 9639
  C02.value   value -> variant selection (TryFrom<u16>/TryFrom<u32>) yields a variant that stands for that value
  C02.crc     CRC-8 / CRC-16 lookup tables equal the tables generated from polynomials 0x07 / 0x8005; update formulas
  C02.fixed   fixed predictor coefficients equal the RFC's
  C02.footer  every success path of the three frame writers passes aligned_writer() -> checksum() -> write_from::<u16>;
              the header writers append the CRC-8
  C02.num     fixed-block-size numbering: blocking_strategy is the constant false in every FrameHeader built by the
              encoder, the frame number is incremented on every success path of encode_frame
  C02.utf8    the coded-number writer's ranges, prefix lengths and continuation bytes equal RFC 9639 9.1.5
  C02.resid   the i32::MIN residual is never handed to the Rice writer; escape code is RICE_MAX
  C02.cache   reusable scratch buffers and recorders are cleared before they are refilled (shared with C01)
  C02.count   the byte / checksum adaptors account the bytes actually transferred (shared with C07/C13/C14)
  C02.cache   reusable scratch buffers and recorders are cleared before they are refilled (shared with C01)
  C02.count   the byte / checksum adaptors account the bytes actually transferred (shared with C07 / C13 / C14)
  (C02.num also requires that nothing can fail after the frame number was advanced: consecutive numbering)
  C02.cast    narrowing `as` casts in stream.rs / crc.rs are shown lossless or audited (castlib): a header field is not truncated on its way out
  C02.enc     the frame encoder's decorrelation, zero/wasted-bit and recorder-slot rules (taken from C01): the side channel written is left - right
Not decided: residual ranges, predictor / wasted-bit semantics, that the decoded PCM equals the input.
"""
from rules.common import *
from rules.tablelib import *
from rules import iolib, cachelib
from okimplies import OkImplies, fact_str, TOP
import struct

META = {
    "level": "other",
    "rule": "conditional constant propagation of every enum variant / representative value through the writer's MIR; comparison with hand-transcribed RFC 9639 tables; evaluated static initialisers vs generated CRC tables; must-pass-through on the frame writers",
    "explanation": "Table agreement of the emitting side against an independent reference plus path rules for checksum emission and frame numbering. Does not decide numerical correctness of residual coding.",
}


def crc_table(poly, bits):
    tab = []
    top = 1 << (bits - 1)
    maskv = (1 << bits) - 1
    for i in range(256):
        c = i << (bits - 8)
        for _ in range(8):
            c = ((c << 1) ^ poly) & maskv if c & top else (c << 1) & maskv
        tab.append(c)
    return tab


def rice_escape_rules(F, ok, rep, P):
    """a Rice parameter equal to the all-ones value is the escape code (RFC 9639 9.2.7.1/2): the encoder may only use
    parameters strictly below it, also when it narrows 5-bit parameters to the 4-bit method"""
    n = 0
    for b in F.bodies:
        if b.promoted is not None or b.kind != "Closure":
            continue
        if b.path.startswith("encode::write_residuals::Partition::<'r, RICE_MAX>::new::{closure") and b.locals[0]["ty"] == "bool":
            f = ok.closure_bool_facts(b)
            cmpf = [x for x in f if x[0] == "cmp"]
            if not cmpf:
                continue
            n += 1
            good = any(x[1] == "Lt" and "arg:" in str(x[2]) and "BitCount::new" in str(x[3]) for x in cmpf) or any(x[1] == "Gt" and "arg:" in str(x[3]) and "BitCount::new" in str(x[2]) for x in cmpf)
            rep.check(P + ".resid", "Partition::new keeps a Rice parameter only if it is strictly below RICE_MAX (the escape code)", good, loc_of(b), str(cmpf),
                      "a Rice parameter equal to the escape code can be emitted: the decoder reads the partition as escaped")
        if b.path.startswith("encode::write_residuals::try_shrink_header::{closure"):
            cm = [st_["rv"]["op"] for bl in b.blocks for st_ in bl["s"] if st_["rv"]["r"] == "bin" and st_["rv"]["op"] in ("Lt", "Le", "Gt", "Ge")]
            if not cm:
                continue        # a closure that only re-wraps the narrowed value
            n += 1
            rep.check(P + ".resid", "try_shrink_header narrows a parameter to the 4-bit method only if it is strictly below the 4-bit escape code", cm == ["Lt"], loc_of(b), str(cm),
                      "parameter 15 can be written with coding method 0, where 15 is the escape code")
    rep.floor(P + ".resid", "Rice parameter range checks", n, 2)


def run(ctx, rep):
    F = ctx.facts()
    cg = ctx.cg()
    spec = ctx.spec("rfc9639.json")
    W = header_writer_tables(F, rep, "C02.rfc")
    rows = 0

    def code_of_value(field, val):
        for c, v in spec[field]["codes"].items():
            if v == val:
                return int(c)
        return None

    # ---- C02.rfc header enums --------------------------------------------------------------------
    for field, special in (("block_size", {"Uncommon8": 6, "Uncommon16": 7}),
                           ("sample_rate", {"Streaminfo": 0, "KHz": 12, "Hz": 13, "DHz": 14}),
                           ("bit_depth", {"Streaminfo": 0})):
        for k, d in W.get(field, {}).items():
            rows += 1
            var = d["variant"][2]
            if var in special:
                want = special[var]
            else:
                want = code_of_value(field, int(d["value"])) if (d["value"] or "").isdigit() else None
            rep.check("C02.rfc", "%s %s -> code %s" % (field, k, want), d["end"] == "ret" and d["code"] == want and d["width"] == str(spec[field]["width"]),
                      "src/stream.rs", "writes %s in %s bits" % (d["code"], d["width"]),
                      "RFC 9639: %s value %s has code %s in %d bits; writer emits %s in %s bits (%s)" % (field, d["value"], want, spec[field]["width"], d["code"], d["width"], d["why"]))
    for k, d in W.get("channels", {}).items():
        rows += 1
        v = d["variant"]
        if v[2] == "Independent":
            n = PEval(F, None)._disc_value(v[4][0]) if False else None
            inner = v[4][0]
            ad = F.adts[inner[1]]
            cnt = [int(x["disc"]) for x in ad["variants"] if x["name"] == inner[2]][0]
            want = code_of_value("channels", cnt)
        else:
            want = code_of_value("channels", {"LeftSide": "left_side", "SideRight": "side_right", "MidSide": "mid_side"}[v[2]])
        rep.check("C02.rfc", "channels %s -> code %s" % (k, want), d["code"] == want and d["width"] == "4", "src/stream.rs", "writes %s" % d["code"],
                  "RFC 9639: channel assignment %s has code %s; writer emits %s" % (k, want, d["code"]))

    # ---- escapes written by FrameHeader::build ------------------------------------------------------
    hb = anchor(F, rep, "C02.rfc", "stream::FrameHeader::build")
    if hb is not None:
        fh = F.adts["stream::FrameHeader"]["variants"][0]["fields"]
        names = [f["name"] for f in fh]

        def header(**kw):
            fs = []
            for n in names:
                fs.append(kw.get(n, ("sym", n)))
            return ("adt", "stream::FrameHeader", "FrameHeader", 0, fs)
        cases = []
        for bs in enum_values(F, "stream::BlockSize"):
            cases.append(("block_size", bs, header(block_size=bs, sample_rate=("adt", "stream::SampleRate", "Hz44100", 9, []))))
        for sr in enum_values(F, "stream::SampleRate"):
            cases.append(("sample_rate", sr, header(sample_rate=sr, block_size=("adt", "stream::BlockSize", "Samples4096", 11, []))))
        for bs in enum_values(F, "stream::BlockSize"):
            if bs[2].startswith("Uncommon"):
                for sr in enum_values(F, "stream::SampleRate"):
                    if sr[2] in ("KHz", "Hz", "DHz"):
                        cases.append(("both", ("tuple", [bs, sr]), header(block_size=bs, sample_rate=sr)))
        base_terms = None
        for field, var, hv in cases:
            rec = []

            def on_call(pe, env, t, name, args, rec=rec):
                tm = terminal(t)
                if tm is not None:
                    rec.append((tm[0], tm[1], [canon(a) for a in args[1:]]))
                    return OK(("tuple", []))
                return None
            pe = PEval(F, hb, on_call)
            r = run_region(pe, {1: ("ref", hv), 2: ("sym", "w")}, 0)
            fixed = rec[:8]
            tail = rec[8:]
            rows += 1
            want_fixed = ["write_const", "write_bit", "build", "build", "build", "build", "pad", "build"]
            rep.check("C02.rfc", "FrameHeader::build %s %s: fixed part" % (field, show(var)),
                      [m for m, a, x in fixed] == want_fixed and fixed[0][1][:2] == [str(spec["sync_bits"]), str(spec["sync_code"])] and fixed[6][2] == ["1"],
                      loc_of(hb), "sync, blocking bit, 4 coded fields, reserved 0 bit, coded number", "header field sequence is %s" % [(m, a) for m, a, x in fixed])
            if field == "both":
                t1 = {"Uncommon8": ("write", "8", "Uncommon8.0-1"), "Uncommon16": ("write", "16", "Uncommon16.0-1")}[var[1][0][2]]
                t2 = {"KHz": ("write", "8", "KHz.0/1000"), "Hz": ("write", "16", "Hz.0"), "DHz": ("write", "16", "DHz.0/10")}[var[1][1][2]]
                got_tail = [(m, a[0], x[0]) for m, a, x in tail]
                rep.check("C02.rfc", "FrameHeader::build %s: block-size escape precedes sample-rate escape" % show(var), r[0] == "ret" and got_tail == [t1, t2], loc_of(hb), str(got_tail),
                          "RFC 9639 9.1: the uncommon block size field comes before the uncommon sample rate field; writer emits %s" % (got_tail,))
                continue
            name = var[2]
            want_tail = {
                ("block_size", "Uncommon8"): [("write", "8", "Uncommon8.0-1")],
                ("block_size", "Uncommon16"): [("write", "16", "Uncommon16.0-1")],
                ("sample_rate", "KHz"): [("write", "8", "KHz.0/1000")],
                ("sample_rate", "Hz"): [("write", "16", "Hz.0")],
                ("sample_rate", "DHz"): [("write", "16", "DHz.0/10")],
            }.get((field, name), [])
            got_tail = [(m, a[0], x[0]) for m, a, x in tail]
            rep.check("C02.rfc", "FrameHeader::build %s %s: escape field %s" % (field, show(var), want_tail), r[0] == "ret" and got_tail == want_tail,
                      loc_of(hb), str(got_tail), "RFC 9639 requires %s after the coded number for %s, writer emits %s (%s)" % (want_tail, show(var), got_tail, r[1] if r[0] == "stop" else ""))

    # ---- C02.value: value -> variant -----------------------------------------------------------------
    tb = impl_body(F, r"^std::convert::TryFrom<u16>$", r"^stream::BlockSize<u16>$", "try_from", rep, "C02.value")
    fv = impl_body(F, r"^std::convert::From<stream::BlockSize<u16>>$", r"^u16$", "from", rep, "C02.value")
    if tb is not None and fv is not None:
        vals = sorted(set(representatives(compare_constants(tb), 0, 65535)) | {1, 15, 16, 17, 100, 255, 256, 257, 4095, 4097, 65535})
        for v in vals:
            (k, out), _ = apply_fn(F, tb, v)
            r = result_of((k, out))
            rows += 1
            if v == 0:
                rep.check("C02.value", "block size 0 rejected", r[0] == "err", loc_of(tb), str(r))
                continue
            if r[0] != "ok":
                rep.bad("C02.value", "block size %d accepted" % v, loc_of(tb), "TryFrom<u16> yields %s" % (r,))
                continue
            var = r[1]
            back = value_of_variant(F, fv, var)
            spec_code = code_of_value("block_size", v)
            name = var[2]
            fits = (spec_code is not None and not name.startswith("Uncommon")) or (spec_code is None and ((name == "Uncommon8" and v <= 256) or (name == "Uncommon16")))
            rep.check("C02.value", "block size %d -> variant standing for %d with a representable escape" % (v, v), back == str(v) and fits, loc_of(tb),
                      "%s" % show(var), "block size %d is coded as %s (value %s): wrong value or escape field too narrow" % (v, show(var), back))
    tb = impl_body(F, r"^std::convert::TryFrom<u32>$", r"^stream::SampleRate<u32>$", "try_from", rep, "C02.value")
    fv = impl_body(F, r"^std::convert::From<stream::SampleRate<u32>>$", r"^u32$", "from", rep, "C02.value")
    if tb is not None and fv is not None:
        vals = sorted(set(representatives(compare_constants(tb), 0, (1 << 20) + 1)) | {1, 999, 1000, 11025, 12000, 37800, 44110, 64000, 254000, 255000, 256000, 65534, 65535, 65536, 65540, 655340, 655350, 655360, 700001, 1048575, 1048576})
        for v in vals:
            (k, out), _ = apply_fn(F, tb, v)
            r = result_of((k, out))
            rows += 1
            if v > spec["limits"]["sample_rate_max"]:
                rep.check("C02.value", "sample rate %d rejected" % v, r[0] == "err", loc_of(tb), str(r))
                continue
            if r[0] != "ok":
                rep.bad("C02.value", "sample rate %d accepted" % v, loc_of(tb), "TryFrom<u32> yields %s" % (r,))
                continue
            var = r[1]
            back = value_of_variant(F, fv, var)
            name = var[2]
            spec_code = code_of_value("sample_rate", v)
            fits = {"KHz": v % 1000 == 0 and v // 1000 < 256, "Hz": v < 65536, "DHz": v % 10 == 0 and v // 10 < 65536, "Streaminfo": True}.get(name, spec_code is not None)
            rep.check("C02.value", "sample rate %d -> variant standing for %d with a representable escape" % (v, v), back == str(v) and fits, loc_of(tb),
                      show(var), "sample rate %d is coded as %s (value %s): wrong value or escape field too narrow" % (v, show(var), back))

    # ---- subframe type / coding method / block type --------------------------------------------------------
    b = impl_body(F, r"ToBitStream$", r"^stream::SubframeHeaderType$", "to_writer", rep, "C02.rfc")
    if b is not None:
        wt = writer_table(F, b, "stream::SubframeHeaderType")
        want = {"SubframeHeaderType::Constant": "0", "SubframeHeaderType::Verbatim": "1", "SubframeHeaderType::Fixed(Fixed.order)": "8+Fixed.order",
                "SubframeHeaderType::Lpc(Lpc.order)": "Lpc.order+31"}
        for k, d in wt.items():
            rows += 1
            terms = d["terminals"]
            got = canon(terms[0][3][0]) if len(terms) == 1 and terms[0][3] else None
            got = {"Add(8,Fixed.order)": "8+Fixed.order"}.get(got, got)
            rep.check("C02.rfc", "subframe type %s -> %s in 6 bits" % (k, want.get(k)), got == want.get(k) and terms[0][1][0] == "6", loc_of(b), str(got),
                      "RFC 9639: %s is coded as %s in 6 bits, writer emits %s" % (k, want.get(k), got))
    wr = anchor(F, rep, "C02.rfc", "encode::write_residuals")
    if wr is not None:
        # coding method constant <-> RICE_MAX of the partitions written after it
        pairs = []
        for bi, t in wr.calls():
            tm = terminal(t)
            if tm and tm[0] == "write" and tm[1][:2] == ["2", "u8"]:
                meth = op_int(t["a"][1])
                # the write_partitions call that follows on the same path
                nxt = [tt for bj, tt in wr.calls() if strip_generics(callee_name(tt)).endswith("write_partitions") and bj in wr.reachable(t["to"])]
                rmax = sorted({tt["f"]["args"][0] for tt in nxt})
                pairs.append((meth, rmax))
        # or the method is handed to write_partitions, which writes it in 2 bits itself
        for bi, t in wr.calls():
            if strip_generics(callee_name(t)).endswith("write_partitions") and len(t["a"]) >= 3:
                wpb = F.body(t["f"].get("res") or "") or (F.one("encode::write_residuals::write_partitions") or [None])[0]
                if wpb is None:
                    continue
                for k, a in enumerate(t["a"]):
                    if op_int(a) is None:
                        continue
                    writes_it = any((terminal(tt) or [None])[0] == "write" and terminal(tt)[1][:2] == ["2", "u8"] and (k + 1) in backward_slice(wpb, tt["a"][1])["args"] for _, tt in wpb.calls())
                    if writes_it:
                        pairs.append((op_int(a), [t["f"]["args"][0]]))
        want = sorted([(0, [str(spec["coding_method"]["codes"]["0"])]), (1, [str(spec["coding_method"]["codes"]["1"])])])
        got = sorted(set((m, tuple(r)) for m, r in pairs))
        okp = all((m == 0 and r == ("15",)) or (m == 1 and r == ("31",)) for m, r in got) and {m for m, r in got} == {0, 1}
        rep.check("C02.rfc", "coding method 0 <-> 4-bit Rice parameters, 1 <-> 5-bit", okp, loc_of(wr), str(got),
                  "residual coding method written does not match the parameter width of the partitions: %s" % (got,))
        rows += len(pairs)
    b = impl_body(F, r"ToBitStream$", r"^metadata::BlockType$", "to_writer", rep, "C02.rfc")
    if b is not None:
        wt = writer_table(F, b, "metadata::BlockType")
        names = {"Streaminfo": "STREAMINFO", "Padding": "PADDING", "Application": "APPLICATION", "SeekTable": "SEEKTABLE", "VorbisComment": "VORBIS_COMMENT", "Cuesheet": "CUESHEET", "Picture": "PICTURE"}
        for k, d in wt.items():
            rows += 1
            var = d["value"][2]
            want = [int(c) for c, n in spec["block_type"]["codes"].items() if n == names.get(var)]
            terms = d["terminals"]
            got = terms[0][3][0] if len(terms) == 1 and terms[0][3] else None
            rep.check("C02.rfc", "metadata block type %s -> %s in 7 bits" % (var, want), want and got == want[0] and terms[0][1][0] == "7", loc_of(b), str(got))
    rep.floor("C02.rfc", "table rows compared", rows, 110)

    # ---- C02.crc -----------------------------------------------------------------------------------------------
    for name, poly, bits, fmt in (("<crc::Crc8 as crc::Checksum>::update::SUMTABLE", spec["crc8_poly"], 8, "B"), ("<crc::Crc16 as crc::Checksum>::update::SUMTABLE", spec["crc16_poly"], 16, "<H")):
        st = F.statics.get(name)
        if st is None or not st.get("pointee_bytes"):
            rep.bad("C02.crc", "anchor:" + name, "src/crc.rs", "lookup table static not found")
            continue
        raw = bytes.fromhex(st["pointee_bytes"])
        got = [x[0] for x in struct.iter_unpack(fmt, raw)]
        want = crc_table(poly, bits)
        diff = [i for i in range(min(len(got), 256)) if got[i] != want[i]]
        rep.check("C02.crc", "CRC-%d table == table of polynomial 0x%x" % (bits, poly), len(got) == 256 and not diff, "src/crc.rs", "256 entries equal",
                  "CRC-%d lookup table differs from the polynomial 0x%x table at indices %s" % (bits, poly, diff[:8]))
    for self_ty, want_ops in (("crc::Crc8", {"BitXor": 1}), ("crc::Crc16", {"BitXor": 2, "Shr": 1, "Shl": 1})):
        b = impl_body(F, r"^crc::Checksum$", "^" + self_ty + "$", "update", rep, "C02.crc")
        if b is None:
            continue
        ops = {}
        consts = []
        for bl in b.blocks:
            for s in bl["s"]:
                if s["rv"]["r"] == "bin" and s["rv"]["op"] in ("BitXor", "Shr", "Shl", "BitAnd", "BitOr", "Add", "Sub"):
                    ops[s["rv"]["op"]] = ops.get(s["rv"]["op"], 0) + 1
                    if s["rv"]["op"] in ("Shr", "Shl"):
                        consts.append((s["rv"]["op"], op_int(s["rv"]["b"])))
        okk = ops == want_ops and all(c == 8 for _, c in consts)
        rep.check("C02.crc", "%s::update formula" % self_ty, okk, loc_of(b), "ops %s shifts %s" % (ops, consts),
                  "update formula changed: operators %s, shift constants %s (expected %s with shifts of 8)" % (ops, consts, want_ops))
    for self_ty in ("crc::Crc8", "crc::Crc16"):
        b = impl_body(F, r"^crc::Checksum$", "^" + self_ty + "$", "valid", rep, "C02.crc")
        if b is not None:
            eqs = [s for bl in b.blocks for s in bl["s"] if s["rv"]["r"] == "bin" and s["rv"]["op"] == "Eq" and op_int(s["rv"]["b"]) == 0]
            rep.check("C02.crc", "%s::valid is (residue == 0)" % self_ty, len(eqs) == 1, loc_of(b))
    # CrcWriter must fold exactly the bytes the inner writer accepted
    for tr, self_re in ((r"^std::io::Write$", r"^crc::CrcWriter<W, C>$"), (r"^std::io::Read$", r"^crc::CrcReader<R, C>$")):
        b = impl_body(F, tr, self_re, "write" if "Write" in tr else "read", rep, "C02.crc")
        if b is not None:
            cl = [b] + F.closures_of(b)
            upd = [1 for c in cl for _, t in c.calls() if (t["f"].get("path") or "").endswith("Checksum::update")]
            rep.check("C02.crc", "%s folds Checksum::update over the transferred bytes" % self_re, len(upd) >= 1, loc_of(b))

    iolib.count_rules(ctx, rep, "C02")
    cachelib.cache_rules(ctx, rep, "C02")
    # the header fields are written from the integers the enums carry: a truncating `as` on the way silently changes the code written
    from rules import castlib
    rep.floor("C02.cast", "narrowing casts inspected", castlib.cast_audit(ctx, rep, "C02", ["stream.rs", "crc.rs"]), 3)

    # ---- C02.fixed -------------------------------------------------------------------------------------------------
    fc = F.statics.get("stream::SubframeHeaderType::FIXED_COEFFS")
    if fc is None:
        rep.bad("C02.fixed", "anchor:FIXED_COEFFS", "", "constant not found")
    else:
        got = []
        for p in sorted(fc.get("ptrs", []), key=lambda x: x["offset"]):
            raw = bytes.fromhex(p["bytes"])
            got.append(list(struct.unpack("<%dq" % (len(raw) // 8), raw)))
        rep.check("C02.fixed", "FIXED_COEFFS == RFC fixed predictors", got == spec["fixed_predictors"], "src/stream.rs", str(got))

    # ---- C02.footer ------------------------------------------------------------------------------------------------------
    nfoot = 0
    for path in ("encode::encode_frame", "encode::FlacStreamWriter::write", "stream::Frame::write_inner"):
        b = anchor(F, rep, "C02.footer", path)
        if b is None:
            continue
        al = call_blocks(b, r"BitWriter::<W, E>::aligned_writer$|::aligned_writer$")
        ck = call_blocks(b, r"CrcWriter::<W, C>::checksum$")
        wf = [(i, t) for i, t in call_blocks(b, r"BitWrite::write_from$") if (targs(t) or [""])[0] == "u16"]
        rets = b.return_blocks()
        ok_sites = [bi for bi, s in agg_sites(b, "std::result::Result", "Ok") if s["d"]["l"] == 0 and not s["d"]["p"]]
        good = len(al) >= 1 and len(ck) >= 1 and len(wf) >= 1
        if good:
            a0, c0, w0 = al[0][0], ck[0][0], wf[0][0]
            good = b.dominates(a0, c0) and b.dominates(c0, w0) and all(b.dominates(w0, o) for o in ok_sites) and len(ok_sites) >= 1
            # the value written is the checksum taken after alignment
            org = origins(b, wf[0][1]["a"][1])
            good = good and any(k == "call" and re.search(r"into$|from$", callee_name(x)) for k, x in org)
        nfoot += 1
        rep.check("C02.footer", "%s: Ok only after aligned_writer -> checksum -> write_from::<u16>" % path, good, loc_of(b),
                  "byte alignment, CRC-16 of everything written so far, then the 16-bit footer dominate every Ok(())",
                  "a success return of %s is reachable without writing the byte-aligned CRC-16 footer" % path)
    rep.floor("C02.footer", "frame writers", nfoot, 3)
    nh = 0
    for path in ("stream::FrameHeader::write", "stream::FrameHeader::write_subset"):
        b = anchor(F, rep, "C02.footer", path)
        if b is None:
            continue
        ic = call_blocks(b, r"CrcWriter::<W, C>::into_checksum$")
        wa = call_blocks(b, r"std::io::Write::write_all$")
        bu = call_blocks(b, r"BitWrite::build(_with)?$")
        if not bu:
            # the header is built by a closure handed to a shared "write through a CRC-8 writer" helper
            for bi_, t_ in b.calls():
                if re.search(r"^std::ops::(FnOnce::call_once|FnMut::call_mut|Fn::call)$", t_["f"].get("path") or ""):
                    for k_, x_ in origins(b, t_["a"][0]):
                        cb_ = F.body(x_.get("adt") or "") if k_ == "agg" and x_.get("ak") == "closure" else None
                        if cb_ is not None and any(re.search(r"BitWrite::build(_with)?$", callee_name(t2)) for _, t2 in cb_.calls()):
                            bu.append((bi_, t_))
        good = len(ic) == 1 and len(wa) == 1 and len(bu) == 1 and b.dominates(bu[0][0], ic[0][0]) and b.dominates(ic[0][0], wa[0][0])
        ok_sites = [bi for bi, s in agg_sites(b, "std::result::Result", "Ok") if s["d"]["l"] == 0]
        good = good and all(b.dominates(wa[0][0], o) for o in ok_sites)
        nh += 1
        rep.check("C02.footer", "%s: header bits -> CRC-8 -> one byte appended before Ok" % path, good, loc_of(b))
    rep.floor("C02.footer", "header writers", nh, 2)

    # ---- C02.num ------------------------------------------------------------------------------------------------------------
    sites = []
    for b in F.bodies:
        if b.promoted is None and b.file.endswith("encode.rs"):
            for bi, s in agg_sites(b, "stream::FrameHeader"):
                sites.append((b, s))
    fields = [f["name"] for f in F.adts["stream::FrameHeader"]["variants"][0]["fields"]]
    bsi = fields.index("blocking_strategy")
    for b, s in sites:
        v = op_int(s["rv"]["ops"][bsi])
        rep.check("C02.num", "FrameHeader built in %s has blocking_strategy = false" % strip_generics(b.path), v == 0, b.loc(s["sp"]),
                  "fixed block size stream: coded number is the frame number", "encoder emits a header with blocking_strategy %s while numbering frames" % v)
    rep.floor("C02.num", "FrameHeader constructions in encode.rs", len(sites), 2)
    b = anchor(F, rep, "C02.num", "encode::encode_frame")
    if b is not None:
        inc = call_blocks(b, r"FrameNumber::try_increment$")
        ok_sites = [bi for bi, s in agg_sites(b, "std::result::Result", "Ok") if s["d"]["l"] == 0 and not s["d"]["p"]]
        rep.check("C02.num", "encode_frame increments the frame number exactly once on every success path",
                  len(inc) == 1 and ok_sites and all(b.dominates(inc[0][0], o) for o in ok_sites), loc_of(b))
        # the number used in the headers is the pre-increment value of the same counter
    b = anchor(F, rep, "C02.num", "stream::FrameNumber::try_increment")
    if b is not None:
        adds = [s for bl in b.blocks for s in bl["s"] if s["rv"]["r"] == "bin" and s["rv"]["op"].startswith("Add") and op_int(s["rv"]["b"]) == 1]
        rep.check("C02.num", "try_increment adds exactly 1", len(adds) == 1, loc_of(b))

    # ---- C02.utf8 -------------------------------------------------------------------------------------------------------------
    b = impl_body(F, r"ToBitStream$", r"^stream::FrameNumber$", "to_writer", rep, "C02.utf8")
    if b is not None:
        pts = set()
        for lo, hi, n in spec["utf8"]:
            pts |= {lo, hi, (lo + hi) // 2}
        pts |= {spec["utf8"][-1][1] + 1}
        for v in sorted(pts):
            rec = []

            def on_call(pe, env, t, name, args, rec=rec):
                tm = terminal(t)
                if tm is not None:
                    rec.append((tm[0], tm[1], args[1:]))
                    return OK(("tuple", []))
                if strip_generics(name).endswith("to_writer::byte"):
                    return None
                return None
            pe = PEval(F, b, on_call)
            pe.inline = r"to_writer::byte$"
            r = run_region(pe, {1: ("ref", ("adt", "stream::FrameNumber", "FrameNumber", 0, [v])), 2: ("sym", "w")}, 0)
            row = [x for x in spec["utf8"] if x[0] <= v <= x[1]]
            if not row:
                ret = r[1].get(0, UNK) if r[0] == "ret" else UNK
                rep.check("C02.utf8", "frame number %d (beyond 36 bits) rejected" % v, isinstance(ret, tuple) and ret[0] == "adt" and ret[2] == "Err" and not rec, loc_of(b), show(ret))
                continue
            n = row[0][2]
            # expected terminals
            exp_unary = 0 if n == 1 else n
            lead_bits = 7 if n == 1 else 7 - n
            okk = r[0] == "ret" and rec and rec[0][0] == "write_unary" and rec[0][1] == ["0"] and rec[0][2][0] == exp_unary
            rest = rec[1:]
            cont = []
            if okk:
                if lead_bits > 0:
                    okk = rest and rest[0][0] == "write" and rest[0][1][0] == str(lead_bits) and rest[0][2][0] == (v >> (6 * (n - 1)))
                    rest = rest[1:]
                if okk and n > 1:
                    okk = len(rest) == 1 and rest[0][0] == "write" and rest[0][1][0] == "8"
                    if okk:
                        arr = rest[0][2][0]
                        vals = arr[1] if isinstance(arr, tuple) and arr[0] == "tuple" else ([arr] if is_int(arr) else None)
                        cont = vals
                        want = [0x80 | ((v >> (6 * i)) & 0x3F) for i in range(n - 2, -1, -1)]
                        okk = vals == want
                elif okk:
                    okk = not rest
            rep.check("C02.utf8", "frame number %d coded in %d byte(s) per RFC 9639 9.1.5" % (v, n), bool(okk), loc_of(b), "terminals %s" % [(m, a, [show(x) for x in xs]) for m, a, xs in rec],
                      "coded number %d: expected unary %d, %d leading payload bits and %d continuation bytes 10xxxxxx; writer emits %s (%s)" % (v, exp_unary, lead_bits, n - 1, [(m, a, [show(x) for x in xs]) for m, a, xs in rec], r[1] if r[0] == "stop" else ""))

    # ---- C02.resid ---------------------------------------------------------------------------------------------------------------
    pn = F.one("encode::write_residuals::Partition::new")
    if not pn:
        rep.bad("C02.resid", "anchor:Partition::new", "", "not found")
    else:
        b = pn[0]
        cont = [t for _, t in b.calls() if re.search(r"<impl \[T\]>::contains$|slice::.*contains$", callee_name(t))]
        hasmin = any(op_int(o) == -2147483648 for bl in b.blocks for s in bl["s"] for o in rv_operands(s["rv"])) or any(
            pb.promoted is not None and any(op_int(o) == -2147483648 for bl in pb.blocks for s in bl["s"] for o in rv_operands(s["rv"])) for pb in F.by_path.get(b.path, []))
        rep.check("C02.resid", "partitions holding a residual of i32::MIN are refused (RFC 9639: residual > -2^31)", bool(cont) and hasmin, loc_of(b),
                  "Partition::new returns None when the slice contains i32::MIN",
                  "nothing keeps a residual of i32::MIN from being Rice-coded")
    b = impl_body(F, r"ToBitStream$", r"^stream::ResidualPartitionHeader<RICE_MAX>$", "to_writer", rep, "C02.resid")
    if b is not None:
        news = [t for _, t in b.calls() if re.search(r"BitCount::<MAX>::new$", callee_name(t))]
        esc = [t for t in news if t["f"]["args"][:2] == ["RICE_MAX", "RICE_MAX"]]
        rep.check("C02.resid", "escape / constant partitions are announced with the all-ones parameter RICE_MAX", len(esc) == 2, loc_of(b), "%d of %d BitCount::new calls" % (len(esc), len(news)))
    rice_escape_rules(F, OkImplies(F, ctx.cg()), rep, "C02")
    from rules import C16
    C16.increment_last_rules(F, rep, "C02.num")
    from rules import C08
    C08.protocol(ctx, rep, "C02.front")
    from rules import C09 as _C09
    compose(ctx, rep, "C09", "C02.layout", r"^C09\.(carve|order|start)$")
    compose(ctx, rep, "C01", "C02.enc", r"^C01\.(corr|zero|slot|wasted|fallback)$")
