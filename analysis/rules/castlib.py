"""narrowing `as` casts: every integer cast to a narrower type (enum discriminant casts excluded) is either shown
lossless by the interval analysis or listed, with a reviewed reason and a multiplicity, in the table below.  A new
unlisted truncating cast in the files that matter to a property is reported: silent truncation of a sample count, byte
offset or length is a classic way to break 'describes the stream truthfully' without failing any test."""
from rules.common import *
from rules import auditlib

W = {'u8': 8, 'u16': 16, 'u32': 32, 'u64': 64, 'usize': 64, 'i8': 8, 'i16': 16, 'i32': 32, 'i64': 64, 'u128': 128, 'i128': 128}
RANGE = {'u8': (0, 255), 'u16': (0, 65535), 'u32': (0, 2**32 - 1), 'i8': (-128, 127), 'i16': (-32768, 32767), 'i32': (-2**31, 2**31 - 1), 'u64': (0, 2**64 - 1), 'i64': (-2**63, 2**63 - 1), 'usize': (0, 2**64 - 1)}

# function | from->to : (count, reason)
ALLOW = {
    "encode::FlacStreamWriter::write|usize->u16": (1, "length of one channel of a frame whose PCM-frame count passed BlockSize::try_from (<= 65535)"),
    "encode::update_md5|i32->i8": (1, "MD5 is defined over the little-endian bytes of the sample at its stored width: truncation to the width is the definition"),
    "encode::update_md5|i32->i16": (1, "as above (16-bit width)"),
    "encode::Encoder::encode|usize->u16": (1, "PCM frames of one block: the front-ends cut blocks of options.block_size (u16) or shorter"),
    "encode::encode_frame|usize->u16": (4, "length of a channel of one block (<= 65535), converted to the header's BlockSize with a checked try_into afterwards"),
    "encode::encode_subframe|usize->u32": (1, "block length <= 65535"),
    "encode::encode_fixed_subframe::{closure}|usize->u8": (1, "fixed predictor order 0..=4 (index into a 5-element ArrayVec)"),
    "encode::LpcSubframeParameters::encode_residuals|i64->i32": (1, "the prediction is truncated to 32 bits exactly as the decoder's from_i64 does (rule C01.pred)"),
    "encode::write_residuals::Partition::new|usize->u16": (1, "partition length <= block length <= 65535"),
    "audio::Frame::to_buf|i32->i8": (1, "8-bit streams: samples fit in i8 (decoded at <= 8 bits)"),
    "audio::Frame::to_buf|i32->i16": (1, "16-bit streams: samples fit in i16"),
    "<byteorder::LittleEndian as byteorder::Endianness>::i24_to_bytes|u32->u8": (3, "byte extraction after shifting: truncation to the low byte is the intent"),
    "<byteorder::BigEndian as byteorder::Endianness>::i24_to_bytes|u32->u8": (3, "byte extraction after shifting"),
    "<crc::Crc16 as crc::Checksum>::update|u16->u8": (1, "table index = high byte xor input: the shift leaves 8 bits"),
    "<i32 as decode::SignedInteger>::from_i64|i64->i32": (1, "FLAC prediction arithmetic is defined modulo the sample width"),
    "decode::read_subframes::{closure}|i64->i32": (4, "33-bit side-channel reconstruction: the result of a valid stream fits 32 bits; wrapping is the documented behaviour for invalid ones"),
    "stream::<impl stream::private::SignedInteger for i32>::from_i64|i64->i32": (1, "as decode::SignedInteger::from_i64"),
    "stream::<impl stream::private::SignedInteger for i64>::to_u32|i64->u32": (1, "residual folding operates on the low 32 bits (a 33-bit side channel residual fits after folding by construction)"),
    "<stream::FrameNumber as bitstream_io::ToBitStream>::to_writer::byte|u64->u8": (1, "masked with 0b111111 before the cast"),
}


def cast_audit(ctx, rep, P, files):
    F = ctx.facts()
    prog = auditlib.program(ctx)
    seen = {}
    n = 0
    for b in F.bodies:
        if b.promoted is not None or not any(b.file.endswith(f) for f in files):
            continue
        an = None
        for bi, bl in enumerate(b.blocks):
            for si, s in enumerate(bl["s"]):
                rv = s["rv"]
                if rv["r"] != "cast" or rv.get("from") not in W or rv.get("ty") not in W or s["sp"].get("exp"):
                    continue
                fr, to = rv["from"], rv["ty"]
                signed_change = fr[0] != to[0] and not (fr[0] == "u" and W[to] > W[fr])
                if not (W[to] < W[fr]):
                    continue
                n += 1
                # interval discharge
                if an is None:
                    an = prog.analysis(b)
                ok_iv = False
                try:
                    st = {"v": dict(an.IN[bi]["v"]), "f": an.IN[bi]["f"]} if bi in an.IN else None
                    if st is not None:
                        for s2 in bl["s"][:si]:
                            if s2["rv"]["r"] == "setdisc":
                                continue
                            dty = an.local_ty(s2["d"]["l"]) if not s2["d"]["p"] else None
                            an.assign(st, s2["d"], an.rvalue(st, s2["rv"], dty))
                        v = an.operand(st, rv["o"])
                        lo, hi = getattr(v, "lo", None), getattr(v, "hi", None)
                        r = RANGE.get(to)
                        ok_iv = r is not None and lo is not None and hi is not None and r[0] <= lo and hi <= r[1]
                except Exception:
                    ok_iv = False
                fn = re.sub(r"\{closure#\d+\}", "{closure}", b.path if b.path.startswith("<") or b.path.startswith("stream::<") else strip_generics(b.path))
                key = "%s|%s->%s" % (fn, fr, to)
                if ok_iv:
                    rep.ok(P + ".cast", "%s lossless (interval)" % key, b.loc(s["sp"]))
                    continue
                seen[key] = seen.get(key, 0) + 1
                a = ALLOW.get(key)
                if a is None or seen[key] > a[0]:
                    rep.bad(P + ".cast", "%s: unaudited narrowing cast" % key, b.loc(s["sp"]),
                            "a value of type %s is truncated to %s with `as` and is neither shown to fit by the interval analysis nor listed in rules/castlib.py: counts, offsets and lengths must be converted with try_from" % (fr, to))
                else:
                    rep.ok(P + ".cast", "%s audited#%d" % (key, seen[key]), b.loc(s["sp"]), a[1])
    return n
