"""length-prefix discipline of the metadata serialisers: a written length / count is the length of the very collection
written right after it; a reader that loops `count` times starts at 0"""
from rules.common import *
import grammar


def _root_key(b, p):
    for _ in range(6):
        if isinstance(p, dict) and "l" not in p and op_place(p) is None:
            return None
        rp = root_place(b, p)
        if rp is None:
            return None
        ds = [d for d in b.defs().get(rp["l"], []) if not d[2]["d"]["p"]]
        if [e for e in rp["p"] if e != "*"] == [] and len(ds) == 1 and ds[0][1] == "T" and ds[0][2]["a"] and \
                re.search(r"::(deref|deref_mut|as_ref|as_slice|as_str|as_bytes|iter|borrow|into_iter)$", callee_name(ds[0][2])):
            p = ds[0][2]["a"][0]
            continue
        return (rp["l"], tuple(place_fields(rp)))
    return None


def length_prefix_rules(ctx, rep, P, prefix="metadata::", floor_w=8, floor_r=3):
    F = ctx.facts()
    nw = nr = 0
    for b in F.bodies:
        if b.promoted is not None or not b.file.startswith("src/metadata"):
            continue
        region_name = b.path
        is_writer = "to_writer" in region_name or "ToBitStream" in region_name
        is_reader = "from_reader" in region_name or "FromBitStream" in region_name
        if not (is_writer or is_reader):
            continue
        if is_writer:
            for bi, t in b.calls():
                tm = grammar.term_of(b, t)
                if tm is None or tm[0] in ("nt", "bytes", "p", "align") or len(t["a"]) < 2:
                    continue
                sl = backward_slice(b, t["a"][-1])
                lens = [c for c in sl["calls"] if re.search(r"(<impl \[T\]>|<impl str>|Vec::<T, A>|String|ArrayVec::<T, CAP>|Contiguous::<MAX, T>|IndexVec::<.*>)::len$", callee_name(c))]
                if len(lens) != 1:
                    continue
                key = _root_key(b, lens[0]["a"][0])
                if key is None:
                    continue
                nw += 1
                # consumers dominated by this write
                good = False
                for bj, t2 in b.calls():
                    if bj == bi or not b.dominates(bi, bj):
                        continue
                    nm = callee_name(t2)
                    if re.search(r"::len$", nm):
                        continue
                    for a in t2["a"]:
                        k2 = _root_key(b, a)
                        if k2 == key:
                            good = True
                        else:
                            # through as_bytes()/iter()/deref chains
                            for c in backward_slice(b, a)["calls"]:
                                if re.search(r"::(as_bytes|iter|as_slice|as_str|deref|as_ref)$", callee_name(c)) and c["a"] and _root_key(b, c["a"][0]) == key:
                                    good = True
                nm_ = "%s(%s)" % (b.path if b.path.startswith("<") else strip_generics(b.path), ".".join(key[1]) or b.local_name(key[0]) or "arg")
                rep.check(P + ".len", "writer %s: the length written is followed by the data it counts" % nm_, good, loc_of(b, t), "",
                          "a length / count field is computed from one collection but a different one is written after it: the reader will mis-frame the block")
        if is_reader:
            for bi, bl in enumerate(b.blocks):
                for s in bl["s"]:
                    rv = s["rv"]
                    if rv["r"] == "agg" and rv.get("adt") == "std::ops::Range":
                        sl = backward_slice(b, rv["ops"][1])
                        if any(grammar.term_of(b, c) is not None for c in sl["calls"]):
                            nr += 1
                            rep.check(P + ".len", "reader %s: loop over a count read from the stream starts at 0" % (b.path if b.path.startswith("<") else strip_generics(b.path)), op_int(rv["ops"][0]) == 0, b.loc(s["sp"]), "",
                                      "an item loop driven by a count field does not run `count` times")
    rep.floor(P + ".len", "length-prefixed writes", nw, floor_w)
    rep.floor(P + ".len", "count-driven reader loops", nr, floor_r)
