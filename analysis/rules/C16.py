"""C16 Raw frame streams are self-describing; the stream reader fabricates no frame.

Decided:
  C16.subset  FlacStreamWriter::write builds every header with write_subset and turns both STREAMINFO-referencing
              codes into NonSubset* errors before anything is written
  C16.gate    FlacStreamReader::read returns a frame only behind the header CRC-8 and the frame CRC-16 gates
  C16.sync    the scan loop only ever consumes input through skip_until(0xFF) and the checksum reader chained after the
              re-inserted 0xFF; the byte peeked after 0xFF is tested with (byte >> 1) == 0b1111100 and is never
              consumed by the scanner itself; a clean end of input is an error
  C16.params  the frame's sample rate / channels / bits-per-sample handed out come from the frame's own header
  C16.count   the frame counter is advanced once per successful write and wraps to 0 when exhausted
  C16.order   header field order (shared with C03.rfc) - the reader reads the escapes in the order the writer emits them
  C16.params  (also) audio::Frame::resize stores bits_per_sample, channels and channel_len on every path to its return
  C16.cast    narrowing `as` casts in stream.rs / crc.rs are shown lossless or audited (castlib)
Not decided: behaviour on arbitrary garbage and buffer splits (value-level).
"""
from rules.common import *
from rules import iolib
from rules.tablelib import *
from okimplies import OkImplies, fact_str, TOP

META = {"level": "other", "rule": "Ok-implies gates, who-may-call inside the scanner, constant checks on the sync test, dataflow origin of the returned parameters",
        "explanation": "Necessary structural conditions for 'every returned frame is one of the written frames'."}


def increment_last_rules(F, rep, P):
    """frame numbers must be consecutive in the stream: the counter may only advance once the frame is completely
    written, i.e. no error exit is reachable after try_increment (other than the increment's own failure)"""
    for path in ("encode::FlacStreamWriter::write", "encode::encode_frame"):
        for b in F.one(path)[:1]:
            inc = [(bi, t) for bi, t in b.calls() if re.search(r"FrameNumber::try_increment$", callee_name(t))]
            if len(inc) != 1:
                rep.bad(P, "%s advances the frame number exactly once" % path, loc_of(b), "%d try_increment calls" % len(inc))
                continue
            start = inc[0][1]["to"]
            # the increment's own `?` (encode_frame) is an allowed exit: skip the from_residual fed by this call's result
            own = set()
            d = inc[0][1]["d"]["l"]
            for bi, t in b.calls():
                if re.search(r"Try>::branch$", callee_name(t)) and op_local(t["a"][0]) == d:
                    for bj, t2 in b.calls():
                        if re.search(r"from_residual$", callee_name(t2)) and b.dominates(bi, bj):
                            rp = root_place(b, t2["a"][0])
                            if rp and rp["l"] == t["d"]["l"]:
                                own.add(bj)
            seen, todo, bad = set(), [start], []
            while todo:
                x = todo.pop()
                if x is None or x in seen or b.blocks[x]["cleanup"]:
                    continue
                seen.add(x)
                bl = b.blocks[x]
                t = bl["t"]
                if t and t["t"] == "call" and re.search(r"from_residual$", callee_name(t)) and x not in own:
                    bad.append(x)
                for st_ in bl["s"]:
                    rv = st_["rv"]
                    if st_["d"]["l"] == 0 and not st_["d"]["p"] and rv["r"] == "agg" and rv.get("adt") == "std::result::Result" and rv.get("var") == "Err":
                        bad.append(x)
                todo += b.succs(x)
            rep.check(P, "%s: nothing can fail after the frame number was advanced" % path, not bad, loc_of(b, inc[0][1]), "",
                      "the frame counter is advanced before the frame is completely validated and written: a rejected or failed write burns a number and the next frame is not consecutive")


def header_order(F, rep, P):
    for b in anchor(F, rep, P, "stream::FrameHeader::parse", multi=True):
        terms = [terminal(t) for _, t in b.calls() if terminal(t)]
        seq = [m + ("<%s>" % a[0] if m.startswith("parse") and a else "") for m, a in terms]
        want = ["read_const", "read_bit", "parse<stream::BlockSize<()>>", "parse_using<stream::SampleRate<()>>", "parse<stream::ChannelAssignment>",
                "parse_using<stream::BitsPerSample>", "skip", "parse<stream::FrameNumber>", "parse_using<stream::BlockSize<u16>>", "parse_using<stream::SampleRate<u32>>", "skip"]
        rep.check(P, "frame header parse order equals the writer's emission order", seq == want, loc_of(b), "", "reader parses %s" % seq)
    for b in anchor(F, rep, P, "stream::FrameHeader::build", multi=True):
        terms = [terminal(t) for _, t in b.calls() if terminal(t)]
        seq = [m + ("<%s>" % a[0] if m in ("build",) and a else "") for m, a in terms][:8]
        want = ["write_const", "write_bit", "build<stream::BlockSize<u16>>", "build<stream::SampleRate<u32>>", "build<stream::ChannelAssignment>", "build<stream::BitsPerSample>", "pad", "build<stream::FrameNumber>"]
        rep.check(P, "frame header build order", seq == want, loc_of(b), "", "writer emits %s" % seq)
        # escape order: block size match precedes sample rate match
        sw = []
        for bi, bl in enumerate(b.blocks):
            for s in bl["s"]:
                if s["rv"]["r"] == "disc":
                    fl = place_fields(s["rv"]["p"])
                    if fl and fl[-1] in ("block_size", "sample_rate"):
                        sw.append((bi, fl[-1]))
        names = [n for _, n in sw]
        # every look at block_size precedes (dominates) every look at sample_rate; either may be examined more than once
        bsz = [bi for bi, n in sw if n == "block_size"]
        srt = [bi for bi, n in sw if n == "sample_rate"]
        rep.check(P, "writer emits the block-size escape before the sample-rate escape", bool(bsz) and bool(srt) and names == ["block_size"] * len(bsz) + ["sample_rate"] * len(srt) and all(b.dominates(bsz[0], x) for x in srt) and not any(b.dominates(y, x) for x in bsz for y in srt), loc_of(b), str(names))


def frame_params_rule(F, rep, R):
    """audio::Frame::resize is how every reader stamps a decoded frame with its header's parameters: each of bits_per_sample,
    channels and channel_len is stored on every path to the return (a store under a condition leaves the previous frame's value)"""
    b = anchor(F, rep, R, "audio::Frame::resize")
    if b is None:
        return
    rets = [bi for bi, bl in enumerate(b.blocks) if bl["t"] and bl["t"]["t"] == "ret"]
    n = 0
    for fld in ("bits_per_sample", "channels", "channel_len"):
        st_blocks = [bi for bi, bl in enumerate(b.blocks) for st in bl["s"] if place_fields(st["d"])[:1] == [fld] and (root_place(b, {"l": st["d"]["l"], "p": []}) or {}).get("l") == 1]
        st_blocks += [bi for bi, bl in enumerate(b.blocks) for st in bl["s"] if st["d"]["l"] == 1 and place_fields(st["d"])[:1] == [fld]]
        n += 1 if st_blocks else 0
        good = bool(st_blocks) and all(must_pass(b, r, st_blocks) for r in rets)
        rep.check(R, "Frame::resize stores %s on every path" % fld, good, loc_of(b), "",
                  "Frame::resize can return without storing %s: a frame whose parameters differ from the previous one's is handed out with the stale value" % fld)
    rep.floor(R, "frame parameters stamped by Frame::resize", n, 3)


def run(ctx, rep):
    F = ctx.facts()
    cg = ctx.cg()
    ok = OkImplies(F, cg)
    ok.some_only = True
    frame_params_rule(F, rep, "C16.params")
    # ---- C16.subset ------------------------------------------------------------------------------
    wb = anchor(F, rep, "C16.subset", "encode::FlacStreamWriter::write")
    if wb is not None:
        reg = region(F, wb)
        hw = [callee_name(t) for bb in reg for _, t in bb.calls() if re.search(r"stream::FrameHeader::write(_subset)?$", callee_name(t))]
        rep.check("C16.subset", "every header of a raw frame is written with write_subset", len(hw) >= 4 and all(h.endswith("write_subset") for h in hw), loc_of(wb), str(hw))
        for var in ("NonSubsetSampleRate", "NonSubsetBitsPerSample"):
            sites = [1 for eb, _, _ in error_sites(F, var) if eb.path.startswith(wb.path)]
            rep.check("C16.subset", "codes that refer to STREAMINFO are refused (%s)" % var, len(sites) >= 1, loc_of(wb), "%d sites" % len(sites))
        # the refusals happen before the first byte is written
        pf = ok.path_facts(wb)
        firstw = [i for i, t in wb.calls() if re.search(r"FrameHeader::write_subset$", callee_name(t))]
        s = ok.summary(wb)
        rep.check("C16.subset", "success implies header and CRC-16 footer were written", fact_match(s, "call-ok", r"write_subset$") and fact_match(s, "call-ok", r"write_from$"), loc_of(wb), "", fact_str(s))
        # Streaminfo variant of SampleRate matched -> Err
        good = False
        for cb in reg:
            pfc = ok.path_facts(cb)
            for bi, st in agg_sites(cb, "Error", "NonSubsetSampleRate"):
                f = pfc.get(bi, TOP)
                if fact_match(f, "is", "^Streaminfo$", None):
                    good = True
        rep.check("C16.subset", "NonSubsetSampleRate is raised on the SampleRate::Streaminfo arm", good, loc_of(wb))
        # ---- C16.count
        increment_last_rules(F, rep, "C16.count")
        inc = call_blocks(wb, r"FrameNumber::try_increment$")
        oks = [bi for bi, st in agg_sites(wb, "std::result::Result", "Ok") if st["d"]["l"] == 0 and not st["d"]["p"]]
        rep.check("C16.count", "frame counter advanced exactly once before every success return", len(inc) == 1 and oks and all(wb.dominates(inc[0][0], o) for o in oks), loc_of(wb))
        dflt = [t for _, t in wb.calls() if re.search(r"FrameNumber as std::default::Default>::default$|Default::default$", callee_name(t)) and "FrameNumber" in t["dty"]]
        rep.check("C16.count", "exhausted counter wraps to the default (0)", len(dflt) == 1, loc_of(wb))
        # the header carries the pre-increment counter
        fn_idx = [f["name"] for f in F.adts["stream::FrameHeader"]["variants"][0]["fields"]].index("frame_number")
        hs = agg_sites(wb, "stream::FrameHeader")
        rep.check("C16.count", "every header carries self.frame_number", len(hs) >= 4 and all("frame_number" in backward_slice(wb, st["rv"]["ops"][fn_idx])["fields"] for _, st in hs), loc_of(wb))

    # ---- C16.gate --------------------------------------------------------------------------------------
    rb = anchor(F, rep, "C16.gate", "decode::FlacStreamReader::read")
    if rb is not None:
        s = ok.summary(rb)
        for crc in ("crc::Crc8", "crc::Crc16"):
            rep.check("C16.gate", "FlacStreamReader::read => valid(%s)" % crc, fact_match(s, "valid", crc + "$"), loc_of(rb), "", "a frame is returned without the %s gate; facts %s" % (crc, fact_str(s)))
        rep.check("C16.gate", "frame samples are decoded (read_subframes) before the frame is returned", fact_match(s, "call-ok", r"decode::read_subframes$"), loc_of(rb))
        from rules import C13
        C13.stream_reader_error_rules(F, ok, rep, "C16.sync")
        # the frame's samples replace (not extend) what the previous call handed out
        clr = [(bi, t) for bi, t in rb.calls() if re.search(r"Vec::<T, A>::clear$", callee_name(t)) and "samples" in place_fields(root_place(rb, t["a"][0]) or {"p": []})]
        ext = [(bi, t) for bi, t in rb.calls() if re.search(r"Extend<.*>>::extend$", callee_name(t)) and "samples" in place_fields(root_place(rb, t["a"][0]) or {"p": []})]
        rep.check("C16.params", "the sample buffer handed out is cleared before the decoded frame is copied into it", len(clr) == 1 and len(ext) == 1 and rb.dominates(clr[0][0], ext[0][0]), loc_of(rb), "",
                  "FlacStreamReader::read appends the decoded frame to the samples of earlier frames: the returned buffer starts with stale data")
        # ---- C16.sync
        sk = [t for _, t in rb.calls() if (t["f"].get("path") or "") == "std::io::BufRead::skip_until"]
        rep.check("C16.sync", "scanner advances with skip_until(0xFF)", len(sk) == 1 and op_int(sk[0]["a"][1]) == 0xFF, loc_of(rb))
        cons = [callee_name(t) for _, t in rb.calls() if (t["f"].get("path") or "") in ("std::io::BufRead::consume", "std::io::Read::read", "std::io::Read::read_exact")]
        rep.check("C16.sync", "the scanner never consumes the peeked byte itself", not cons, loc_of(rb), "", "FlacStreamReader::read consumes input directly (%s): a frame whose first byte follows a stray 0xFF can be lost" % cons)
        import grammar as _g
        mins = []
        for bl in rb.blocks:
            for st in bl["s"]:
                rv = st["rv"]
                if rv["r"] == "bin" and rv["op"] in ("Ge", "Gt", "Eq"):
                    sl = backward_slice(rb, rv["a"])
                    if "PtrMetadata" in sl["ops"] or any(re.search(r"::len$", callee_name(c)) for c in sl["calls"]):
                        k = _g.const_arg(rb, rv["b"])
                        mins.append((rv["op"], k))
        firsts = [t for _, t in rb.calls() if re.search(r"<impl \[T\]>::first$", callee_name(t))]
        one_byte = (("Ge", 1) in mins or (len(firsts) == 1 and not mins)) and all(m in (("Ge", 1), ("Eq", 0)) for m in mins)      # [b, ..] pattern or .first()
        rep.check("C16.sync", "the sync test looks at exactly one buffered byte after 0xFF (it must work however the source splits its reads)", one_byte, loc_of(rb), str(mins),
                  "the scanner requires more than one buffered byte after 0xFF (%s): when a read boundary falls inside the frame header a genuine sync code is skipped and the frame is lost" % mins)
        shr = [t for _, t in rb.calls() if re.search(r"as std::ops::Shr<i32>>::shr$", callee_name(t)) and op_int(t["a"][1]) == 1]
        shr += [st for bl in rb.blocks for st in bl["s"] if st["rv"]["r"] == "bin" and st["rv"]["op"].startswith("Shr") and op_int(st["rv"]["b"]) == 1 and "u8" in (st["rv"].get("ty") or "u8")]
        eqs = [st for bl in rb.blocks for st in bl["s"] if st["rv"]["r"] == "bin" and st["rv"]["op"] in ("Eq", "Ne") and op_int(st["rv"]["b"]) == 0b1111100]
        rep.check("C16.sync", "second sync byte test is (byte >> 1) == 0b1111100", len(shr) == 1 and len(eqs) == 1, loc_of(rb))
        # the checksum reader starts with the re-inserted 0xFF
        prom_ff = False
        owner = rb.path.rsplit("::", 1)[0]
        for pb in F.bodies:
            # promoted constants of the function, or of a helper of the same impl that was inlined into it
            if pb.promoted is not None and (pb.path == rb.path or (pb.path.rsplit("::", 1)[0] == owner and F.body(pb.path) is None)):
                for bl in pb.blocks:
                    for st in bl["s"]:
                        if any(op_int(o) == 0xFF for o in rv_operands(st["rv"])):
                            prom_ff = True
        chain = [t for _, t in rb.calls() if (t["f"].get("path") or "") == "std::io::Read::chain"]
        rep.check("C16.sync", "CRC readers see the consumed 0xFF again (from_ref(&0xFF).chain(reader))", prom_ff and len(chain) == 1, loc_of(rb))
        eof = [1 for bi, st in agg_sites(rb, "std::io::ErrorKind", "UnexpectedEof")]
        rep.check("C16.sync", "end of input while scanning is an UnexpectedEof error", len(eof) == 1, loc_of(rb))
        # ---- C16.params
        fb = agg_sites(rb, "decode::FrameBuf")
        fnames = [f["name"] for f in F.adts["decode::FrameBuf"]["variants"][0]["fields"]]
        for bi, st in fb:
            for fld, src in (("sample_rate", "sample_rate"), ("channels", "channel_assignment"), ("bits_per_sample", "bits_per_sample")):
                sl = backward_slice(rb, st["rv"]["ops"][fnames.index(fld)])
                rep.check("C16.params", "FrameBuf.%s comes from this frame's header" % fld, src in sl["fields"], rb.loc(st["sp"]))
            sl = backward_slice(rb, st["rv"]["ops"][fnames.index("samples")])
            rep.check("C16.params", "FrameBuf.samples is the reader's own sample buffer", "samples" in sl["fields"], rb.loc(st["sp"]))
        rep.floor("C16.params", "FrameBuf constructions", len(fb), 1)
        hs = [t for _, t in rb.calls() if re.search(r"FrameHeader::read(_subset)?$", callee_name(t))]
        rep.check("C16.gate", "headers of a raw stream are parsed with read_subset (self-describing)", len(hs) == 1 and callee_name(hs[0]).endswith("read_subset"), loc_of(rb))
    # ---- C16.order ----------------------------------------------------------------------------------------------
    header_order(F, rep, "C16.order")
    iolib.count_rules(ctx, rep, "C16")
    from rules import cachelib
    cachelib.cache_rules(ctx, rep, "C16")
    # the header fields are written from the integers the enums carry: a truncating `as` on the way silently changes the code written
    from rules import castlib
    rep.floor("C16.cast", "narrowing casts inspected", castlib.cast_audit(ctx, rep, "C16", ["stream.rs", "crc.rs"]), 3)
    from rules import C03 as _C03
    compose(ctx, rep, "C03", "C16.codes", r"^C03\.rfc$")
    # FlacStreamWriter shares the frame encoder: a frame that decodes to other samples than were written is a frame that
    # was never written
    compose(ctx, rep, "C01", "C16.enc", r"^C01\.(corr|zero|slot|wasted|fallback)$")
