"""C11 Metadata blocks survive a write/read round trip and report their sizes correctly.

Decided:
  C11.gram   for every metadata (de)serialiser pair the reader and the writer denote the same set of bit-field sequences
             along their success paths (widths, order, nonterminals, padding, little-endian length fields)
  C11.size   a block's reported size is the bit count of its own serialiser (bits::<BlockBits>() of the same impl),
             capped at 2^24 - 1 bytes and divided by 8; declared constants equal the grammar's sums
  C11.frame  block framing: the writer flags a block last exactly when none follows, the reader stops on that flag,
             accepts a block only when its parser consumed exactly the declared size, and clamps reads to that size
  C11.sentinel values the format reserves for "absent" (seek point placeholder marker, all-zero MD5) are not written as present values; the STREAMINFO reader
             reports "no digest" exactly for the all-zero field
  C11.isrc   an ISRC parsed from text has exactly the 12 characters of its on-disk field; the validated, dash-stripped text is stored
  C11.len    every length / count prefix is the length of the very collection written after it, and the reader
             reads exactly that many items (ranges start at 0)
  C11.uniq   the reader and the writer enforce the same single-instance rules, each flag tested and set consistently
  C11.contig the incremental (try_push) and the batch (TryFrom<Vec>) constructor of Contiguous apply the same two adjacency
             tests (valid_first on the first item, is_next on the others); nothing else builds a non-empty Contiguous
  C11.trunc  no length / count field is written through a truncating cast
  C11.tab    block type and picture type tables are inverse (C02/C03 check them against the RFC)
  C11.panic  engine B over the metadata writer entry points
  C11.inv    every construction of BlockSize / BlockBits is bounded by the 24-bit limit (shared with C10)
  C11.contig (also) the two halves of a struct's Adjacent impl (valid_first / is_next) examine the same fields of self
  C11.frame  (also) every block handed to write_blocks is written: no filter / skip / take on the list
  C11.upd    updating a file rewinds to where its blocks were read and opens it without truncation (taken from C10)
Not decided: value equality after a round trip.
"""
from rules.common import *
from rules import auditlib, gramlib
from rules.tablelib import *
from okimplies import OkImplies, fact_str, TOP
from panics import INT_BITS

META = {"level": "other", "rule": "path grammars of reader/writer pairs; dataflow rules on size accounting; flag pairing in the uniqueness checks; truncating-cast lint; panic-site audit",
        "explanation": "Reader/writer agreement is decided structurally for all values at once; value equality is not decided."}


def const_val(b, o):
    v = op_int(o)
    if v is not None:
        return v
    k = o.get("k") if isinstance(o, dict) else None
    if k and k.get("v") is not None:
        return k["v"]
    import grammar
    return grammar.const_arg(b, o)


def grammar_term(b, t):
    import grammar
    return grammar.term_of(b, t)


def md5_absent_reader_rule(F, rep, P):
    """STREAMINFO's digest reads back as `None` exactly for the all-zero field (RFC 9639 8.2): the reader's test is
    "some byte is non-zero" (any(!= 0) / !all(== 0) / a comparison with [0; 16])"""
    R = P + ".sentinel"
    sb = [b for b in F.bodies if b.promoted is None and b.path == "<metadata::Streaminfo as bitstream_io::FromBitStream>::from_reader"]
    if not sb:
        rep.bad(R, "anchor:Streaminfo::from_reader", "", "not found")
        return
    reg = [sb[0]] + F.closures_of(sb[0])
    verdict = None
    for c in reg:
        for _, t in c.calls():
            m = re.search(r"Iterator>?::(any|all)$", callee_name(t))
            if m and t.get("cls"):
                cb = F.body(t["cls"][0])
                ops = [(s_["rv"]["op"], op_int(s_["rv"]["b"])) for bl in (cb.blocks if cb else []) for s_ in bl["s"] if s_["rv"]["r"] == "bin" and s_["rv"]["op"] in ("Eq", "Ne")]
                if ops == [("Ne", 0)]:
                    verdict = (m.group(1) == "any")            # any(b != 0): present iff some byte non-zero
                elif ops == [("Eq", 0)]:
                    verdict = "negated-all" if m.group(1) == "all" else False      # !all(b == 0) needs the negation checked below
            if re.search(r"PartialEq.*::(eq|ne)$", callee_name(t)) and "[u8; 16]" in " ".join(t["aty"]):
                verdict = True
    if verdict == "negated-all":
        verdict = any(s_["rv"]["r"] == "un" and s_["rv"]["op"] == "Not" for c in reg for bl in c.blocks for s_ in bl["s"])
    rep.check(R, "Streaminfo::from_reader reports md5 = None exactly for the all-zero digest", verdict is True, loc_of(sb[0]), "",
              "the 'is a digest stored' test of the STREAMINFO reader is not 'some byte is non-zero': digests that merely contain a zero byte (or none at all) are misread, and verification reports NoMD5 / compares against nothing")


def _self_fields(F, b):
    """named fields of `self` (argument 1) a body - and its closures through their captures - reads"""
    out = set()
    def visit(p):
        if p is not None and p["l"] == 1:
            fs = place_fields(p)
            if fs:
                out.add(fs[0])
    def places(body):
        for bl in body.blocks:
            for st in bl["s"]:
                rv = st["rv"]
                for o in rv_operands(rv):
                    yield op_place(o)
                if rv["r"] in ("ref", "disc", "len") and isinstance(rv.get("p"), dict):
                    yield rv["p"]
            t = bl["t"]
            if t and t["t"] == "call":
                for a in t["a"]:
                    yield op_place(a)
            elif t and t["t"] == "switch":
                yield op_place(t["o"])
    for p in places(b):
        visit(p)
    # closures that captured `self` whole (or a field of it): what they read of the capture
    for cb in F.closures_of(b, recursive=False):
        aggs = [st for bl in b.blocks for st in bl["s"] if st["rv"]["r"] == "agg" and st["rv"].get("ak") == "closure" and st["rv"].get("adt") == cb.path]
        if len(aggs) != 1:
            continue
        for p in places(cb):
            if p is None:
                continue
            rp = root_place(cb, p)
            if rp is None or rp["l"] != 1 or not rp["p"]:
                continue
            proj = [e for e in rp["p"] if e != "*"]
            m = re.match(r"^\.(\d+):", proj[0]) if proj else None
            if not m or int(m.group(1)) >= len(aggs[0]["rv"]["ops"]):
                continue
            src = root_place(b, aggs[0]["rv"]["ops"][int(m.group(1))])
            if src is not None and src["l"] == 1:
                fs = place_fields(src) + place_fields({"l": 1, "p": proj[1:]})
                if fs:
                    out.add(fs[0])
    return out


def adjacent_sibling_rules(F, rep, R):
    """the two halves of one Adjacent impl judge the same things: what valid_first() examines of the first item is what is_next()
    examines of every later one (a struct impl whose two tests look at different fields lets one field escape validation at one end)"""
    n = 0
    impls = {}
    for b in F.bodies:
        m = re.match(r"^<(.*) as metadata::contiguous::Adjacent>::(valid_first|is_next)$", b.path)
        if m and b.promoted is None and b.kind != "Closure":
            impls.setdefault(m.group(1), {})[m.group(2)] = b
    for ty, d in sorted(impls.items()):
        if len(d) != 2:
            continue
        fa, fb = _self_fields(F, d["valid_first"]), _self_fields(F, d["is_next"])
        if not fa or not fb:
            continue    # scalars and enums: nothing to compare field by field
        n += 1
        rep.check(R, "%s: valid_first and is_next examine the same fields of self" % strip_generics(ty), fa == fb, loc_of(d["valid_first"]), "%s / %s" % (sorted(fa), sorted(fb)),
                  "valid_first() looks at %s but is_next() at %s: the first item of a sequence is validated on something other than what orders the rest" % (sorted(fa), sorted(fb)))
    rep.floor(R, "struct impls of Adjacent compared", n, 3)


def contiguous_rules(F, ok, rep, P):
    """metadata::contiguous::Contiguous: the one-by-one constructor (try_push, used by the readers) and the batch constructor
    (TryFrom<Vec<T>>, open to callers) apply the same two tests - valid_first() to the item without a predecessor,
    is_next(prev) to every other - and nothing else builds a non-empty Contiguous"""
    R = P + ".contig"
    n = 0
    for path, where in (("metadata::contiguous::Contiguous::try_push", "try_push"), ("metadata::contiguous::is_contiguous", "is_contiguous")):
        b = anchor(F, rep, R, path)
        if b is None:
            continue
        seen = {}
        for c in [b] + F.closures_of(b):
            pf = ok.path_facts(c)
            for bi, t in c.calls():
                m = re.search(r"contiguous::Adjacent::(valid_first|is_next)$", t["f"].get("path") or callee_name(t))
                if m:
                    f = pf.get(bi, TOP)
                    want = "^None$" if m.group(1) == "valid_first" else "^Some$"
                    other = "^Some$" if want == "^None$" else "^None$"
                    # on the wrong edge of an explicit match is a violation; inside a combinator closure there is no edge to test
                    seen[m.group(1)] = seen.get(m.group(1), True) and not (f is not TOP and fact_match(f, "is", other) and not fact_match(f, "is", want))
        n += 1
        rep.check(R, "%s tests the first item with valid_first() and every later one with is_next(previous)" % where, seen == {"valid_first": True, "is_next": True}, loc_of(b), str(seen),
                  "%s no longer applies both adjacency tests on their own edges (%s): a list that starts with an invalid first item (track 2, a non-zero first offset) or skips is accepted by one constructor and refused by the reader" % (where, seen))
    rep.floor(R, "adjacency-checking constructors", n, 2)
    tf = [b for b in F.bodies if b.promoted is None and b.kind != "Closure" and re.search(r"contiguous::Contiguous<MAX, T> as std::convert::TryFrom<std::vec::Vec<T>>>::try_from$", b.path)]
    for b in tf[:1]:
        ic = [t for c in [b] + F.closures_of(b) for _, t in c.calls() if re.search(r"contiguous::is_contiguous$", strip_generics(callee_name(t)))]
        rep.check(R, "TryFrom<Vec<T>> accepts only what is_contiguous() accepts", len(ic) == 1, loc_of(b))
    if not tf:
        rep.bad(R, "anchor:Contiguous::try_from(Vec)", "", "not found")
    for path in ("metadata::contiguous::Contiguous::try_extend", "metadata::contiguous::Contiguous::try_collect"):
        b = anchor(F, rep, R, path)
        if b is not None:
            tp = [t for c in [b] + F.closures_of(b) for _, t in c.calls() if re.search(r"Contiguous::try_push$", strip_generics(callee_name(t)))]
            rep.check(R, "%s adds items through try_push only" % path.rsplit("::", 1)[-1], len(tp) == 1 and not any(re.search(r"Vec::<T(, A)?>::(push|extend|insert|append)", callee_name(t)) for c in [b] + F.closures_of(b) for _, t in c.calls()), loc_of(b))
    makers = sorted({strip_generics(b.path) if not b.path.startswith("<") else b.path for b in F.bodies if b.promoted is None and any(s_["rv"]["r"] == "agg" and s_["rv"].get("adt") == "metadata::contiguous::Contiguous" for bl in b.blocks for s_ in bl["s"])})
    extra = [m for m in makers if not re.search(r"(Default>::default|Clone>::clone|Contiguous::with_capacity|TryFrom<std::vec::Vec<T>>>::try_from)$", m)]
    rep.check(R, "a Contiguous value is built only empty, by clone, or by the checked TryFrom", not extra and len(makers) >= 3, "src/metadata/mod.rs", str(makers), "Contiguous is also constructed in %s" % extra)


def run(ctx, rep):
    F = ctx.facts()
    ok = OkImplies(F, ctx.cg())
    gramlib.grammar_agreement(ctx, rep, "C11", "metadata::", 20)

    # ---- C11.size ------------------------------------------------------------------------------------
    hb = anchor(F, rep, "C11.size", "metadata::BlockHeader::new")
    if hb is not None:
        bits = [t for _, t in hb.calls() if (t["f"].get("path") or "") == "bitstream_io::ToBitStream::bits"]
        good = len(bits) == 1 and "metadata::BlockBits" in " ".join(bits[0]["f"]["args"]) and bits[0]["f"]["args"][0] == "M"
        rep.check("C11.size", "BlockHeader::new sizes a block with bits::<BlockBits>() of the block's own serialiser", good, loc_of(hb))
    st = F.statics
    bs_max = st.get("metadata::BlockSize::MAX", {}).get("v")
    bb_max = st.get("metadata::BlockBits::MAX", {}).get("v")
    rep.check("C11.size", "BlockSize::MAX == 2^24 - 1 and BlockBits::MAX == 8 x BlockSize::MAX", bs_max == (1 << 24) - 1 and bb_max == 8 * ((1 << 24) - 1), "src/metadata/mod.rs", "%s %s" % (bs_max, bb_max))
    rep.check("C11.size", "BlockHeader::SIZE == 4 bytes and Streaminfo::SIZE == 34 bytes", st.get("metadata::BlockHeader::SIZE", {}).get("v") == 4 and st.get("metadata::Streaminfo::SIZE", {}).get("v") == 34, "src/metadata/mod.rs")
    fb = [b for b in F.bodies if b.promoted is None and b.path == "<metadata::BlockSize as std::convert::From<metadata::BlockBits>>::from"]
    if fb:
        divs = [s for bl in fb[0].blocks for s in bl["s"] if s["rv"]["r"] == "bin" and s["rv"]["op"] == "Div" and op_int(s["rv"]["b"]) == 8]
        rep.check("C11.size", "bits -> bytes divides by 8", len(divs) == 1, loc_of(fb[0]))
    else:
        rep.bad("C11.size", "anchor:From<BlockBits> for BlockSize", "", "not found")
    for m in ("checked_add_assign", "checked_mul"):
        bs = [b for b in F.bodies if b.promoted is None and b.path == "<metadata::BlockBits as bitstream_io::write::Counter>::" + m]
        for b in bs:
            cl = [b] + F.closures_of(b)
            cl += fn_value_bodies(F, cl)
            mxb = st.get("metadata::BlockBits::MAX", {}).get("v")
            le = [1 for c in cl for bl in c.blocks for s in bl["s"] if s["rv"]["r"] == "bin" and ((s["rv"]["op"] == "Le" and const_val(c, s["rv"]["b"]) == mxb) or (s["rv"]["op"] == "Lt" and const_val(c, s["rv"]["b"]) == (mxb or 0) + 1) or
                                                                                                  (s["rv"]["op"] == "Gt" and const_val(c, s["rv"]["b"]) == mxb) or (s["rv"]["op"] == "Ge" and const_val(c, s["rv"]["a"]) == mxb))]
            rep.check("C11.size", "BlockBits::%s refuses counts above the 24-bit byte limit" % m, len(le) == 1, loc_of(b))
        if not bs:
            rep.bad("C11.size", "anchor:BlockBits::" + m, "", "not found")
    # the streaminfo grammar sums to 34 bytes, a seek point to 18
    G = gramlib.Grammar(F, inline=gramlib.INLINE)
    for ty, want in (("metadata::Streaminfo", 34 * 8), ("metadata::SeekPoint", 18 * 8)):
        for d in [gramlib.pairs(F, ty).get(ty, {})]:
            for b in d.get("to_writer", []):
                for seq in flat_sigs(G, b):
                    tot = sum(x[1] if x[0] == "b" else (5 if x[0] == "cnt" else 0) for x in seq)
                    rep.check("C11.size", "%s serialises to %d bits" % (ty, want), tot == want, loc_of(b), str(tot), "%s writes %d bits, the format (and the declared SIZE / divisor) says %d" % (ty, tot, want))
    sb = [b for b in F.bodies if b.promoted is None and b.path == "<metadata::SeekTable as bitstream_io::FromBitStreamUsing>::from_reader"]
    for b in sb:
        c18 = [s for bl in b.blocks for s in bl["s"] if s["rv"]["r"] == "bin" and s["rv"]["op"] in ("Div", "Rem") and op_int(s["rv"]["b"]) == 18]
        rep.check("C11.size", "SEEKTABLE point count = size / 18 with size % 18 == 0", len(c18) == 2, loc_of(b))

    # ---- C11.frame: block framing (last-block flag, exact block length) ------------------------------------------
    # the pairing of each block with its "last" flag lives in an item nested in write_blocks (a closure of iter_last, or the
    # next() of a local iterator type): wherever a (flag, block) pair is built there, the flag is peek().is_none()
    ils = [x for x in F.bodies if x.promoted is None and "metadata::write_blocks::" in x.path]
    pairs_, good = 0, True
    il = ils[0] if ils else None
    for x in ils:
        for bi, bl in enumerate(x.blocks):
            for st_ in bl["s"]:
                rv = st_["rv"]
                if rv["r"] == "agg" and rv["ak"] == "tuple" and len(rv["ops"]) == 2 and op_place(rv["ops"][0]) is not None and x.local_ty(op_place(rv["ops"][0])["l"]) == "bool":
                    pairs_ += 1
                    il = x
                    src = [c for k, c in origins(x, rv["ops"][0]) if k == "call"]
                    this = False
                    if len(src) == 1 and re.search(r"Option::<T>::is_none$", callee_name(src[0])):
                        pk = backward_slice(x, src[0]["a"][0])["calls"]
                        this = len(pk) == 1 and re.search(r"Peekable::<I>::peek$", callee_name(pk[0])) is not None
                    good = good and this
    if not pairs_:
        rep.bad("C11.frame", "anchor:(last flag, block) pair in write_blocks", "", "not found")
    else:
        rep.check("C11.frame", "writer: a block is flagged last exactly when no block follows (peek().is_none())", good, loc_of(il), "",
                  "the last-block flag written into the block headers is not `no further block follows`: readers stop early or run into the audio frames")
    wbk = anchor(F, rep, "C11.frame", "metadata::write_blocks")
    if wbk is not None:
        SELECT = r"Iterator::(filter|filter_map|skip|take|skip_while|take_while|step_by|map_while|flatten|flat_map|scan)$"
        sel = sorted({strip_generics(nm) for x in region(F, wbk) for nm in [callee_name(t) for _, t in x.calls()] if re.search(SELECT, nm)})
        rep.check("C11.frame", "writer: every block handed to write_blocks is written (no selecting adaptor on the block list)", not sel, loc_of(wbk), "",
                  "write_blocks passes its blocks through %s: some blocks of the caller's list never reach the file, so the list read back (and the size of the metadata region) differs from what was asked for" % sel)
    rb0 = F.body("metadata::BlockIterator::<R>::read_block")
    if rb0 is None:
        rep.bad("C11.frame", "anchor:BlockIterator::read_block", "", "not found")
    else:
        def all_cl3(b0):
            out = []
            for c in F.closures_of(b0):
                out.append(c)
                out += all_cl3(c)
            return out
        regb = [rb0] + [c for c in F.closures_of(rb0) if "LimitedReader" not in c.path]
        stores = []
        n_ok = 0
        for rb in regb:
            pf = ok.path_facts(rb)
            for bi, bl in enumerate(rb.blocks):
                for st_ in bl["s"]:
                    if st_["d"]["p"]:
                        cs = capture_source(F, rb, st_["d"])
                        if cs and cs[1] and "finished" in place_fields(cs[1]):
                            rp = root_place(rb, st_["rv"]["o"]) if st_["rv"]["r"] == "use" else None
                            stores.append((bi, st_, rp is not None and place_fields(rp)[-1:] == ["last"]))
                    rv = st_["rv"]
                    if not st_["d"]["p"] and rv["r"] == "agg" and rv.get("var") == "Ok" and re.match(r"^std::result::Result<metadata::Block,", rb.local_ty(st_["d"]["l"])):
                        n_ok += 1
                        f = pf.get(bi) or frozenset()
                        good = any(x[0] == "cmp" and x[1] == "Eq" and "const:0" in (x[2], x[3]) for x in f)
                        rep.check("C11.frame", "reader: a block is returned only if its parser consumed exactly the declared size (remaining == 0)", good, rb.loc(st_["sp"]), "",
                                  "a block is accepted although bytes of its declared size were left unread: the next header is read from the wrong offset; facts: %s" % fact_str(f))
        rep.check("C11.frame", "reader: iteration stops after the block whose header has the last flag (finished = header.last)", len(stores) == 1 and stores[0][2], loc_of(rb0), "",
                  "BlockIterator's `finished` is not taken from the block header's last flag")
        rep.floor("C11.frame", "block-accepting exits", n_ok, 1)
    lr = [b for b in F.bodies if b.promoted is None and b.kind != "Closure" and b.path.endswith("read_block::LimitedReader<R> as std::io::Read>::read")]
    for b in lr:
        good = False
        for _, t in b.calls():
            if re.search(r"::index_mut$", callee_name(t)):
                for k, x in origins(b, t["a"][1]):
                    if k == "agg" and x["adt"] in ("std::ops::Range", "std::ops::RangeTo"):
                        for kk, c in origins(b, x["ops"][-1]):
                            if kk == "call" and re.search(r"Ord::min$|::min$", callee_name(c)):
                                a0, a1 = root_place(b, c["a"][0]), backward_slice(b, c["a"][1])
                                def own_field(o):       # the limiter's own counter (self.<field>), whatever it is called
                                    rp_ = root_place(b, o)
                                    return rp_ is not None and rp_["l"] == 1 and len(place_fields(rp_)) == 1

                                def buf_len(o):
                                    sl_ = backward_slice(b, o)
                                    return any(re.search(r"::len$", callee_name(cc)) for cc in sl_["calls"]) and 2 in sl_["args"]
                                good = (own_field(c["a"][0]) and buf_len(c["a"][1])) or (own_field(c["a"][1]) and buf_len(c["a"][0]))
        rep.check("C11.frame", "reader: a block's parser can read at most min(remaining block size, buffer length) bytes", good, loc_of(b), "",
                  "the per-block reader no longer clamps reads to the remaining block size: a block parser can run past its block")
    if not lr:
        rep.bad("C11.frame", "anchor:LimitedReader::read", "", "not found")

    # ---- C11.sentinel: a value that the format reserves for "absent" must not be written as a present value -------
    sp = [x for x in F.bodies if x.promoted is None and x.path == "<metadata::SeekPoint as bitstream_io::ToBitStream>::to_writer"]
    if not sp:
        rep.bad("C11.sentinel", "anchor:SeekPoint::to_writer", "", "not found")
    else:
        x = sp[0]
        pfx = ok.path_facts(x)
        good = False
        for bi, t in x.calls():
            if (t["f"].get("path") or "") == "bitstream_io::BitWrite::write_from" and len(t["a"]) > 1 and op_place(t["a"][1]) is not None:
                rp = root_place(x, t["a"][1])
                if rp is not None and place_fields(rp)[-1:] == ["sample_offset"]:
                    f = pfx.get(bi) or frozenset()
                    good = any(y[0] == "cmp" and y[1] == "Ne" and "const:18446744073709551615" in (str(y[2]), str(y[3])) and "sample_offset" in str(y[2]) + str(y[3]) for y in f)
        rep.check("C11.sentinel", "SeekPoint::Defined is written only if its sample offset is not the placeholder marker (2^64 - 1)", good, loc_of(x), "",
                  "a defined seek point whose sample offset equals the placeholder marker is written and reads back as a placeholder")
    si = [x for x in F.bodies if x.promoted is None and x.path == "<metadata::Streaminfo as bitstream_io::ToBitStream>::to_writer"]
    if not si:
        rep.bad("C11.sentinel", "anchor:Streaminfo::to_writer", "", "not found")
    else:
        x = si[0]
        uo = [t for _, t in x.calls() if re.search(r"Option::<T>::unwrap_or$", callee_name(t)) and "[u8; 16]" in " ".join(t["aty"])]
        cmp16 = [t for b2 in [x] + F.closures_of(x) for _, t in b2.calls() if re.search(r"PartialEq.*::(eq|ne)$", callee_name(t)) and "[u8; 16]" in " ".join(t["aty"])]
        rep.check("C11.sentinel", "Streaminfo.md5 = Some(all zero bytes) is not written as the 'unknown' digest", bool(cmp16) or not uo, loc_of(x), "",
                  "Streaminfo { md5: Some([0; 16]) } is written as sixteen zero bytes, which the reader (and the format) take to mean `no MD5`: the value reads back as None")

    # ---- C11.isrc: an ISRC is exactly twelve characters (2 letters, 3 alphanumerics, 2 digits, 5 digits) ----------
    ib = [x for x in F.bodies if x.promoted is None and x.path.startswith("<metadata::cuesheet::ISRCString as std::str::FromStr>::from_str")]
    if not ib:
        rep.bad("C11.isrc", "anchor:ISRCString::from_str", "src/metadata/cuesheet.rs", "not found")
    else:
        amts = []
        eqs = []
        stored = []
        for x in ib:
            for _, t in x.calls():
                if callee_name(t).endswith("from_str::filter_split") and len(t["a"]) > 1 and op_int(t["a"][1]) is not None:
                    amts.append(op_int(t["a"][1]))
                if re.search(r"Cow::<'_, B>::into_owned$", callee_name(t)):
                    stored.append("stripped")
                if re.search(r"ToOwned>::to_owned$|::to_string$|String::from$", callee_name(t)) and x.kind == "Closure":
                    stored.append("other")
            if x.kind == "Closure":
                eqs += [op_int(st_["rv"]["b"]) for bl in x.blocks for st_ in bl["s"] if st_["rv"]["r"] == "bin" and st_["rv"]["op"] == "Eq" and op_int(st_["rv"]["b"]) is not None and op_int(st_["rv"]["b"]) > 1]
        field = None
        for x in F.bodies:
            if x.promoted is None and x.path == "<metadata::cuesheet::ISRC as bitstream_io::ToBitStream>::to_writer":
                for _, t in x.calls():
                    tm = grammar_term(x, t)
                    if tm and tm[0] == "b":
                        field = tm[1]
        total = sum(amts) + (eqs[0] if len(eqs) == 1 else 0)
        whole = None
        if not amts:
            # the other spelling: the dash-less code is tested as a whole (len == 12) and then class by class on fixed ranges
            for x in ib:
                for bl in x.blocks:
                    for st_ in bl["s"]:
                        rv_ = st_["rv"]
                        if rv_["r"] == "bin" and rv_["op"] == "Eq" and op_int(rv_["b"]) is not None and op_int(rv_["b"]) > 5:
                            sl_ = backward_slice(x, rv_["a"])
                            if any(re.search(r"::len$", callee_name(c)) for c in sl_["calls"]) or "PtrMetadata" in sl_["ops"]:
                                whole = op_int(rv_["b"])
                for bi_, bl in enumerate(x.blocks):
                    for st_ in bl["s"]:
                        rv_ = st_["rv"]
                        if rv_["r"] == "agg" and rv_.get("adt") == "metadata::cuesheet::ISRCString" and rv_["ops"]:
                            names_ = [strip_generics(callee_name(c)).rsplit("::", 1)[-1] for c in backward_slice(x, rv_["ops"][0])["calls"]]
                            stored.append("stripped" if ("filter" in names_ and ("collect" in names_ or "from_iter" in names_)) or "into_owned" in names_ else "other")
        if whole is not None:
            rep.check("C11.isrc", "ISRC text = 2 + 3 + 2 + 5 characters = the 12-byte field of the block", field == 96 and whole * 8 == field, loc_of(ib[0]), "whole-length test %s, field %s bits" % (whole, field),
                      "ISRCString::from_str accepts codes of %s characters, the block field holds %s bits" % (whole, field))
        else:
          rep.check("C11.isrc", "ISRC text = 2 + 3 + 2 + 5 characters = the 12-byte field of the block", sorted(amts) == [2, 2, 3] and eqs == [5] and field == 96 and total * 8 == field, loc_of(ib[0]),
                  "prefix lengths %s, designation length %s, field %s bits" % (amts, eqs, field),
                  "ISRCString::from_str accepts codes whose length differs from the 12-byte field (prefix lengths %s, designation check %s): longer codes are truncated on write, shorter ones are refused by the reader" % (amts, eqs))
        rep.check("C11.isrc", "the stored ISRC is the dash-stripped text that was validated", stored == ["stripped"], loc_of(ib[0]), str(stored),
                  "ISRCString keeps a string other than the validated, dash-stripped one: dashes would be written into the 12-byte field")

    from rules import lenlib
    lenlib.length_prefix_rules(ctx, rep, "C11", floor_w=1, floor_r=1)

    contiguous_rules(F, ok, rep, "C11")
    adjacent_sibling_rules(F, rep, "C11.contig")
    md5_absent_reader_rule(F, rep, "C11")

    # ---- C11.uniq ---------------------------------------------------------------------------------------------
    pairs_expected = {"seektable_read": "MultipleSeekTable", "vorbiscomment_read": "MultipleVorbisComment", "png_read": "MultiplePngIcon", "icon_read": "MultipleGeneralIcon"}
    for fn_path in ("<metadata::BlockIterator<R> as std::iter::Iterator>::next", "metadata::write_blocks"):
        bs = [b for b in F.bodies if b.promoted is None and (b.path == fn_path or strip_generics(b.path) == fn_path)]
        if not bs:
            rep.bad("C11.uniq", "anchor:" + fn_path, "", "not found")
            continue
        n = 0
        errs_ = set(pairs_expected.values())

        def kind_facts(f):
            return frozenset((x[1], str(x[2])) for x in (f or []) if x[0] == "is" and x[1] in ("SeekTable", "VorbisComment", "Picture", "Png32x32", "GeneralFileIcon"))
        set_sites = {}
        for b in region(F, bs[0]):
            pf = ok.path_facts(b)
            for bi, bl in enumerate(b.blocks):
                for s in bl["s"]:
                    if s["rv"]["r"] == "use" and op_int(s["rv"]["o"]) == 1 and s["d"]["p"] and b.local_ty(s["d"]["l"]).replace("&mut ", "").replace("&", "") in ("bool",) or \
                            (s["rv"]["r"] == "use" and op_int(s["rv"]["o"]) == 1 and s["d"]["p"] and place_fields(s["d"]) and b.path.startswith("<metadata::BlockIterator")):
                        name = ok.desc_place(b, s["d"])
                        flag = name.split(":")[-1]
                        f = pf.get(bi, TOP)
                        kf = kind_facts(f)
                        if not kf:
                            continue        # not a per-block-type flag (tag_read, streaminfo_read, failed, finished ...)
                        n += 1
                        tested = any(x[0] == "flag" and x[1] is False and x[2].split(":")[-1] == flag for x in (f or []))
                        set_sites[flag] = kf
                        rep.check("C11.uniq", "%s: a single-instance flag is set on the path where that same flag was found unset" % (strip_generics(fn_path) or fn_path), tested, b.loc(s["sp"]), flag,
                                  "flag %s is set on a path that tested another flag: single-instance tracking of reader and writer disagree; facts: %s" % (flag, fact_str(f)))
        # table form: each once-only kind selects a pair (&mut its flag, its duplicate error); one generic test-and-set
        # then works on whichever pair was selected.  The pairing and the kind each pair is built for are the rule then.
        KIND_OF = {"seektable_read": "SeekTable", "vorbiscomment_read": "VorbisComment", "png_read": "Png32x32", "icon_read": "GeneralFileIcon"}
        paired_errs, table_bodies = set(), set()
        for b in region(F, bs[0]):
            pf = ok.path_facts(b)
            for bi, bl in enumerate(b.blocks):
                for s in bl["s"]:
                    rv = s["rv"]
                    if rv["r"] != "agg" or rv.get("ak") != "tuple" or len(rv["ops"]) != 2 or b.local_ty(s["d"]["l"]).replace(" ", "") != "(&mutbool,Error)":
                        continue
                    flag = None
                    for k, x in origins(b, rv["ops"][0]):
                        if k == "ref":
                            flag = ([f_ for f_ in place_fields(x["p"]) if f_] [-1:] or [b.local_name(x["p"]["l"])])[0]
                            if b.kind == "Closure" and flag not in pairs_expected:
                                cs = capture_source(F, b, x["p"])       # a flag of the enclosing function, captured by reference
                                if cs and cs[1] is not None:
                                    flag = ([f_ for f_ in place_fields(cs[1]) if f_][-1:] or [cs[0].local_name(cs[1]["l"])])[0]
                    errv = [x.get("var") for k, x in origins(b, rv["ops"][1]) if k == "agg" and x.get("adt") == "Error"]
                    kinds = {x[0] for x in kind_facts(pf.get(bi, TOP) if pf.get(bi, TOP) is not TOP else None)}
                    n += 1
                    good = flag in pairs_expected and errv == [pairs_expected[flag]] and KIND_OF.get(flag) in kinds
                    rep.check("C11.uniq", "%s: the flag of a once-only kind is paired with that kind's duplicate error, on that kind's arm" % (strip_generics(fn_path) or fn_path), good, b.loc(s["sp"]), "%s / %s / %s" % (flag, errv, sorted(kinds)),
                              "flag %s is paired with %s on the arm of %s: single-instance tracking would test one block kind and report or set another" % (flag, errv, sorted(kinds)))
                    if errv:
                        paired_errs.add(errv[0])
                        table_bodies.add(b.path)
            if b.path in table_bodies:
                # the generic step: the selected flag is tested, an Err leaves on the set edge, the flag is set on the other
                tests = [(bi, s) for bi, bl in enumerate(b.blocks) for s in bl["s"] if s["d"]["p"] and s["d"]["p"][-1] == "*" and s["rv"]["r"] == "use" and op_int(s["rv"]["o"]) == 1 and "bool" in b.local_ty(s["d"]["l"])]
                goodg = False
                for bi, s in tests:
                    d = ok.desc_place(b, s["d"])
                    f = pf.get(bi, TOP)
                    unset_edge = f is not TOP and any(x[0] == "flag" and x[1] is False and x[2] == d for x in (f or ()))
                    err_edge = any(s2["rv"]["r"] == "agg" and s2["rv"].get("adt") == "std::result::Result" and s2["rv"].get("var") == "Err" and
                                   pf.get(bj, TOP) is not TOP and any(x[0] == "flag" and x[1] is True and x[2] == d for x in (pf.get(bj) or ()))
                                   for bj, bl2 in enumerate(b.blocks) for s2 in bl2["s"])
                    goodg = goodg or (unset_edge and err_edge)
                rep.check("C11.uniq", "%s: the selected flag is set where it was found unset and an error leaves where it was found set" % (strip_generics(fn_path) or fn_path), goodg, loc_of(b), "%d stores through a flag reference" % len(tests))
        for b in region(F, bs[0]):
            pf = ok.path_facts(b)
            for err in sorted(errs_ - paired_errs):
                for bi0, s in agg_sites(b, "Error", err):
                    # the error is raised where it is wrapped in Err(..): the value may be built earlier and handed along
                    raise_bis, frontier, seen_l = [], {s["d"]["l"]}, set()
                    for _ in range(6):
                        nxt = set()
                        for bj, bl2 in enumerate(b.blocks):
                            for s2 in bl2["s"]:
                                if s2 is s or not any(op_local(o) in frontier for o in rv_operands(s2["rv"]) if isinstance(o, dict)):
                                    continue
                                if s2["rv"]["r"] == "agg" and s2["rv"].get("adt") == "std::result::Result" and s2["rv"].get("var") == "Err":
                                    raise_bis.append(bj)
                                elif s2["rv"]["r"] == "use" and not s2["d"]["p"] and s2["d"]["l"] not in seen_l:
                                    nxt.add(s2["d"]["l"])
                        seen_l |= frontier
                        frontier = nxt
                        if not frontier or raise_bis:
                            break
                    tested, held, f = True, [], None
                    for bi in (raise_bis or [bi0]):
                        f = pf.get(bi, TOP)
                        held = [x[2].split(":")[-1] for x in (f or []) if x[0] == "flag" and x[1] is True]
                        kf = kind_facts(f)
                        tested = tested and any(h in set_sites and (set_sites[h] == kf or not kf) for h in held)
                    rep.check("C11.uniq", "%s: Error::%s raised where the flag of that block kind was already set" % (strip_generics(fn_path) or fn_path, err), tested, b.loc(s["sp"]), str(held), "facts: %s" % fact_str(f))
        rep.floor("C11.uniq", "flag updates in %s" % fn_path, n, 4)
    for err in list(pairs_expected.values()) + ["MultipleStreaminfo", "MissingStreaminfo"]:
        sites = error_sites(F, err)
        inr = [1 for b, _, _ in sites if "BlockIterator" in b.path or "FromIterator" in b.path]
        inw = [1 for b, _, _ in sites if "write_blocks" in b.path]
        rep.check("C11.uniq", "reader and writer both raise Error::%s" % err, bool(inr) and bool(inw), "src/metadata/mod.rs", "%d reader / %d writer sites" % (len(inr), len(inw)))

    # ---- C11.trunc ----------------------------------------------------------------------------------------------
    total_casts = 0
    for b in F.bodies:
        if b.promoted is not None:
            continue
        for bl in b.blocks:
            for s in bl["s"]:
                rv = s["rv"]
                if rv["r"] == "cast" and rv["ck"].startswith("IntToInt"):
                    fbits, tbits = INT_BITS.get(rv["from"]), INT_BITS.get(rv["ty"])
                    if fbits and tbits and tbits < fbits:
                        sl = backward_slice(b, rv["o"])
                        if any(callee_name(c).endswith("::len") for c in sl["calls"]):
                            total_casts += 1
                            if b.file.startswith("src/metadata"):
                                rep.bad("C11.trunc", "truncating cast of a length in %s" % strip_generics(b.path), b.loc(s["sp"]),
                                        "a length is narrowed with `as %s`: a count above the field's range would be written modulo 2^%d while the writer reports success" % (rv["ty"], tbits))
    rep.check("C11.trunc", "no metadata serialiser narrows a length with `as` (detector sees %d such casts elsewhere in the crate)" % total_casts, total_casts >= 1, "", "positive control: the encoder's `len() as u16` casts are matched")
    for b in F.bodies:
        if b.promoted is None and b.path.endswith("::to_writer") and "cuesheet::Track<" in b.path and "NonZero<u8>" in b.path:
            ti = [t for _, t in b.calls() if re.search(r"TryInto<U>>::try_into$", callee_name(t)) and t["f"]["args"][-1:] == ["u8"]]
            rep.check("C11.trunc", "%s writes its index point count through a checked conversion" % strip_generics(b.path)[:60], len(ti) == 1, loc_of(b))

    # ---- C11.tab ----------------------------------------------------------------------------------------------------
    for ty, w, bits in (("metadata::BlockType", 7, None), ("metadata::PictureType", None, 32)):
        rb = impl_body(F, r"FromBitStream$", "^" + ty + "$", "from_reader", rep, "C11.tab")
        wb = impl_body(F, r"ToBitStream$", "^" + ty + "$", "to_writer", rep, "C11.tab")
        if rb is None or wb is None:
            continue
        wt = writer_table(F, wb, ty)
        for k, d in wt.items():
            terms = d["terminals"]
            code = terms[0][3][0] if len(terms) == 1 and terms[0][3] else None
            if not is_int(code):
                rep.bad("C11.tab", "%s %s: writer code" % (ty, k), loc_of(wb), "not a constant")
                continue
            # reader on that code
            if w:
                rt = reader_table(F, rb, w)
                oc = rt.get((None, code))
            else:
                state = {}

                def on_call(pe, env, t, name, args, code=code):
                    tm = terminal(t)
                    if tm is not None:
                        return OK(code)
                    return None
                pe = PEval(F, rb, on_call)
                r = run_region(pe, {1: ("sym", "r")}, 0)
                oc = ("ret", r[1].get(0, UNK)) if r[0] == "ret" else ("stop", r[1])
            res = result_of(oc) if oc else ("stop", "no row")
            rep.check("C11.tab", "%s: reader(writer(%s)) == %s" % (ty, k, k), res[0] == "ok" and show(res[1]) == k, loc_of(rb), "", "code %s reads back as %s" % (code, res,))

    # ---- C11.panic ---------------------------------------------------------------------------------------------------
    from rules import invlib
    invlib.newtype_invariant(ctx, rep, "C11")
    auditlib.panic_audit(ctx, rep, "C11", ["G_mw"], floor_sites=90)
    # updating the blocks of an existing file is a write followed by a read of the same bytes: it must land where the
    # blocks were read from (C10.rewind) on a file opened without truncation (C10.open)
    compose(ctx, rep, "C10", "C11.upd", r"^C10\.(rewind|open)$")


def flat_sigs(G, b):
    from grammar import flat
    return flat(G.sigs(b))
