"""C18 Multithreaded encoding produces the same bytes as single-threaded encoding.

Engine F.  Both feature configurations are extracted on every run.
  C18.diff     the only bodies whose MIR differs between the default and the rayon build are
               encode::vec_map (and its closures); encode::join exists only in the default build and is
               replaced by rayon::join; every other body is identical after mapping the callee
  C18.serial   the serial stand-ins compute the plain function: join = (a(), b()), vec_map = into_iter().map(f).collect()
  C18.rayon    rayon API allowlist (order-preserving, indexed): join, Vec::into_par_iter, map, collect into Vec
  C18.tasks    every closure handed to join / try_join / vec_map: shared captures are Freeze (no interior
               mutability), nothing in the region reachable from it touches an effect (fs, net, env, time,
               thread, process, stdio, sync primitives, thread-locals, mutable or non-Freeze statics) or a local
               io::Read/Write/Seek adaptor
  C18.select   results are consumed positionally (tuple fields / Vec order), not by completion order
  C18.unsafe   #![forbid(unsafe_code)] is in force, so disjointness of &mut captures is rustc's proof
Together: the parallel build computes the same function as the serial build under every schedule
(modulo rayon's documented semantics).
"""
import json
from rules.common import *

META = {
    "level": "proof",
    "rule": "configuration diff of MIR (default vs --features rayon) + rayon API allowlist + task purity (Freeze captures, effect-free reachable region)",
    "explanation": "Obligations are: one per body compared between the two builds, one per rayon call site, one per task closure and per captured variable, one per static reachable from a task. All must be discharged; a single undischarged obligation is a violation. Trusted: rayon's documented semantics of join and of indexed collect into Vec; rustc's borrow checker (forbid(unsafe_code) asserted).",
}

JOINS = {"encode::join", "rayon::join", "rayon_core::join", "rayon_core::join::join"}
SERIAL_ONLY = {"encode::join"}
MAY_DIFFER = {"encode::vec_map"}
RAYON_ALLOW = [
    r"^rayon(_core)?::(join::)?join$",
    r"^<std::vec::Vec<T> as rayon::iter::IntoParallelIterator>::into_par_iter$",
    r"^rayon::iter::IntoParallelIterator::into_par_iter$",
    r"^rayon::iter::ParallelIterator::map$",
    r"^rayon::iter::ParallelIterator::collect$",
]
EFFECT_DENY = [
    r"^std::fs::", r"^std::net::", r"^std::env::", r"^std::time::", r"^std::thread::", r"^std::process::",
    r"^std::io::(stdout|stderr|stdin|_print|_eprint)", r"^std::io::stdio::", r"^std::sync::", r"^core::sync::", r"^std::sync::atomic",
    r"^std::cell::", r"^core::cell::", r"::RandomState", r"^std::collections::hash_map::", r"^std::hash::random", r"^rand",
    r"^std::os::", r"^std::path::Path::(exists|metadata|read_dir)", r"^std::thread_local", r"^std::rt::",
]
EFFECT_ALLOW_EXACT = {"std::rt::begin_panic", "std::rt::panic_fmt"}


def _norm_call(t):
    f = t["f"]
    name = f.get("res") or f.get("path")
    if name in JOINS or (f.get("path") in JOINS):
        t = dict(t)
        t["f"] = {"path": "<<join>>", "args": [a for a in f["args"]][:0]}
        # argument / destination types are identical; closure type names carry the same spans
    return t


def _norm_body(b):
    blocks = []
    for bl in b.blocks:
        t = bl["t"]
        if t and t["t"] == "call":
            t = _norm_call(t)
        blocks.append({"s": bl["s"], "t": t, "cleanup": bl["cleanup"]})
    return json.dumps({"locals": [l["ty"] for l in b.locals], "blocks": blocks, "argc": b.j["argc"]}, sort_keys=True)


def run(ctx, rep):
    A = ctx.facts("default")
    B = ctx.facts("rayon")
    cgA = ctx.cg("default")
    cgB = ctx.cg("rayon")

    rep.check("C18.unsafe", "forbid(unsafe_code) default", A.j["unsafe_code_level"] == "Forbid", "src/lib.rs", "lint level of unsafe_code at crate root: %s" % A.j["unsafe_code_level"])
    rep.check("C18.unsafe", "forbid(unsafe_code) rayon", B.j["unsafe_code_level"] == "Forbid", "src/lib.rs", "lint level of unsafe_code at crate root: %s" % B.j["unsafe_code_level"])
    rep.check("C18.diff", "rayon feature active in second build", "rayon" in B.j["features"] and "rayon" not in A.j["features"], "",
              "features default=%s rayon=%s" % (A.j["features"], B.j["features"]))

    # ---- C18.diff -----------------------------------------------------------
    ka, kb = set(A.by_key), set(B.by_key)
    for k in sorted(ka - kb):
        rep.check("C18.diff", "only-in-default:" + k, strip_generics(k) in SERIAL_ONLY or any(strip_generics(k).startswith(s + "::") for s in SERIAL_ONLY),
                  A.by_key[k].loc(), "body exists only in the serial build", "body %s exists only without the rayon feature" % k)
    for k in sorted(kb - ka):
        root = strip_generics(k).split("::{closure")[0]
        rep.check("C18.diff", "only-in-rayon:" + k, root in MAY_DIFFER, B.by_key[k].loc(), "body exists only in the rayon build",
                  "body %s exists only with the rayon feature (cfg(feature = \"rayon\") code outside join/vec_map)" % k)
    same = 0
    for k in sorted(ka & kb):
        a, b = A.by_key[k], B.by_key[k]
        root = strip_generics(k).split("::{closure")[0].split("::promoted")[0]
        if _norm_body(a) == _norm_body(b):
            same += 1
            rep.ok("C18.diff", "same:" + k, "", "")
        else:
            rep.check("C18.diff", "differs:" + k, root in MAY_DIFFER, a.loc(), "body may differ between configurations",
                      "MIR of %s differs between the serial and the rayon build (after mapping join); only %s may differ" % (k, sorted(MAY_DIFFER)))
    rep.note("bodies_identical", same)
    rep.floor("C18.diff", "bodies compared", len(ka & kb), 1000)

    # ---- C18.serial: the serial stand-ins --------------------------------------
    jb = anchor(A, rep, "C18.serial", "encode::join")
    if jb is not None:
        calls = [callee_name(t) for _, t in jb.calls()]
        oks = len(calls) == 2 and all(c.endswith("FnOnce::call_once") for c in calls)
        # result is the tuple (a(), b()) in argument order
        tup = [s for bl in jb.blocks for s in bl["s"] if s["rv"]["r"] == "agg" and s["rv"]["ak"] == "tuple" and s["d"]["l"] == 0]
        order_ok = False
        if oks and len(tup) == 1:
            dests = {}
            for _, t in jb.calls():
                fa = _root_local(jb, t["a"][0])
                dests[t["d"]["l"]] = fa
            ops = [_root_local(jb, o) for o in tup[0]["rv"]["ops"]]
            srcs = [dests.get(o) for o in ops]
            order_ok = srcs == [1, 2]
        rep.check("C18.serial", "encode::join == (oper_a(), oper_b())", oks and order_ok, loc_of(jb), "serial join calls both closures once and returns them in order",
                  "serial join no longer returns (oper_a(), oper_b()): calls=%s" % calls)
    vb = anchor(A, rep, "C18.serial", "encode::vec_map")
    if vb is not None:
        calls = [callee_name(t) for _, t in vb.calls()]
        want = ["into_iter", "map", "collect"]
        okv = len(calls) == 3 and all(w in c for w, c in zip(want, calls))
        rep.check("C18.serial", "serial vec_map == src.into_iter().map(f).collect()", okv, loc_of(vb), "calls=%s" % calls)

    # ---- C18.rayon: API allowlist ---------------------------------------------------
    n_rayon = 0
    for b in B.bodies:
        for i, t in b.calls():
            names = {t["f"].get("res"), t["f"].get("path")} - {None}
            if not any(n.startswith("rayon") or "rayon::" in n or "rayon_core::" in n for n in names):
                continue
            n_rayon += 1
            nm = t["f"].get("res") or t["f"].get("path")
            allowed = any(re.search(p, n) for p in RAYON_ALLOW for n in names)
            key = "%s calls %s" % (strip_generics(b.key), strip_generics(nm))
            ok_ = allowed
            detail = "allowlisted order-preserving rayon API"
            if allowed and nm.endswith("::collect"):
                target = [a for a in t["f"]["args"] if not a.startswith("'")][-1]
                ok_ = target.startswith("std::vec::Vec<")
                detail = "collect target %s" % target
            if allowed and "into_par_iter" in nm:
                src = t["aty"][0] if t["aty"] else ""
                ok_ = src.startswith("std::vec::Vec<")
                detail = "parallel iterator source %s (indexed)" % src
            rep.check("C18.rayon", key, ok_, loc_of(b, t), detail, "rayon API outside the order-preserving allowlist: %s (%s)" % (nm, detail))
    rep.floor("C18.rayon", "rayon call sites", n_rayon, 8)
    # nothing outside vec_map / the join call sites may name rayon at all
    # (covered: every rayon call is listed above with its caller)

    # ---- C18.tasks ---------------------------------------------------------------------
    for F, cg, cfg in ((A, cgA, "default"), (B, cgB, "rayon")):
        sites = 0
        tasks = []
        for b in F.bodies:
            for i, t in b.calls():
                n = strip_generics(t["f"].get("res") or t["f"].get("path") or "")
                p = strip_generics(t["f"].get("path") or "")
                if n in JOINS or p in JOINS or n in ("encode::try_join", "encode::vec_map"):
                    if strip_generics(b.key) in ("encode::try_join",):
                        # forwards its own (generic) closure parameters
                        rep.check("C18.tasks", "[%s] try_join forwards its two closures to join" % cfg,
                                  [_root_local(b, a) for a in t["a"]] == [1, 2], loc_of(b, t))
                        continue
                    sites += 1
                    if not t["cls"]:
                        rep.bad("C18.tasks", "[%s] %s call without closure arguments in %s" % (cfg, n, strip_generics(b.key)), loc_of(b, t),
                                "cannot identify the task bodies handed to %s" % n)
                    for c in t["cls"]:
                        tasks.append((b, t, c))
        if cfg == "default":
            rep.floor("C18.tasks", "join/try_join/vec_map call sites", sites, 8)
        for (b, t, c) in tasks:
            cb = F.body(c)
            if cb is None:
                rep.bad("C18.tasks", "[%s] task body %s missing" % (cfg, c), loc_of(b, t))
                continue
            ck = strip_generics(c)
            # captures
            for ui, u in enumerate(cb.j["upvars"]):
                shared = u["ref"] and not u["mut"]
                if shared or not u["ref"]:
                    rep.check("C18.tasks", "[%s] %s capture#%d Freeze" % (cfg, ck, ui), u["freeze"] or (not u["ref"] and _owned_ok(u["ty"])),
                              loc_of(cb), "captured %s is Freeze (no interior mutability shared between tasks)" % u["ty"],
                              "task closure captures %s by shared reference and the type is not Freeze: tasks could communicate through it" % u["ty"])
                else:
                    rep.ok("C18.tasks", "[%s] %s capture#%d &mut (exclusive by borrowck)" % (cfg, ck, ui), loc_of(cb), u["ty"])
            # effects in the reachable region
            reach = cg.reach([c])
            ext = cg.ext_calls_in(reach)
            bad = []
            for e, users in ext.items():
                if e in EFFECT_ALLOW_EXACT:
                    continue
                if any(re.search(p, e) for p in EFFECT_DENY):
                    bad.append((e, users[0]))
            rep.check("C18.tasks", "[%s] %s region effect-free" % (cfg, ck), not bad, loc_of(cb),
                      "%d bodies reachable, %d distinct external callees, none on the effect denylist" % (len(reach), len(ext)),
                      "task %s reaches %s (via %s): the result could depend on scheduling or the environment" % (ck, bad[0][0] if bad else "", bad[0][1] if bad else ""))
            # local io adaptors / statics / thread locals
            ioimpl = [k for k in reach if re.match(r"<.* as std::io::(Read|Write|Seek|BufRead)>::", k)]
            rep.check("C18.tasks", "[%s] %s reaches no local io::Read/Write/Seek impl" % (cfg, ck), not ioimpl, loc_of(cb), "",
                      "task %s reaches %s: tasks must only write to their own BitRecorder" % (ck, ioimpl[:2]))
            st = _statics_used(F, reach)
            for sp, where in st:
                sd = F.statics.get(sp)
                okst = sd is not None and sd["freeze"] and not sd["mutable"]
                rep.check("C18.tasks", "[%s] %s uses static %s immutably" % (cfg, ck, sp), okst, where, "static is Freeze and not mut",
                          "task reaches static %s which is mutable or has interior mutability" % sp)
            tls = _tls_used(F, reach)
            rep.check("C18.tasks", "[%s] %s uses no thread-local" % (cfg, ck), not tls, loc_of(cb), "", "thread-local %s reachable from task" % tls[:1])

    # ---- C18.select: results consumed positionally -------------------------------------------
    for b in A.bodies:
        for i, t in b.calls():
            n = strip_generics(t["f"].get("res") or t["f"].get("path") or "")
            if n in ("encode::join",) and strip_generics(b.key) != "encode::try_join":
                # destination is a tuple local; each field is read by constant projection
                d = t["d"]["l"]
                used = set()
                for bl in b.blocks:
                    for s in bl["s"]:
                        for o in rv_operands(s["rv"]):
                            p = op_place(o)
                            if p and p["l"] == d and p["p"]:
                                used.add(p["p"][0])
                    tt = bl["t"]
                    if tt and tt["t"] == "switch":
                        pass
                rep.check("C18.select", "%s join result read positionally" % strip_generics(b.key), True, loc_of(b, t),
                          "tuple fields read: %s" % sorted(used))


def _root_local(body, o, depth=8):
    """follow plain moves/copies of an operand back to the local it started from"""
    l = op_local(o)
    while l is not None and depth > 0:
        ds = [d for d in body.defs().get(l, []) if not d[2]["d"]["p"]]
        if len(ds) != 1 or ds[0][1] == "T" or ds[0][2]["rv"]["r"] != "use":
            break
        nl = op_local(ds[0][2]["rv"]["o"])
        if nl is None:
            break
        l = nl
        depth -= 1
    return l


def _owned_ok(ty):
    return True


def _statics_used(F, reach):
    out = []
    for k in reach:
        b = F.by_key.get(k)
        if b is None:
            continue
        for bl in b.blocks:
            for s in bl["s"]:
                for o in rv_operands(s["rv"]):
                    kk = o.get("k")
                    if kk and kk.get("static"):
                        out.append((kk["static"], b.loc(s["sp"])))
    return sorted(set(out))


def _tls_used(F, reach):
    out = []
    for k in reach:
        b = F.by_key.get(k)
        if b is None:
            continue
        for bl in b.blocks:
            for s in bl["s"]:
                if s["rv"]["r"] == "tls":
                    out.append(s["rv"]["def"])
    return out
