"""C17 Parsed frame structures re-serialise identically and agree with the decoder.

Decided:
  C17.gram    for every structural (de)serialiser pair of stream.rs the reader and writer denote the same bit-field
              sequences along their success paths
  C17.tab     the code tables are mutually inverse: reader(writer(variant)) == variant for every variant of the four
              header enums and the subframe types
  C17.clone   the streaming decoder (decode.rs) and the structural parser (stream.rs) read the same bit-field grammar
              for a subframe (header, warm-up, precision, shift, coefficients, residual method / order / partitions)
              and raise the same error classes per production
  C17.part    both decoders accept a residual partition layout under the same condition: block size divisible by the
              partition count and (block size / count) strictly greater than the predictor order
  C17.wasted  both decoders apply the wasted-bits shift to every subframe type (constant, verbatim, fixed, LPC)
  C17.resid   residual folding/unfolding is the same zig-zag in the three places it is written
  C17.prim   the integer primitives of the two decoders (from_i64, from_u32, wrapping_add for i32 / i64) are the same operations
  C17.panic   engine B over the structural writers
  C17.wide    both mid-side reconstructions (ordinary and 33-bit) take the parity from |side| % 2
  (C17.wasted also: effective depth in every arm, shift guard `wasted > 0`, fixed shift 0, LPC shift from the stream;
   C17.resid also: both folding sites use a known form of the zig-zag map)
Not decided: byte identity of the re-serialisation; sample equality with the streaming decoder (value-level).
"""
from rules.common import *
import json
from rules import auditlib, gramlib
from rules.tablelib import *
from grammar import Grammar, flat
from okimplies import OkImplies, fact_str, TOP

META = {"level": "other", "rule": "path grammars of reader/writer pairs and of the two decoders; inverse code tables; guard parity via path facts; dominance of the wasted-bits shift",
        "explanation": "Agreement between sibling implementations of one grammar, decided structurally."}

ERR_PER_PRODUCTION = ["InvalidSubframeHeader", "InvalidSubframeHeaderType", "ExcessiveWastedBits", "InvalidQlpPrecision", "NegativeLpcShift", "InvalidCodingMethod", "InvalidPartitionOrder"]


FOLD_FORMS = [{"neg", "sub1", "shl1", "add1"},   # ((-r - 1) << 1) + 1
              {"not", "shl1", "add1"},           # (!r << 1) + 1
              {"neg", "shl1", "sub1"}]           # (-r << 1) - 1


def fold_rules(F, rep, P):
    """the two places that fold a signed residual into the unsigned value that is Rice-coded use one of the known forms
    of the zig-zag mapping (non-negative: 2r, negative: -2r - 1)"""
    sites = [("encoder", r"^<encode::write_residuals::Partition<'_, RICE_MAX> as bitstream_io::ToBitStream>::to_writer$"),
             ("structural writer", r"^<stream::ResidualPartition<RICE_MAX, I> as bitstream_io::ToBitStream>::to_writer$")]
    for name, pat in sites:
        bs = [b for b in F.bodies if b.promoted is None and re.search(pat, b.path)]
        if not bs:
            rep.bad(P + ".resid", "anchor:%s residual folding" % name, "", "not found")
            continue
        b = bs[0]
        sig = []
        for bl in [x for bb in [b] + F.closures_of(b) for x in bb.blocks]:
            for st_ in bl["s"]:
                rv = st_["rv"]
                if rv["r"] == "un" and rv["op"] in ("Neg", "Not"):
                    sig.append(rv["op"].lower())
                if rv["r"] == "bin":
                    o = rv["op"].replace("WithOverflow", "")
                    k = op_int(rv["b"])
                    if o in ("Add", "Sub", "Shl") and k == 1:
                        sig.append(o.lower() + "1")
            t = bl["t"]
            if t and t["t"] == "call":
                pth = t["f"].get("path") or ""
                if pth in ("std::ops::Not::not", "std::ops::Neg::neg"):
                    sig.append(pth.rsplit("::", 1)[1])
                if pth in ("std::ops::Shl::shl", "std::ops::Add::add", "std::ops::Sub::sub") and len(t["a"]) > 1 and op_int(t["a"][1]) == 1:
                    sig.append(pth.rsplit("::", 1)[1] + "1")
        shl = sig.count("shl1")
        neg_branch = set(sig)
        good = shl == 2 and neg_branch in FOLD_FORMS
        rep.check(P + ".resid", "%s folds residuals with the zig-zag map (2r | -2r - 1)" % name, good, loc_of(b), str(sorted(sig)),
                  "the residual folding uses operations %s, none of the known forms of 2r / -2r-1: the decoder's unfolding will not invert it" % sorted(sig))


def decoder_depth_rules(F, ok, rep, P):
    """streaming decoder: every subframe type is read with the effective depth (bits - wasted), the wasted-bits shift is
    applied whenever wasted > 0, fixed predictors use shift 0 and LPC the shift read from the stream (both decoders)"""
    b = anchor(F, rep, P + ".wasted", "decode::read_subframe")
    if b is not None:
        cs = [(bi, t) for bi, t in b.calls() if re.search(r"SignedBitCount::<MAX>::checked_sub$", callee_name(t))]
        eff = None
        if len(cs) == 1:
            # the Continue payload local of `checked_sub(..).ok_or(..)?`
            for bi, t in b.calls():
                if re.search(r"Try>::branch$", callee_name(t)):
                    sl = backward_slice(b, t["a"][0])
                    if eff is None and any(c is cs[0][1] for c in sl["calls"]) and not any(re.search(r"read_signed_counted$|read_(fixed|lpc)_subframe$|try_for_each$", callee_name(c)) for c in sl["calls"]):
                        eff = t["d"]["l"]
        rep.check(P + ".wasted", "streaming decoder: effective depth = bits per sample - wasted bits (checked, ExcessiveWastedBits)", eff is not None, loc_of(b))
        users = []
        for body in [b] + F.closures_of(b):
            for bi, t in body.calls():
                nm = callee_name(t)
                if re.search(r"BitRead::read_signed_counted$", t["f"].get("path") or "") or re.search(r"decode::read_(fixed|lpc)_subframe$", strip_generics(nm)):
                    cs_ = capture_source(F, body, t["a"][1])
                    users.append((strip_generics(nm).rsplit("::", 1)[-1], loc_of(body, t), cs_ is not None and cs_[1] is not None and cs_[1]["l"] == eff and cs_[0].path == b.path))
        for nm, loc, good in users:
            rep.check(P + ".wasted", "streaming decoder: %s reads with the effective depth" % nm, good, loc, "",
                      "a subframe type is read with the frame's bit depth instead of (depth - wasted bits): streams with wasted bits decode to garbage")
        rep.floor(P + ".wasted", "depth users in decode::read_subframe", len(users), 4)
        pf = ok.path_facts(b)
        sh = [(bi, t) for bi, t in b.calls() if re.search(r"Iterator>::for_each$|Iterator::for_each$", callee_name(t))]
        for bi, t in sh:
            f = pf.get(bi) or frozenset()
            good = any(x[0] == "cmp" and ((x[1] == "Lt" and str(x[2]) == "const:0" and "wasted_bps" in str(x[3])) or (x[1] == "Gt" and str(x[3]) == "const:0" and "wasted_bps" in str(x[2])) or
                                          (x[1] == "Ne" and "const:0" in (str(x[2]), str(x[3])) and "wasted_bps" in str(x[2]) + str(x[3]))) for x in f)
            rep.check(P + ".wasted", "streaming decoder: the wasted-bits shift runs exactly when wasted_bps > 0", good, loc_of(b, t), "", "facts: %s" % fact_str(f))
    for path, callee in (("decode::read_fixed_subframe", r"decode::predict$"), ("stream::Subframe::decode", r"decode::predict$")):
        for fb in F.one(path)[:1]:
            pr = [t for _, t in fb.calls() if re.search(callee, strip_generics(callee_name(t)))]
            shifts = [op_int(t["a"][1]) for t in pr]
            fixed_calls = [t for t in pr if any(re.search(r"FIXED_COEFFS", str(c)) for c in [backward_slice(fb, t["a"][0])["consts"]]) or "FIXED_COEFFS" in json.dumps(backward_slice(fb, t["a"][0])["aggs"])[:0]]
            good = 0 in shifts if path.startswith("stream") else shifts == [0]
            rep.check(P + ".wasted", "%s: fixed predictors are applied with shift 0" % path, good, loc_of(fb), str(shifts),
                      "a fixed-predictor subframe is reconstructed with a non-zero shift")
            if path.startswith("stream"):
                lp = [t for t in pr if op_int(t["a"][1]) is None]
                goodl = len(lp) == 1 and "shift" in place_fields(root_place(fb, lp[0]["a"][1]) or {"p": []})
                rep.check(P + ".wasted", "%s: LPC prediction uses the shift stored in the subframe" % path, goodl, loc_of(fb))
    lb = anchor(F, rep, P + ".wasted", "decode::read_lpc_subframe")
    if lb is not None:
        pr = [t for _, t in lb.calls() if re.search(r"decode::predict$", strip_generics(callee_name(t)))]
        good = len(pr) == 1
        if good:
            sl = backward_slice(lb, pr[0]["a"][1])
            good = any((c["f"].get("path") or "") == "bitstream_io::BitRead::read" and [x for x in c["f"]["args"] if not x.startswith("'")][1:2] == ["5"] for c in sl["calls"]) and not (sl["ops"] - {"Eq", "Ne"})
        rep.check(P + ".wasted", "streaming decoder: LPC prediction uses the 5-bit shift read from the stream, unmodified", good, loc_of(lb))


def partition_guard_rules(F, ok, rep, P):
    # ---- C17.part ----------------------------------------------------------------------------------------------
    rp = F.one("::from_reader::read_partitions") or [b for b in F.bodies if b.promoted is None and b.path.endswith("from_reader::read_partitions")]
    if not rp:
        rep.bad(P + ".part", "anchor:read_partitions", "src/stream.rs", "not found")
    else:
        b = rp[0]
        pf = ok.path_facts(b)
        tgt = [i for i, t in b.calls() if re.search(r"Iterator::collect$|Iterator::map$", callee_name(t))]
        if not tgt:
            # an explicit loop instead of map/collect: the place where the partitions are read
            tgt = [i for i, t in b.calls() if (t["f"].get("path") or "").startswith("bitstream_io::BitRead::parse")]
        if not tgt:
            tgt = [bi for bi, bl in enumerate(b.blocks) for st_ in bl["s"] if st_["rv"]["r"] == "agg" and st_["rv"].get("adt") == "std::ops::Range"]
        if not tgt:
            rep.bad(P + ".part", "anchor:partition loop in read_partitions", loc_of(b), "not found")
        else:
            f = pf.get(tgt[0], TOP)
            g1 = fact_match(f, "cmp", "^Le$", "Shl|partition_count", "block_size|arg")
            g2 = any(x[0] in ("call-true", "call-false") and "is_multiple_of" in str(x) for x in (f or []))
            g3 = fact_match(f, "cmp", "^Lt$", None, "Div")
            rep.check(P + ".part", "structural parser: partitions only when count <= block size, exact division, and block/count > predictor order", bool(g1 and g2 and g3), loc_of(b), "",
                      "the structural parser's partition-layout guard differs from the streaming decoder's (which needs block %% count == 0 and block/count > order); facts: %s" % fact_str(f))
    db = F.one("decode::read_residuals::read_block")
    if db:
        b = db[0]
        pf = ok.path_facts(b)
        loops_ = [i for i, t in b.calls() if re.search(r"Iterator>::next$|Iterator::next$", callee_name(t)) or (t["f"].get("path") or "") == "std::iter::Iterator::next"]
        if not loops_:
            # the partitions are visited by an adaptor (try_for_each(read_partition)) instead of a `for` loop
            loops_ = [i for i, t in b.calls() if re.search(r"Iterator::(try_for_each|for_each|try_fold|fold)$", callee_name(t))]
        f = pf.get(loops_[0], TOP) if loops_ else TOP
        good = fact_match(f, "cmp", "^Le$", None, None) and any("is_multiple_of" in str(x) for x in (f or [])) and any(x[0] == "cmp" and x[1] == "Eq" and "len" in str(x) for x in (f or []))
        rep.check(P + ".part", "streaming decoder: partitions only when count <= block size, exact division, and chunk count == partition count", bool(good), loc_of(b), "", "facts: %s" % fact_str(f))


def decoder_shift_rules(F, ok, rep, P):
    da = anchor(F, rep, P + ".wasted", "decode::read_subframe")
    # ---- C17.wasted -----------------------------------------------------------------------------------------------
    if da is not None:
        # the switch on (wasted_bps > 0) dominates every Ok(()) of decode::read_subframe
        gts = []
        for bi, bl in enumerate(da.blocks):
            t = bl["t"]
            if t and t["t"] == "switch":
                l = op_local(t["o"])
                ds = da.defs().get(l, []) if l is not None else []
                if len(ds) == 1 and ds[0][1] != "T" and ds[0][2]["rv"]["r"] == "bin" and ds[0][2]["rv"]["op"] in ("Gt", "Ne", "Lt") and "wasted_bps" in (backward_slice(da, ds[0][2]["rv"]["a"])["fields"] | backward_slice(da, ds[0][2]["rv"]["b"])["fields"]):
                    gts.append(bi)
        oks = [bi for bi, s in agg_sites(da, "std::result::Result", "Ok") if s["d"]["l"] == 0 and not s["d"]["p"]]
        shl = [1 for c in F.closures_of(da) for _, t in c.calls() if (t["f"].get("path") or "") == "std::ops::ShlAssign::shl_assign"]
        extra = [loc_of(c, t) for c in [da] + F.closures_of(da) for _, t in c.calls() if (t["f"].get("path") or "") == "std::ops::Shl::shl"]
        sa_ = [loc_of(c, t) for c in [da] + F.closures_of(da) for _, t in c.calls() if (t["f"].get("path") or "") == "std::ops::ShlAssign::shl_assign"]
        extra += sa_[1:] if len(sa_) > 1 else []
        extra += [c.loc(st_["sp"]) for c in [da] + F.closures_of(da) for bl in c.blocks for st_ in bl["s"] if st_["rv"]["r"] == "bin" and st_["rv"]["op"] == "Shl"]
        rep.check(P + ".wasted", "streaming decoder shifts by the wasted bits exactly once (no arm shifts on its own)", not extra, loc_of(da), "",
                  "a subframe arm of decode::read_subframe shifts its samples itself (%s) and the common wasted-bits shift runs as well: those samples are shifted twice" % extra)
        rep.check(P + ".wasted", "streaming decoder applies the wasted-bits shift on every subframe type", len(gts) == 1 and oks and all(da.dominates(gts[0], o) for o in oks) and len(shl) == 1, loc_of(da), "",
                  "a subframe type returns before the wasted-bits shift: its samples differ from the structural parser's by a factor 2^wasted")
    sd = anchor(F, rep, P + ".wasted", "stream::Subframe::decode")
    if sd is not None:
        shl = [c for c in F.closures_of(sd) for _, t in c.calls() if (t["f"].get("path") or "") == "std::ops::Shl::shl"]
        rep.check(P + ".wasted", "structural expansion shifts all four subframe types by wasted_bps", len(shl) == 4, loc_of(sd), "%d shifting closures" % len(shl))
    for path in ("decode::read_subframe", "stream::read_subframe"):
        for b in anchor(F, rep, P + ".wasted", path, multi=True):
            cs = [t for _, t in b.calls() if re.search(r"SignedBitCount::<MAX>::checked_sub$", callee_name(t))]
            rep.check(P + ".wasted", "%s: effective depth = bits-per-sample - wasted bits (checked)" % path, len(cs) >= 1, loc_of(b))


def run(ctx, rep):
    F = ctx.facts()
    ok = OkImplies(F, ctx.cg())
    G = gramlib.grammar_agreement(ctx, rep, "C17", "stream::", 8)

    # ---- C17.tab ---------------------------------------------------------------------------------------
    R = header_reader_tables(F, rep, "C17.tab")
    W = header_writer_tables(F, rep, "C17.tab")
    n = 0
    for field, rkeys in (("block_size", ["block_size"]), ("sample_rate", ["sample_rate:streaminfo"]), ("bit_depth", ["bit_depth:streaminfo"]), ("channels", ["channels"])):
        for k, d in W.get(field, {}).items():
            code = d["code"]
            if not is_int(code):
                rep.bad("C17.tab", "%s %s: writer code is not a constant" % (field, k), "src/stream.rs", str(code))
                continue
            n += 1
            got = R.get(rkeys[0], {}).get(code)
            if field == "channels":
                v = d["variant"]
                want = v[2]
                good = got is not None and got[0] == "ok" and got[1][0] == want
            else:
                val = d["value"]
                special = {"Uncommon8.0": "read8+1", "Uncommon16.0": "read16+1", "KHz.0": "read8*1000", "Hz.0": "read16", "DHz.0": "read16*10", "Streaminfo.0": None}
                want = special.get(val, val)
                if want is None:
                    good = got is not None and got[0] == "ok" and got[1] in ("streaminfo_rate", "streaminfo_bps")
                else:
                    good = got is not None and got[0] == "ok" and str(got[1]) == str(want)
            rep.check("C17.tab", "%s: reader(writer(%s)) is the same variant" % (field, k), good, "src/stream.rs", "code %s -> %s" % (code, got), "writer code %s reads back as %s" % (code, got))
    rep.floor("C17.tab", "writer rows inverted", n, 40)
    rb = impl_body(F, r"FromBitStream$", r"^stream::SubframeHeaderType$", "from_reader", rep, "C17.tab")
    wb = impl_body(F, r"ToBitStream$", r"^stream::SubframeHeaderType$", "to_writer", rep, "C17.tab")
    if rb is not None and wb is not None:
        rt = reader_table(F, rb, 6)
        for code in range(64):
            r = result_of(rt[(None, code)])
            if r[0] != "ok":
                continue
            v = r[1]
            rec = []

            def on_call(pe, env, t, name, args, rec=rec):
                tm = terminal(t)
                if tm is not None:
                    rec.append(args[1:])
                    return OK(("tuple", []))
                return None
            pe = PEval(F, wb, on_call)
            run_region(pe, {1: ("ref", v), 2: ("sym", "w")}, 0)
            back = rec[0][0] if rec and rec[0] else None
            rep.check("C17.tab", "subframe type code %d: writer(reader(code)) == code" % code, back == code, loc_of(wb), show(v, 3), "code %d parses to %s which is written as %s" % (code, show(v, 3), back))

    # ---- C17.clone -------------------------------------------------------------------------------------------
    readers = {}
    for im in F.impls:
        if im["trait"] and re.search(r"bitstream_io::FromBitStream", im["trait"]):
            for it in im["items"]:
                if it["name"] == "from_reader" and F.body(it["path"]) is not None:
                    readers.setdefault(base_path(im["self_ty"]), []).append(F.body(it["path"]))
    stop = {"stream::SubframeHeader", "stream::ResidualPartitionHeader"}

    def expand(seq, depth=0):
        outs = [()]
        for x in seq:
            if x[0] == "nt" and base_path(x[1]) in readers and base_path(x[1]) not in stop and depth < 4:
                alts = set()
                for b in readers[base_path(x[1])]:
                    for s in flat(G.sigs(b)):
                        for e in expand(s, depth + 1):
                            alts.add(e)
                outs = [o + a for o in outs for a in alts][:300]
            else:
                outs = [o + (x,) for o in outs]
        return outs
    da = anchor(F, rep, "C17.clone", "decode::read_subframe")
    sa = anchor(F, rep, "C17.clone", "stream::read_subframe")
    if da is not None and sa is not None:
        a, b = set(), set()
        for s in flat(G.sigs(da)):
            a |= set(expand(s))
        for s in flat(G.sigs(sa)):
            b |= set(expand(s))
        a, b = flat(a), flat(b)
        rep.check("C17.clone", "streaming decoder and structural parser read the same subframe grammar", a == b and len(a) >= 1 and max(len(x) for x in a) >= 9, loc_of(da), "%d maximal sequence(s) of %d terminals" % (len(a), max(len(x) for x in a) if a else 0),
                  "decode.rs reads %s ; stream.rs reads %s" % (sorted(a - b)[:1], sorted(b - a)[:1]))
        for var in ERR_PER_PRODUCTION:
            sites = error_sites(F, var)
            ind = [1 for bb, _, _ in sites if bb.file.endswith("decode.rs")]
            ins = [1 for bb, _, _ in sites if bb.file.endswith("stream.rs")]
            # header errors live in stream.rs only (shared parser): both decoders use them through parse::<SubframeHeader>
            shared = var in ("InvalidSubframeHeader", "InvalidSubframeHeaderType")
            rep.check("C17.clone", "Error::%s is raised by both decoders" % var, (bool(ins) and (bool(ind) or shared)), "", "%d in decode.rs, %d in stream.rs" % (len(ind), len(ins)),
                      "only one of the two decoders rejects with %s: they accept different frames" % var)
    fa = anchor(F, rep, "C17.clone", "decode::read_subframes")
    fb = anchor(F, rep, "C17.clone", "stream::Frame::read_inner")
    if fa is not None and fb is not None:
        for b, what in ((fa, "decode::read_subframes"), (fb, "stream::Frame::read_inner")):
            al = [t for _, t in b.calls() if (t["f"].get("path") or "").endswith("BitRead::byte_align")]
            sk = [t for _, t in b.calls() if (t["f"].get("path") or "").endswith("BitRead::skip") and op_int(t["a"][1]) == 16]
            rep.check("C17.clone", "%s: byte alignment then 16 footer bits" % what, len(al) == 1 and len(sk) == 1, loc_of(b))

    partition_guard_rules(F, ok, rep, "C17")
    decoder_shift_rules(F, ok, rep, "C17")

    decoder_depth_rules(F, ok, rep, "C17")

    # ---- C17.prim: the integer primitives of the two decoders (the SignedInteger helper traits of decode.rs and
    # stream.rs) are the same functions: narrowing by a wrapping cast, wrapping addition
    prim = {}
    for b in F.bodies:
        if b.promoted is not None:
            continue
        m = re.search(r"(decode|stream)::.*SignedInteger.*?(i32|i64)>?::(from_i64|from_u32|wrapping_add)$", b.path.replace(" for ", " ")) or \
            re.match(r"^<(i32|i64) as (decode)::SignedInteger>::(from_i64|from_u32|wrapping_add)$", b.path)
        if not m:
            continue
        if b.path.startswith("<"):
            m2 = re.match(r"^<(i32|i64) as (decode)::SignedInteger>::(\w+)$", b.path)
            mod, ty, fn = m2.group(2), m2.group(1), m2.group(3)
        else:
            m2 = re.match(r"^(stream)::<impl stream::private::SignedInteger for (i32|i64)>::(\w+)$", b.path)
            if not m2:
                continue
            mod, ty, fn = m2.group(1), m2.group(2), m2.group(3)
        if fn not in ("from_i64", "from_u32", "wrapping_add"):
            continue
        shape = (sorted(strip_generics(callee_name(t)).rsplit("::", 1)[-1] for _, t in b.calls()),
                 sorted((s_["rv"]["r"], s_["rv"].get("op") or "", s_["rv"].get("ty") or "") for bl in b.blocks for s_ in bl["s"] if s_["rv"]["r"] in ("cast", "bin", "un")))
        prim.setdefault((ty, fn), {})[mod] = (shape, loc_of(b))
    npr = 0
    for (ty, fn), d in sorted(prim.items()):
        if set(d) == {"decode", "stream"}:
            npr += 1
            rep.check("C17.prim", "%s::%s is the same operation in decode.rs and stream.rs" % (ty, fn), d["decode"][0] == d["stream"][0], d["stream"][1], str(d["stream"][0]),
                      "the structural decoder's %s::%s is %s, the streaming decoder's %s: the two decoders disagree on samples (e.g. saturating vs wrapping narrowing of a 64-bit prediction)" % (ty, fn, d["stream"][0], d["decode"][0]))
    rep.floor("C17.prim", "integer primitives present in both decoders", npr, 6)

    # ---- C17.resid -----------------------------------------------------------------------------------------------------
    sig = {}
    for name, pat in (("decode", r"^decode::read_residuals::read_block$"), ("stream", r"ResidualPartition<RICE_MAX, I> as bitstream_io::FromBitStreamUsing>::from_reader$")):
        bs = [b for b in F.bodies if b.promoted is None and b.kind != "Closure" and re.search(pat, b.path)]
        if not bs:
            rep.bad("C17.resid", "anchor:%s residual unfolding" % name, "", "not found")
            continue
        b = bs[0]
        regb = [b] + F.closures_of(b)
        # only the unfolding arithmetic: operations whose slice contains the unary read (msb) of the Rice code
        ops = sorted({(s["rv"]["op"], op_int(s["rv"]["b"])) for bb in regb for bl in bb.blocks for s in bl["s"] if s["rv"]["r"] == "bin" and s["rv"]["op"] in ("Shr", "BitAnd", "BitOr") or
                     (s["rv"]["r"] == "bin" and s["rv"]["op"] == "Eq" and op_int(s["rv"]["b"]) == 1)})
        # (sets, not multisets: naming `unsigned >> 1` once instead of writing it in both arms is the same unfolding)
        calls = sorted({strip_generics(t["f"].get("path") or "").rsplit("::", 1)[-1] for bb in regb for _, t in bb.calls() if (t["f"].get("path") or "") in ("std::ops::Neg::neg", "std::ops::Sub::sub", "std::ops::Add::add") or "from_u32" in (t["f"].get("path") or "")})
        sig[name] = (ops, calls)
    if len(sig) == 2:
        rep.check("C17.resid", "both decoders unfold Rice residuals with the same operations", sig["decode"] == sig["stream"], "", str(sig["decode"])[:200], "decode.rs: %s ; stream.rs: %s" % (sig["decode"], sig["stream"]))

    fold_rules(F, rep, "C17")
    from rules import C03
    C03.midside_parity_rules(F, rep, "C17")

    # ---- C17.panic --------------------------------------------------------------------------------------------------------
    auditlib.panic_audit(ctx, rep, "C17", ["G_stream_w"], floor_sites=30)
    from rules import iolib, C03
    iolib.count_rules(ctx, rep, "C17")
    compose(ctx, rep, "C03", "C17.dec", r"^C03\.wide$")
