"""C14 An interrupted encode leaves a file whose complete frames are all decodable.

Decided:
  C14.gram    reader and writer of the blocks of the provisional header (incl. placeholder seek points) agree field by field
  C14.append  nothing reachable from Encoder::encode (hence from the writers' write methods) seeks; the only seek in the
              encoder is the header rewrite in finalize_inner, so frames are appended strictly sequentially
  C14.header  Encoder::new returns Ok only after the provisional metadata blocks were written successfully, and
              before any frame
  C14.frame   every frame carries its own header CRC-8 and a CRC-16 footer (as C02.footer) and the decoder releases a
              frame only behind both gates (as C05.gate); a write error aborts the frame with an error (no success
              after a failed write)
  C14.count   the sample counter update and seek point bookkeeping do not write to the stream
  C14.len     a frame is emitted only after the declared-length check passed (an over-long write leaves no complete frame
              beyond the declared total)
Not decided: what the decoder returns for a given prefix (value-level).
"""
from rules.common import *
from rules import iolib
from okimplies import OkImplies, fact_str, TOP

META = {"level": "other", "rule": "who-may-call over the call graph (Seek), must-pass-through in Encoder::new, gate rules shared with C02/C05",
        "explanation": "Structural necessary conditions: append-only emission before finalize and self-delimiting checked frames."}


def run(ctx, rep):
    F = ctx.facts()
    cg = ctx.cg()
    ok = OkImplies(F, cg)
    ok.some_only = True
    # ---- C14.gram: the provisional header of an interrupted file (STREAMINFO, placeholder SEEKTABLE, PADDING and the
    # options' own blocks) must parse back: reader and writer of those blocks use the same bit-field sequences
    from rules import gramlib
    gramlib.grammar_agreement(ctx, rep, "C14", "metadata::", 4, only=r"Streaminfo|SeekPoint|SeekTable|Padding|BlockHeader|BlockSize")
    # ---- C14.append
    roots = [b.key for b in F.bodies if b.promoted is None and strip_generics(b.path) in ("encode::Encoder::encode", "encode::encode_frame", "encode::FlacStreamWriter::write")]
    rep.floor("C14.append", "emission roots", len(roots), 3)
    reach = cg.reach(roots)
    seekers = []
    for k in reach:
        bb = F.by_key.get(k)
        if bb is None:
            continue
        for _, t in bb.calls():
            n = t["f"].get("path") or ""
            if n.startswith("std::io::Seek::") or re.search(r"as std::io::Seek>::", callee_name(t)):
                seekers.append((bb, t))
    rep.check("C14.append", "no Seek method reachable from Encoder::encode / encode_frame / FlacStreamWriter::write", not seekers, "src/encode.rs",
              "%d bodies reachable" % len(reach), "frame emission reaches %s in %s: frames are no longer appended strictly sequentially" % (
                  callee_name(seekers[0][1]) if seekers else "", seekers[0][0].path if seekers else ""))
    all_seeks = [(b, t) for b in F.bodies if b.promoted is None and b.file.endswith("encode.rs") for _, t in b.calls() if (t["f"].get("path") or "") == "std::io::Seek::seek"]
    rep.check("C14.append", "the only seek of the encoder is the header rewrite in Encoder::finalize_inner",
              len(all_seeks) == 1 and strip_generics(all_seeks[0][0].path) == "encode::Encoder::finalize_inner", "src/encode.rs",
              str([strip_generics(b.path) for b, _ in all_seeks]))
    # write methods do not call finalize
    for path in ("<encode::FlacByteWriter<W, E> as std::io::Write>::write", "encode::FlacSampleWriter::write", "encode::FlacChannelWriter::write"):
        bs = [b for b in F.bodies if b.promoted is None and (b.path == path or strip_generics(b.path) == path)]
        for b in bs:
            r = cg.reach([b.key])
            fin = [k for k in r if strip_generics(k).endswith("finalize_inner")]
            rep.check("C14.append", "%s never finalizes" % strip_generics(path), not fin, loc_of(b), "", "write reaches %s" % fin[:1])
    # ---- C14.header
    nb = anchor(F, rep, "C14.header", "encode::Encoder::new")
    if nb is not None:
        pf = ok.path_facts(nb)
        for bi, s in agg_sites(nb, "std::result::Result", "Ok"):
            if s["d"]["l"] == 0 and not s["d"]["p"]:
                f = pf.get(bi, TOP)
                rep.check("C14.header", "Encoder::new succeeds only after write_blocks succeeded", fact_match(f, "call-ok", r"metadata::write_blocks$"), nb.loc(s["sp"]),
                          "", "an encoder can be created without its provisional metadata having been written; facts: %s" % fact_str(f))
        wb = call_blocks(nb, r"metadata::write_blocks$")
        rep.check("C14.header", "provisional metadata written exactly once, starting with the fLaC tag (write_blocks)", len(wb) == 1, loc_of(nb))
    # ---- C14.frame
    for path in ("encode::encode_frame", "encode::FlacStreamWriter::write"):
        b = anchor(F, rep, "C14.frame", path)
        if b is None:
            continue
        s = ok.summary(b)
        rep.check("C14.frame", "%s: success implies the CRC-16 footer write succeeded" % path, fact_match(s, "call-ok", r"write_from$") and fact_match(s, "call-ok", r"aligned_writer$"), loc_of(b),
                  "", "facts: %s" % fact_str(s))
        rep.check("C14.frame", "%s: success implies the frame header (with CRC-8) was written" % path, fact_match(s, "call-ok", r"FrameHeader::write(_subset)?$"), loc_of(b), "", fact_str(s))
    for path, crc in (("decode::Decoder::read_frame", "crc::Crc16"), ("decode::Decoder::read_frame", "crc::Crc8")):
        b = anchor(F, rep, "C14.frame", path)
        if b is not None:
            s = ok.summary(b)
            rep.check("C14.frame", "decoder releases a frame only behind %s" % crc, fact_match(s, "valid", crc + "$"), loc_of(b))
    # ---- C14.len: a block that overruns the declared total is refused before any of it is written
    eb0 = anchor(F, rep, "C14.len", "encode::Encoder::encode")
    if eb0 is not None:
        pf = ok.path_facts(eb0)
        ef = call_blocks(eb0, r"encode::encode_frame$")
        gate = lambda f: fact_match(f, "is", "^None$", "total_samples") or fact_match(f, "cmp", "^Le$", "samples_written", "NonZero::get|total")
        rep.check("C14.len", "encode_frame is reached only with no declared total or samples_written <= total", len(ef) == 1 and ok.must_pass(eb0, ef[0][0], gate), loc_of(eb0), "",
                  "a frame can be emitted before (or without) the declared-length check: an over-long write leaves a complete frame the decoder will not deliver")
    # (and that check must look at the counter *including* the block at hand: C15.len)
    compose(ctx, rep, "C15", "C14.decl", r"^C15\.len$", key_only=r"declared-length check sees the counter")
    iolib.count_rules(ctx, rep, "C14")
    # recovering every complete frame also needs readers that hand out what they have decoded before decoding on (a
    # later frame's error must not swallow earlier complete frames): C07.refill / C07.eof
    compose(ctx, rep, "C07", "C14.rd", r"^C07\.(refill|eof)$")

    # ---- C14.count: Encoder::encode writes only through encode_frame
    eb = anchor(F, rep, "C14.count", "encode::Encoder::encode")
    if eb is not None:
        direct = [callee_name(t) for _, t in eb.calls() if re.search(r"std::io::Write::|BitWrite::", t["f"].get("path") or "")]
        rep.check("C14.count", "Encoder::encode emits bytes only through encode_frame", not direct and len(call_blocks(eb, r"encode::encode_frame$")) == 1, loc_of(eb), str(direct))
    from rules import C09 as _C09
    compose(ctx, rep, "C09", "C14.fin", r"^C09\.(start|order)$")
    compose(ctx, rep, "C01", "C14.enc", r"^C01\.(corr|zero|slot|wasted)$")
