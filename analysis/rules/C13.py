"""C13 Success is only reported when the output really reached the underlying stream.

Decided:
  C13.drop   error discipline (engine D1): every call returning Result<_, io::Error | Error> in the library has its
             result propagated, or matched with the Err payload read; dropped / .ok() / is_err() / unwrap_or / unwrap
             uses are violations unless listed in spec/allow_errors.json with a reason (keyed, with multiplicity)
  C13.flush  every BufWriter the library creates and drops itself is flushed through the BufWriter, with the flush
             result propagated, on every success path after the last write (update_file's in-place writer); the
             other BufWriters are moved into the returned writer struct
  C13.conv   Error <-> io::Error conversions keep the underlying io::Error
  C13.count  I/O adaptors forward the inner result and account only the transferred bytes
  C13.panic  engine B over the writer and metadata-writer entry points: no unaudited panic site (no unwrap/expect
             on a failing underlying stream)
  C13.enc    guards behind the encoder's audited panic sites (C15.guard): Encoder::encode refuses a frame whose sample count
             does not fit the 16-bit block size (what finalize / Drop can hand over after a failed write), frames are
             filled only from non-empty blocks
  C13.read   FlacStreamReader::read reports an I/O error met while parsing a frame header instead of skipping the frame
  (C13.count also requires every Write::flush of the crate's adaptors to forward to the wrapped stream and return its result)
  C13.drop   (also) no flatten / filter_map(Result::ok) / map_while(Result::ok) over an iterator of I/O-bearing results
  C13.len    the declared-length check sees the counter including the block at hand (taken from C15)
Not decided: completeness / validity of the bytes delivered (see C02, C11).
"""
from rules.common import *
from rules import auditlib, iolib
from okimplies import OkImplies, fact_str, TOP
import errdisc

META = {"level": "other", "rule": "error-discipline dataflow over every Result-returning call of the crate; Ok-implies for the flush obligation; adaptor rules; panic-site audit over the writer entry points",
        "explanation": "A dropped or swallowed io::Error is visible in the shape of the MIR: the call's destination local is never branched on, returned or passed on. Every such call site in the crate is enumerated on each run."}


def stream_reader_error_rules(F, ok, rep, P):
    """FlacStreamReader::read: an I/O error met while parsing a candidate frame header is reported; any other header
    error means `not a frame header` and the scan goes on (the reader re-synchronises on garbage)"""
    sb = anchor(F, rep, P, "decode::FlacStreamReader::read")
    if sb is not None:
        pf = ok.path_facts(sb)
        rs = call_blocks(sb, r"FrameHeader::read_subset$")
        good = False
        for bi, s in agg_sites(sb, "Error", "Io"):
            f = pf.get(bi, TOP)
            if fact_match(f, "is", "^Io$", "read_subset") or fact_match(f, "is", "^Err$", "read_subset"):
                good = True
        # the same error value handed back whole: Err(err @ Error::Io(_)) => return Err(err)
        for bi, s in agg_sites(sb, "std::result::Result", "Err"):
            f = pf.get(bi, TOP)
            if s["d"]["l"] == 0 and not s["d"]["p"] and fact_match(f, "is", "^Io$", "read_subset") and s["rv"]["ops"] and op_place(s["rv"]["ops"][0]) is not None:
                if any(re.search(r"FrameHeader::read_subset$", callee_name(c)) for c in backward_slice(sb, s["rv"]["ops"][0])["calls"]):
                    good = True
        rep.check(P, "FlacStreamReader::read returns an I/O error raised while parsing a frame header", good and len(rs) == 1, loc_of(sb), "",
                  "an I/O error from FrameHeader::read_subset is treated as 'not a header' and swallowed")

    if sb is not None:
        # no error exit for a header that merely failed to parse
        bad = []
        for bi, bl in enumerate(sb.blocks):
            f = pf.get(bi) or frozenset()
            if f is TOP:
                continue
            hdr_err = any(x[0] == "is" and x[1] == "Err" and "read_subset" in str(x[2]) for x in f)
            is_io = any(x[0] == "is" and x[1] == "Io" and "read_subset" in str(x[2]) for x in f)
            if not hdr_err or is_io:
                continue
            for st_ in bl["s"]:
                rv = st_["rv"]
                if st_["d"]["l"] == 0 and not st_["d"]["p"] and rv["r"] == "agg" and rv.get("adt") == "std::result::Result" and rv.get("var") == "Err":
                    bad.append(sb.loc(st_["sp"]))
        rep.check(P, "a candidate header that fails to parse (for a reason other than I/O) is skipped, not reported", not bad, loc_of(sb), "",
                  "FlacStreamReader::read returns an error for bytes that merely look like a sync code (%s): garbage between frames aborts the stream instead of being skipped" % bad)


def _nested_result(dty):
    """for `Result<T, E>` / `Option<T>`: a `Result<..>` occurring strictly inside T (not T itself), else None"""
    m = re.match(r"^std::(result::Result|option::Option)<(.*)>$", dty or "")
    if not m:
        return None
    depth, okt = 0, ""
    for ch in m.group(2):
        if ch in "<([":
            depth += 1
        elif ch in ">)]":
            depth -= 1
        if ch == "," and depth == 0:
            break
        okt += ch
    okt = okt.strip()
    if okt.startswith("std::result::Result<") or "std::result::Result<" not in okt:
        return None
    i = okt.index("std::result::Result<")
    depth, out = 0, ""
    for ch in okt[i:]:
        out += ch
        if ch == "<":
            depth += 1
        elif ch == ">":
            depth -= 1
            if depth == 0:
                break
    return out


_PASS_THROUGH = re.compile(r"^(?:&mut |&)?std::iter::(?:Take|Skip|Peekable|Fuse|StepBy|Filter|Inspect|SkipWhile|TakeWhile|Chain|Rev|Cycle)<(.*)>$")


def _item_type(F, ty, depth=6):
    """the Item type of an iterator type, where it can be told from the facts: a crate iterator (return type of its `next`), a
    std adaptor that keeps its inner iterator's items, std::io's Result-yielding iterators, or a spelled-out `Item = T`"""
    ty = ty.strip()
    while ty.startswith("&mut ") or ty.startswith("&"):
        ty = ty[5:] if ty.startswith("&mut ") else ty[1:]
    if depth == 0:
        return None
    m = re.search(r"Item = (.*)", ty)
    if m and (ty.startswith("impl ") or "dyn " in ty):
        inner, d = "", 0
        for ch in m.group(1):
            if ch in "<([":
                d += 1
            elif ch in ">)]":
                if d == 0:
                    break
                d -= 1
            elif ch in ",+" and d == 0:
                break
            inner += ch
        return inner.strip()
    if re.match(r"^std::io::(Lines|Bytes|Split)<", ty):
        return "std::result::Result<_, std::io::Error>"
    for b in F.bodies:
        if b.promoted is None and b.path.endswith(" as std::iter::Iterator>::next") and b.path.startswith("<"):
            st = b.path[1:-len(" as std::iter::Iterator>::next")]
            if strip_generics(st) == strip_generics(ty):
                rt = b.j["locals"][0]["ty"]
                if rt.startswith("std::option::Option<"):
                    return rt[len("std::option::Option<"):-1]
    m = _PASS_THROUGH.match(ty)
    if m:
        first, d = "", 0
        for ch in m.group(1):
            if ch in "<([":
                d += 1
            elif ch in ">)]":
                d -= 1
            elif ch == "," and d == 0:
                break
            first += ch
        return _item_type(F, first, depth - 1)
    return None


def _dropping_adaptor(F, t):
    """`it.flatten()`, `it.filter_map(Result::ok)`, `it.map_while(Result::ok)`, `it.flat_map(..)` over an iterator of I/O-bearing
    results: every Err item silently disappears from the sequence.  Returns the item type or None."""
    path = t["f"].get("path") or ""
    args = t["f"].get("args") or []
    if not args:
        return None
    if path == "std::iter::Iterator::flatten":
        pass
    elif path in ("std::iter::Iterator::filter_map", "std::iter::Iterator::map_while", "std::iter::Iterator::flat_map"):
        if not any(re.search(r"Result::<.*>::ok\}?$", a) for a in args[1:]):
            return None
    else:
        return None
    it = _item_type(F, args[0])
    if it and it.startswith("std::result::Result<") and errdisc.is_io_bearing(errdisc.err_type(it) or ""):
        return it
    return None


def run(ctx, rep):
    F = ctx.facts()
    cg = ctx.cg()
    allow = ctx.spec("allow_errors.json")
    # ---- C13.drop -----------------------------------------------------------------------------
    seen = {}
    ncalls = 0
    for b in F.bodies:
        if b.promoted is not None:
            continue
        for bi, t in b.calls():
            et = errdisc.err_type(t["dty"])
            if et and errdisc.is_io_bearing(et):
                ncalls += 1
        for bi, t in b.calls():
            # a success value that *contains* I/O-bearing results (Ok(Vec<io::Result<()>>), Some((x, Err..)) ..): the `?` on the
            # outer result says nothing about the inner ones, and nothing forces anyone to look at them
            inner = _nested_result(t["dty"])
            if inner is not None and errdisc.is_io_bearing(errdisc.err_type(inner) or ""):
                fn = b.path if b.path.startswith("<") else strip_generics(b.path)
                key = re.sub(r"\{closure#\d+\}", "{closure}", "%s|%s|results-hidden-in-success-value" % (fn, strip_generics(callee_name(t))))
                seen.setdefault(key, []).append((loc_of(b, t), "the success value of this call holds further I/O results (%s): they can be dropped without being examined" % inner[:80]))
        for bi, t in b.calls():
            it = _dropping_adaptor(F, t)
            if it is not None:
                fn = b.path if b.path.startswith("<") else strip_generics(b.path)
                key = re.sub(r"\{closure#\d+\}", "{closure}", "%s|%s|errors-dropped-by-adaptor" % (fn, strip_generics(callee_name(t))))
                seen.setdefault(key, []).append((loc_of(b, t), "this adaptor runs over items of type %s and silently removes every Err from the sequence" % it[:80]))
        for key, loc, what in errdisc.analyse_body(F, b):
            fn = b.path if b.path.startswith("<") else strip_generics(b.path)
            key = fn + "|" + key.split("|", 1)[1]
            key = re.sub(r"\{closure#\d+\}", "{closure}", key)
            seen.setdefault(key, []).append((loc, what))
    for key, items in sorted(seen.items()):
        a = allow.get(key)
        if a is None:
            # the same deliberate discard spelled differently: `match r { Ok(..) => .., Err(_) => fallback }` vs `r.ok()` / `if let Ok`
            for alt in ("err-arm-ignores-error", "swallowed:ok", "swallowed:unwrap_or_default", "swallowed:is_ok", "swallowed:is_err"):
                k2 = key.rsplit("|", 1)[0] + "|" + alt
                if k2 != key and k2 in allow and k2 not in seen:
                    a = allow[k2]
                    break
        if a is not None and len(items) <= a["n"]:
            for loc, what in items:
                rep.ok("C13.drop", "allowed:" + key, loc, a["why"])
        else:
            for loc, what in items:
                rep.bad("C13.drop", "site:" + key, loc, "%s; not in spec/allow_errors.json (%d allowed, %d present)" % (what, a["n"] if a else 0, len(items)))
    rep.check("C13.drop", "all I/O-bearing results examined", ncalls >= 1200, "", "%d calls returning Result<_, io::Error|Error> classified, %d keys needed an allow-list entry" % (ncalls, len(seen)))
    rep.note("io_bearing_calls", ncalls)

    # ---- C13.flush ---------------------------------------------------------------------------------
    ok = OkImplies(F, cg)
    news = []
    for b in F.bodies:
        if b.promoted is not None:
            continue
        for bi, t in b.calls():
            if re.search(r"std::io::BufWriter::<W>::new$", callee_name(t)):
                news.append((b, bi, t))
    local_ones = 0
    for b, bi, t in news:
        # does the writer escape into the returned value / a callee that keeps it?  (create*: passed to the writer constructor)
        uses = [tt for _, tt in b.calls() if any(op_local(a) == t["d"]["l"] for a in tt["a"])]
        escapes = any(re.search(r"Flac(Byte|Sample|Channel)Writer::<.*>::new$|Flac(Byte|Sample|Channel)Writer::.*new$", callee_name(tt)) for tt in uses)
        if escapes:
            rep.ok("C13.flush", "%s: BufWriter is moved into the returned writer (flushed by the caller through Write::flush / finalize)" % strip_generics(b.path), loc_of(b, t))
            continue
        local_ones += 1
        s = ok.summary(b)
        flushes = [tt for _, tt in b.calls() if re.search(r"<std::io::BufWriter<W> as std::io::Write>::flush$", callee_name(tt)) or ((tt["f"].get("path") or "") == "std::io::Write::flush" and "BufWriter" in (tt["aty"][0] if tt["aty"] else ""))]
        good = len(flushes) >= 1 and fact_match(s, "call-ok", r"Write>?::flush$")
        # the flush must come after the last write on every success path: it dominates every Ok / final return value
        wr = [i for i, tt in b.calls() if re.search(r"metadata::write_blocks$|Write::write_all$|Write::write$", callee_name(tt))]
        fl = [i for i, tt in b.calls() if tt in flushes]
        good = good and fl and all(b.dominates(w, fl[0]) for w in wr)
        rep.check("C13.flush", "%s: locally owned BufWriter is flushed (through the BufWriter) and the result propagated" % strip_generics(b.path), bool(good), loc_of(b, t), "",
                  "a BufWriter created and dropped inside %s is not flushed through the BufWriter itself with its result returned: a failing write would be swallowed by BufWriter's Drop; success facts: %s" % (strip_generics(b.path), fact_str(s)))
    rep.floor("C13.flush", "BufWriter constructions", len(news), 2)
    rep.floor("C13.flush", "locally owned BufWriters", local_ones, 1)
    ub = anchor(F, rep, "C13.flush", "metadata::update_file")
    if ub is not None:
        direct = [t for _, t in ub.calls() if re.search(r"std::io::BufWriter::<W>::new$", callee_name(t))]
        rep.check("C13.flush", "update_file writes in place only through write_in_place", not direct and len(call_blocks(ub, r"update_file::write_in_place$")) >= 1, loc_of(ub))

    # ---- C13.conv -------------------------------------------------------------------------------------
    cb = [b for b in F.bodies if b.promoted is None and b.path == "<impl std::convert::From<Error> for std::io::Error>::from"]
    if not cb:
        rep.bad("C13.conv", "anchor:From<Error> for io::Error", "src/lib.rs", "impl not found")
    else:
        b = cb[0]
        # the Io arm returns the payload itself
        good = False
        for bl in b.blocks:
            for s in bl["s"]:
                if s["d"]["l"] == 0 and not s["d"]["p"] and s["rv"]["r"] == "use":
                    rp = root_place(b, s["rv"]["o"])
                    if rp and any(e.startswith("as Io") for e in rp["p"]):
                        good = True
        rep.check("C13.conv", "From<Error> for io::Error returns the wrapped io::Error unchanged", good, loc_of(b), "", "an underlying io::Error is rebuilt (kind/message lost) when converted")
    cb = [b for b in F.bodies if b.promoted is None and b.path == "<Error as std::convert::From<std::io::Error>>::from"]
    if not cb:
        rep.bad("C13.conv", "anchor:From<io::Error> for Error", "src/lib.rs", "impl not found")
    else:
        b = cb[0]
        ags = agg_sites(b, "Error", "Io")
        rep.check("C13.conv", "From<io::Error> for Error wraps the error in Error::Io", len(ags) == 1 and op_local(ags[0][1]["rv"]["ops"][0]) is not None, loc_of(b))

    # ---- C13.count ---------------------------------------------------------------------------------------
    iolib.count_rules(ctx, rep, "C13")
    iolib.flush_forward_rules(ctx, rep, "C13")

    stream_reader_error_rules(F, ok, rep, "C13.read")

    # ---- C13.panic ---------------------------------------------------------------------------------------
    auditlib.panic_audit(ctx, rep, "C13", ["G_enc", "G_mw"], floor_sites=250)
    from rules import C10
    compose(ctx, rep, "C10", "C13.upd", r"^C10\.(validate|rewind|copy|open)$")
    # guards behind audited panic sites of the encoder that a failed write can otherwise reach (finalize / Drop after an error)
    compose(ctx, rep, "C15", "C13.enc", r"^C15\.guard$", key_only=r"Encoder::encode converts|fills its frame only with a non-empty block|exact_div")
    compose(ctx, rep, "C15", "C13.len", r"^C15\.len$", key_only=r"declared-length check sees the counter")
