"""rules about the crate's I/O adaptors, shared by C02/C07/C13/C14: state is updated from the transferred byte count"""
from rules.common import *

ADAPTORS = [
    # (impl trait regex, self type regex, method, state field)
    (r"^std::io::Read$", r"^Counter<F>$", "read", "count"),
    (r"^std::io::Write$", r"^Counter<F>$", "write", "count"),
    (r"^std::io::Read$", r"^crc::CrcReader<R, C>$", "read", "checksum"),
    (r"^std::io::Write$", r"^crc::CrcWriter<W, C>$", "write", "checksum"),
]


def _amount_ctx(F, b, inner):
    """where and how an adaptor sees the byte count its inner read/write returned.
    Idiom A: inner(..).inspect(|amt| ..)  -> (closure body, operand derives from the closure argument)
    Idiom B: let amt = inner(..)?; ..; Ok(amt) -> (the method body, operand derives from the Continue payload)
    Returns (body, is_amount(operand), returns_inner_result) or None"""
    insp = [t for _, t in b.calls() if re.search(r"Result::<T, E>::inspect$", callee_name(t))]
    for t in insp:
        src = [x for k, x in origins(b, t["a"][0]) if k == "call"]
        if src and src[0] is inner and t["cls"]:
            cb = F.body(t["cls"][0])
            if cb is not None:
                def is_amt(o, cb=cb):
                    if op_place(o) is None:
                        return False
                    rp = root_place(cb, o)
                    return (rp is not None and rp["l"] == 2) or 2 in backward_slice(cb, o)["args"]
                return cb, is_amt, t["d"]["l"] == 0
    for bi, t in b.calls():
        if re.search(r"Try>::branch$", callee_name(t)):
            src = [x for k, x in origins(b, t["a"][0]) if k == "call"]
            if src and src[0] is inner:
                cf = t["d"]["l"]

                def is_amt(o, cf=cf):
                    if op_place(o) is None:
                        return False
                    rp = root_place(b, o)
                    if rp is not None and rp["l"] == cf and any("Continue" in e for e in rp["p"]):
                        return True
                    sl = backward_slice(b, o)
                    return any(c is t for c in sl["calls"]) and not any(re.search(r"::len$", callee_name(c)) for c in sl["calls"])
                # the value returned on success is Ok(amount)
                ret_ok = False
                for bl in b.blocks:
                    for st in bl["s"]:
                        rv = st["rv"]
                        if st["d"]["l"] == 0 and not st["d"]["p"] and rv["r"] == "agg" and rv.get("var") == "Ok" and rv["ops"] and is_amt(rv["ops"][0]):
                            ret_ok = True
                return b, is_amt, ret_ok
    # Idiom C: match inner(..) { Ok(amt) => { ..; Ok(amt) }, Err(e) => Err(e) }
    if not inner["d"]["p"]:
        dl = inner["d"]["l"]

        def payload_of(o, variant):
            if op_place(o) is None:
                return False
            rp = root_place(b, o)
            return rp is not None and rp["l"] == dl and any(re.search(r"\b%s\b" % variant, e) for e in rp["p"])

        def is_amt(o):
            if payload_of(o, "Ok"):
                return True
            if op_place(o) is None:
                return False
            sl = backward_slice(b, o)
            return any(c is inner for c in sl["calls"]) and not any(re.search(r"::len$", callee_name(c)) for c in sl["calls"])
        rets = [st for bl in b.blocks for st in bl["s"] if st["d"]["l"] == 0 and not st["d"]["p"] and st["rv"]["r"] == "agg" and st["rv"].get("adt") == "std::result::Result"]
        oks = [st for st in rets if st["rv"].get("var") == "Ok"]
        errs = [st for st in rets if st["rv"].get("var") == "Err"]
        whole = [st for bl in b.blocks for st in bl["s"] if st["d"]["l"] == 0 and not st["d"]["p"] and st["rv"]["r"] == "use" and op_place(st["rv"]["o"]) is not None and
                 (root_place(b, st["rv"]["o"]) or {}).get("l") == dl and not (root_place(b, st["rv"]["o"]) or {"p": [1]})["p"]]
        if whole and not rets:
            # Idiom D: let r = inner(..); if let Ok(amt) = r { .. }; r   - the inner result itself is what is returned
            return b, is_amt, True
        if oks and errs:
            unchanged = all(st["rv"]["ops"] and payload_of(st["rv"]["ops"][0], "Ok") for st in oks) and all(st["rv"]["ops"] and payload_of(st["rv"]["ops"][0], "Err") for st in errs)
            return b, is_amt, unchanged
    return None


def count_rules(ctx, rep, P):
    F = ctx.facts()
    n = 0
    for tr, st, meth, field in ADAPTORS:
        bs = impl_method(F, rep, P + ".count", tr, st, meth)
        for b in bs:
            n += 1
            inner = [t for _, t in b.calls() if (t["f"].get("path") or "") in ("std::io::Read::read", "std::io::Write::write")]
            ac = _amount_ctx(F, b, inner[0]) if len(inner) == 1 else None
            rep.check(P + ".count", "%s::%s returns the inner result unchanged and updates %s only on Ok (Result::inspect)" % (st.strip("^$"), meth, field), ac is not None and ac[2], loc_of(b), "",
                      "the adaptor no longer hands the inner stream's result (error or byte count) back to its caller unchanged")
            if ac is None:
                continue
            cb, is_amt, _ = ac
            if field == "count":
                sl_ok = any(st_["rv"]["r"] == "bin" and st_["rv"]["op"].startswith("Add") and (is_amt(st_["rv"]["a"]) or is_amt(st_["rv"]["b"])) for bl in cb.blocks for st_ in bl["s"])
                rep.check(P + ".count", "%s::%s counts the bytes the inner stream reported" % (st.strip("^$"), meth), sl_ok, loc_of(cb), "",
                          "the byte counter is not advanced by the returned amount (e.g. by buf.len() instead): short transfers would be miscounted")
            else:
                idx = [t for _, t in cb.calls() if re.search(r"Index<.*>( for \[T\])?>::index$", callee_name(t))]
                good2 = False
                for t in idx:
                    for k, x in origins(cb, t["a"][1]):
                        if k == "agg" and x.get("adt") in ("std::ops::Range", "std::ops::RangeTo") and is_amt(x["ops"][-1]):
                            good2 = True
                upd = [t for c2 in [cb] + F.closures_of(cb) for _, t in c2.calls() if (t["f"].get("path") or "").endswith("Checksum::update")]
                rep.check(P + ".count", "%s::%s folds the checksum over buf[0..amt], the bytes actually transferred" % (st.strip("^$"), meth), good2 and bool(upd), loc_of(cb), "",
                          "the checksum is folded over bytes other than the ones the inner stream transferred (whole buffer instead of buf[0..amt]): short reads/writes corrupt the CRC")
    rep.floor(P + ".count", "I/O adaptors", n, 4)
    limited_reader_rule(F, rep, P + ".count")


def limited_reader_rule(F, rep, RULE):
    # the block-size limiter of the metadata reader
    lr = [b for b in F.bodies if b.promoted is None and re.search(r"LimitedReader<R> as std::io::Read>::read$", b.path)]
    if not lr:
        rep.bad(RULE, "anchor:LimitedReader::read", "", "not found")
    for b in lr[:1]:
        mins = [t for _, t in b.calls() if re.search(r"Ord::min$|cmp::min$", callee_name(t))]
        inner = [t for _, t in b.calls() if (t["f"].get("path") or "") == "std::io::Read::read"]
        ac = _amount_ctx(F, b, inner[0]) if len(inner) == 1 else None
        by_amt = False
        nsub = 0
        if ac is not None:
            cb, is_amt, _ = ac
            for body in {id(b): b, id(cb): cb}.values():
                for bl in body.blocks:
                    for s_ in bl["s"]:
                        if s_["rv"]["r"] == "bin" and s_["rv"]["op"].startswith("Sub"):
                            nsub += 1
                            by_amt = by_amt or (body is cb and is_amt(s_["rv"]["b"]))
                for _, t in body.calls():
                    if re.search(r"SubAssign<.*>>::sub_assign$", callee_name(t)):
                        nsub += 1
                        by_amt = by_amt or (body is cb and is_amt(t["a"][1]))
        rep.check(RULE, "LimitedReader: the remaining block size shrinks by the bytes actually read", len(mins) == 1 and ac is not None and ac[2] and nsub == 1 and by_amt, loc_of(b), "",
                  "the metadata block limiter no longer accounts the bytes returned by the inner read: a source that splits its reads ends the block early")


def flush_forward_rules(ctx, rep, P):
    """every io::Write adaptor of the crate forwards flush() to the stream it wraps and returns that result"""
    F = ctx.facts()
    n = 0
    for b in F.bodies:
        if b.promoted is not None or not re.search(r" as std::io::Write>::flush$", b.path):
            continue
        n += 1
        fl = [(bi, t) for bi, t in b.calls() if re.search(r"std::io::Write>?::flush$", callee_name(t))]
        good = len(fl) == 1
        if good:
            # the call's result is what is returned
            good = fl[0][1]["d"]["l"] == 0 or any(k == "call" and x is fl[0][1] for bl in b.blocks for s_ in bl["s"] if s_["d"]["l"] == 0 for k, x in origins(b, s_["rv"].get("o", {})) if s_["rv"]["r"] == "use")
            rp = root_place(b, fl[0][1]["a"][0])
            good = good and rp is not None and rp["l"] == 1 and bool(place_fields(rp))
        rep.check(P + ".count", "%s forwards to the wrapped stream's flush and returns its result" % b.path, good, loc_of(b), "",
                  "flush() of a writer adaptor no longer reaches the underlying stream (or drops its result): buffered output can be lost while success is reported")
    rep.floor(P + ".count", "Write::flush implementations", n, 3)
