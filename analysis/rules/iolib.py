"""rules about the crate's I/O adaptors, shared by C02/C07/C13/C14: state is updated from the transferred byte count"""
from rules.common import *

ADAPTORS = [
    # (impl trait regex, self type regex, method, state field)
    (r"^std::io::Read$", r"^Counter<F>$", "read", "count"),
    (r"^std::io::Write$", r"^Counter<F>$", "write", "count"),
    (r"^std::io::Read$", r"^crc::CrcReader<R, C>$", "read", "checksum"),
    (r"^std::io::Write$", r"^crc::CrcWriter<W, C>$", "write", "checksum"),
]


def count_rules(ctx, rep, P):
    F = ctx.facts()
    n = 0
    for tr, st, meth, field in ADAPTORS:
        bs = impl_method(F, rep, P + ".count", tr, st, meth)
        for b in bs:
            n += 1
            # the inner call's result is passed through Result::inspect with a closure that updates the state
            insp = [t for _, t in b.calls() if re.search(r"Result::<T, E>::inspect$", callee_name(t))]
            inner = [t for _, t in b.calls() if (t["f"].get("path") or "") in ("std::io::Read::read", "std::io::Write::write")]
            good = len(insp) == 1 and len(inner) == 1 and b.return_blocks() and insp[0]["d"]["l"] == 0
            if good:
                src = [x for k, x in origins(b, insp[0]["a"][0]) if k == "call"]
                good = bool(src) and src[0] is inner[0]
            rep.check(P + ".count", "%s::%s returns the inner result unchanged and updates %s only on Ok (Result::inspect)" % (st.strip("^$"), meth, field), good, loc_of(b), "",
                      "the adaptor no longer forwards the inner stream's result through inspect: errors or byte counts could be altered")
            cl = [F.body(c) for t in insp for c in t["cls"]]
            for cb in cl:
                if cb is None:
                    continue
                if field == "count":
                    sl_ok = False
                    for bl in cb.blocks:
                        for s in bl["s"]:
                            if s["rv"]["r"] == "bin" and s["rv"]["op"].startswith("Add"):
                                sl = backward_slice(cb, s["rv"]["b"])
                                if 2 in sl["args"]:
                                    sl_ok = True
                    rep.check(P + ".count", "%s::%s counts the bytes the inner stream reported" % (st.strip("^$"), meth), sl_ok, loc_of(cb), "",
                              "the byte counter is not advanced by the returned amount (e.g. by buf.len() instead): short transfers would be miscounted")
                else:
                    idx = [t for _, t in cb.calls() if re.search(r"Index<.*>( for \[T\])?>::index$", callee_name(t))]
                    good2 = False
                    for t in idx:
                        sl = backward_slice(cb, t["a"][1])
                        if 2 in sl["args"] and any(a["adt"] == "std::ops::Range" for a in sl["aggs"]):
                            good2 = True
                    upd = [t for c2 in [cb] + F.closures_of(cb) for _, t in c2.calls() if (t["f"].get("path") or "").endswith("Checksum::update")]
                    rep.check(P + ".count", "%s::%s folds the checksum over buf[0..amt], the bytes actually transferred" % (st.strip("^$"), meth), good2 and bool(upd), loc_of(cb), "",
                              "the checksum is folded over bytes other than the ones the inner stream transferred (whole buffer instead of buf[0..amt]): short reads/writes corrupt the CRC")
    rep.floor(P + ".count", "I/O adaptors", n, 4)
    # the block-size limiter of the metadata reader
    lr = [b for b in F.bodies if b.promoted is None and re.search(r"LimitedReader<R> as std::io::Read>::read$", b.path)]
    if not lr:
        rep.bad(P + ".count", "anchor:LimitedReader::read", "", "not found")
    for b in lr[:1]:
        mins = [t for _, t in b.calls() if re.search(r"Ord::min$|cmp::min$", callee_name(t))]
        cl = F.closures_of(b)
        subs = [s for c in cl for bl in c.blocks for s in bl["s"] if s["rv"]["r"] == "bin" and s["rv"]["op"].startswith("Sub")]
        subs += [t for c in cl for _, t in c.calls() if re.search(r"SubAssign<.*>>::sub_assign$", callee_name(t))]
        in_parent = [s for bl in b.blocks for s in bl["s"] if s["rv"]["r"] == "bin" and s["rv"]["op"].startswith("Sub")]
        in_parent += [t for _, t in b.calls() if re.search(r"SubAssign<.*>>::sub_assign$", callee_name(t))]
        insp = [t for _, t in b.calls() if re.search(r"Result::<T, E>::inspect$", callee_name(t))]
        by_arg = False
        for c in cl:
            for bl in c.blocks:
                for s_ in bl["s"]:
                    if s_["rv"]["r"] == "bin" and s_["rv"]["op"].startswith("Sub"):
                        rp = root_place(c, s_["rv"]["b"])
                        by_arg = rp is not None and rp["l"] == 2   # the closure's own argument: the count the inner read returned
            for _, t in c.calls():
                if re.search(r"SubAssign<.*>>::sub_assign$", callee_name(t)):
                    rp = root_place(c, t["a"][1])
                    by_arg = rp is not None and rp["l"] == 2
        rep.check(P + ".count", "LimitedReader: the remaining block size shrinks by the bytes actually read", len(mins) == 1 and len(subs) == 1 and not in_parent and len(insp) == 1 and by_arg, loc_of(b), "",
                  "the metadata block limiter no longer accounts the bytes returned by the inner read: a source that splits its reads ends the block early")


def flush_forward_rules(ctx, rep, P):
    """every io::Write adaptor of the crate forwards flush() to the stream it wraps and returns that result"""
    F = ctx.facts()
    n = 0
    for b in F.bodies:
        if b.promoted is not None or not re.search(r" as std::io::Write>::flush$", b.path):
            continue
        n += 1
        fl = [(bi, t) for bi, t in b.calls() if re.search(r"std::io::Write>?::flush$", callee_name(t))]
        good = len(fl) == 1
        if good:
            # the call's result is what is returned
            good = fl[0][1]["d"]["l"] == 0 or any(k == "call" and x is fl[0][1] for bl in b.blocks for s_ in bl["s"] if s_["d"]["l"] == 0 for k, x in origins(b, s_["rv"].get("o", {})) if s_["rv"]["r"] == "use")
            rp = root_place(b, fl[0][1]["a"][0])
            good = good and rp is not None and rp["l"] == 1 and bool(place_fields(rp))
        rep.check(P + ".count", "%s forwards to the wrapped stream's flush and returns its result" % b.path, good, loc_of(b), "",
                  "flush() of a writer adaptor no longer reaches the underlying stream (or drops its result): buffered output can be lost while success is reported")
    rep.floor(P + ".count", "Write::flush implementations", n, 3)
