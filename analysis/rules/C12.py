"""C12 Metadata and auxiliary parsers are total on arbitrary input.

Same engines and soundness statement as C04, over the metadata entry points (block readers, every accessor of a parsed
block list, cue-sheet text import / rendering / track ranges, channel mask parsing, picture sniffers):
  C12.panic / C12.loop / C12.rec / C12.alloc / C12.unsafe   as C04
  C12.guard   machine-checked guards behind audited sites:
              duration: division only behind filter(sample_rate > 0);  unquote: slicing only behind len > 1;
              cue import: relative offsets subtracted only after offset >= track offset; MM:SS:FF conversion checked;
              picture sniffers: checked_sub on segment lengths, widened colour-depth products;
              STREAMINFO sample size: code + 1 before signed_count (the audited unwrap);
              LimitedReader: remaining size decremented by the bytes actually read
"""
from rules.common import *
from rules import auditlib
from okimplies import OkImplies, fact_str, TOP

META = {"level": "other", "rule": "panic-site enumeration + interval discharge + reviewed audit table over the metadata entry points; guard rules; loop / recursion / allocation classification",
        "explanation": "As C04 for the metadata, cue sheet and picture parsers and accessors."}


def guards(ctx, rep, P):
    F = ctx.facts()
    ok = OkImplies(F, ctx.cg())
    # ---- duration ------------------------------------------------------------------------------
    db = anchor(F, rep, P + ".guard", "metadata::Metadata::duration")
    if db is not None:
        maps = [t for _, t in db.calls() if re.search(r"Option::<T>::map$", callee_name(t))]
        good = False
        for t in maps:
            src = [x for k, x in origins(db, t["a"][0]) if k == "call"]
            if src and re.search(r"Option::<T>::filter$", callee_name(src[0])) and src[0]["cls"]:
                cb = F.body(src[0]["cls"][0])
                if cb is not None:
                    f = ok.closure_bool_facts(cb)
                    good = fact_match(f, "cmp", "^Lt$", "^const:0$", None) or fact_match(f, "cmp", "^Ne$", "const:0", None)
        rep.check(P + ".guard", "duration: the division by the sample rate is behind filter(sample_rate > 0)", good, loc_of(db), "",
                  "Metadata::duration divides by the sample rate without excluding 0 (a legal STREAMINFO value)")
    # ---- unquote ---------------------------------------------------------------------------------
    ub = F.one("metadata::ParsedCuesheet::parse::unquote")
    if not ub:
        rep.bad(P + ".guard", "anchor:unquote", "", "not found")
    else:
        b = ub[0]
        pf = ok.path_facts(b)
        for bi, t in b.calls():
            if re.search(r"Index<.*> for str>::index$", callee_name(t)):
                f = pf.get(bi, TOP)
                good = fact_match(f, "cmp", "^Lt$", "^const:1$", "len")
                rep.check(P + ".guard", "unquote: &s[1..len-1] only when len > 1", good, loc_of(b, t), "", "the quote-stripping slice is reachable for a one-character string; facts: %s" % fact_str(f))
    # ---- cue sheet relative offsets ------------------------------------------------------------------
    pb = F.one("metadata::ParsedCuesheet::parse")
    if not pb:
        rep.bad(P + ".guard", "anchor:ParsedCuesheet::parse", "", "not found")
    else:
        b = pb[0]
        pf = ok.path_facts(b)
        n = 0
        for bi, t in b.calls():
            if (t["f"].get("path") or "") == "std::ops::Sub::sub":
                n += 1
                f = pf.get(bi, TOP)
                good = fact_match(f, "cmp", "^Le$", None, None) or fact_match(f, "cmp", "^Lt$", None, None)
                good = good and any(x[0] == "cmp" and x[1] in ("Le", "Lt") and "into" in str(x) for x in (f or []))
                rep.check(P + ".guard", "cue import: index offset - track offset only after comparing them", good, loc_of(b, t), "",
                          "the relative index offset is computed without first checking offset >= track offset; facts: %s" % fact_str(f))
        rep.floor(P + ".guard", "relative offset subtractions in the cue parser", n, 1)
    fs = [b for b in F.bodies if b.promoted is None and b.path.startswith("<metadata::cuesheet::CDDAOffset as std::str::FromStr>::from_str") and b.kind != "Closure"]
    for b in fs[:1]:
        reg = region(F, b)
        cm = [1 for bb in reg for _, t in bb.calls() if re.search(r"<impl u64>::checked_mul$", callee_name(t))]
        ca = [1 for bb in reg for _, t in bb.calls() if re.search(r"<impl u64>::checked_add$", callee_name(t))]
        rep.check(P + ".guard", "cue import: MM:SS:FF -> samples uses checked arithmetic on the unbounded minute count", len(cm) >= 2 and len(ca) >= 1, loc_of(b), "%d checked_mul, %d checked_add" % (len(cm), len(ca)))
    if not fs:
        rep.bad(P + ".guard", "anchor:CDDAOffset::from_str", "", "not found")
    # ---- picture sniffers -------------------------------------------------------------------------------
    jb = anchor(F, rep, P + ".guard", "metadata::PictureMetrics::try_jpeg")
    if jb is not None:
        cs = [t for _, t in jb.calls() if re.search(r"<impl u16>::checked_sub$", callee_name(t))]
        rep.check(P + ".guard", "try_jpeg: segment length - 2 is checked", len(cs) == 1, loc_of(jb))
    # ---- STREAMINFO bits-per-sample: (5-bit code + 1) first, signed count second --------------------------------
    sb = [b for b in F.bodies if b.promoted is None and b.path == "<metadata::Streaminfo as bitstream_io::FromBitStream>::from_reader"]
    if not sb:
        rep.bad(P + ".guard", "anchor:Streaminfo::from_reader", "", "not found")
    for b in sb[:1]:
        def from_inc(body, o):
            return any(re.search(r"BitCount::<MAX>::checked_add$|BitCount<.*>::checked_add$", callee_name(c)) and op_int(c["a"][1]) == 1 for c in backward_slice(body, o)["calls"])
        sc = []
        for c in [b] + F.closures_of(b):
            for _, t in c.calls():
                if re.search(r"BitCount(::<MAX>|<.*>)::signed_count$", callee_name(t)):
                    if c is b:
                        sc.append(from_inc(b, t["a"][0]))
                    else:
                        host = [h for _, h in b.calls() if c.path in [getattr(F.body(x), "path", None) for x in (h.get("cls") or ())]]
                        sc.append(len(host) == 1 and from_inc(b, host[0]["a"][0]))
        rep.check(P + ".guard", "Streaminfo::from_reader: the 5-bit sample-size code is incremented before it is turned into a signed bit count", sc == [True], loc_of(b), str(sc),
                  "signed_count() is applied to the raw 5-bit code (0 for 1-bit samples has no signed count): the unwrap audited as `code + 1 in 1..=32` panics on a STREAMINFO with code 0")
    # ---- LimitedReader ----------------------------------------------------------------------------------------
    from rules import iolib
    iolib.limited_reader_rule(F, rep, P + ".guard")


def run(ctx, rep):
    reach, prog = auditlib.panic_audit(ctx, rep, "C12", ["G_meta"], floor_sites=150)
    guards(ctx, rep, "C12")
    auditlib.structure_audit(ctx, rep, "C12", reach, prog)
