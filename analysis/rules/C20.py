"""C20 Cue sheet text import reproduces the layout the text describes.

This is the weakest claim of the twenty: only structural necessary conditions of the importer are decided.
  C20.const  the CD-DA conversion constants agree everywhere they occur and with the reference (75 frames per second,
             60 seconds per minute, 588 samples per frame; ff < 75, ss < 60, minutes unbounded); lead-out numbers 170 / 255
  C20.keys   the parser recognises CATALOG / TRACK / INDEX / ISRC / FLAGS PRE; a new track record is created only by a TRACK
             line, ISRC and FLAGS lines only touch their own field
  C20.rel    index offsets are stored relative to the track's first index (first index sets the track offset, later ones
             subtract it) and every consumer adds the track offset back (text rendering x2, track ranges x2)
  C20.flow   the lead-out offset is the stream length handed to Cuesheet::parse; ShortLeadOut is raised when the last index
             is at or beyond it; CD-DA layout is chosen iff the length is a multiple of 588
  C20.total  the importer, Cuesheet::display and the cue-sheet offset types contain no undischarged panic-capable site and
             keep their guards (the cue-sheet part of C12's panic audit and guard rules, composed)
Not decided: parser correctness on all well-formed texts (value-level).
"""
from rules.common import *
from okimplies import OkImplies, fact_str, TOP

META = {"level": "other", "rule": "constant agreement, keyword/field-write tables, dataflow origin of offsets",
        "explanation": "Structural necessary conditions only; stated as the weakest claim."}


def consts_in(F, bodies):
    cs = set()
    strs = set()
    for b in bodies:
        for bl in b.blocks:
            ops = []
            for s in bl["s"]:
                ops += rv_operands(s["rv"])
            t = bl["t"]
            if t and t["t"] == "call":
                ops += t["a"]
            for o in ops:
                k = o.get("k")
                if k:
                    if k["v"] is not None:
                        cs.add(k["v"])
                    elif k["s"].startswith('"'):
                        strs.add(k["s"].strip('"'))
    return cs, strs


def run(ctx, rep):
    F = ctx.facts()
    ok = OkImplies(F, ctx.cg())
    spec = ctx.spec("rfc9639.json")["cdda"]
    # ---- C20.const ----------------------------------------------------------------------------------
    fs = [b for b in F.bodies if b.promoted is None and b.path == "<metadata::cuesheet::CDDAOffset as std::str::FromStr>::from_str"]
    if not fs:
        rep.bad("C20.const", "anchor:CDDAOffset::from_str", "src/metadata/cuesheet.rs", "not found")
    else:
        b = fs[0]
        filt = [t for _, t in b.calls() if re.search(r"Option::<T>::filter$", callee_name(t))]
        bounds = []
        for t in filt:
            for c in t["cls"]:
                cb = F.body(c)
                if cb is not None:
                    f = ok.closure_bool_facts(cb)
                    for x in f:
                        if x[0] == "cmp" and x[1] == "Lt":
                            bounds.append(x[3])
        # explicit range tests (if ff >= 75 { return Err }) are the same bounds: comparisons of a body local with a constant
        explicit = {}
        for bl in b.blocks:
            for st_ in bl["s"]:
                rv = st_["rv"]
                if rv["r"] == "bin" and rv["op"] in ("Ge", "Lt") and op_int(rv["b"]) is not None and op_place(rv["a"]) is not None:
                    rp = root_place(b, rv["a"])
                    if rp is not None:
                        explicit[rp["l"]] = "const:%d" % op_int(rv["b"])
        bounds += list(explicit.values())
        rep.check("C20.const", "MM:SS:FF fields: frames < 75, seconds < 60, minutes unbounded", sorted(bounds) == ["const:60", "const:75"], loc_of(b), str(bounds),
                  "the field range checks of MM:SS:FF are %s (expected exactly ff < 75 and ss < 60; positions above 99 minutes are legal)" % sorted(bounds))
        cm = [(bb, t) for bb in [b] + F.closures_of(b) for _, t in bb.calls() if re.search(r"<impl u64>::checked_mul$", callee_name(t))]
        mm_ = [1 for bb, t in cm if backward_slice(bb, t["a"][1])["consts"] >= {75, 60} or 4500 in backward_slice(bb, t["a"][1])["consts"]]
        good = len(mm_) == 1
        rep.check("C20.const", "minutes are scaled by 75 x 60 frames", good, loc_of(b))
        cls = [b] + F.closures_of(b)
        c_all, _ = consts_in(F, cls)
        rep.check("C20.const", "seconds are scaled by 75 and frames by 588 samples", {75, 588} <= c_all, loc_of(b), str(sorted(c_all)))

        def bound_of(parent_local):
            """the `< bound` of the filter the parsed field went through"""
            if parent_local in explicit:
                return int(explicit[parent_local][6:])
            sl = backward_slice(b, {"c": {"l": parent_local, "p": []}})
            for c in sl["calls"]:
                if re.search(r"Option::<T>::filter$", callee_name(c)):
                    for cl in c["cls"]:
                        cbb = F.body(cl)
                        for x in (ok.closure_bool_facts(cbb) if cbb else ()):
                            if x[0] == "cmp" and x[1] == "Lt" and str(x[3]).startswith("const:"):
                                return int(str(x[3])[6:])
            return None
        scaled, plain = [], []
        for c in cls:
            for bl in c.blocks:
                for st_ in bl["s"]:
                    rv = st_["rv"]
                    if rv["r"] == "bin" and rv["op"].startswith("Mul"):
                        k = op_int(rv["b"]) if op_int(rv["b"]) is not None else op_int(rv["a"])
                        o = rv["a"] if op_int(rv["b"]) is not None else rv["b"]
                        cs = capture_source(F, c, o) if op_place(o) else None
                        if cs and cs[1] is not None and cs[0].path == b.path and k is not None:
                            scaled.append((bound_of(cs[1]["l"]), k))
                    if rv["r"] == "bin" and rv["op"].startswith("Add"):
                        for o in (rv["a"], rv["b"]):
                            if op_place(o) is None:
                                continue
                            rp = root_place(c, o)
                            if rp is not None and (rp["l"] == 1 or c is b):
                                if any(x.startswith("Mul") for x in backward_slice(c, o)["ops"]):
                                    continue    # the scaled product, not a plain field
                                cs = capture_source(F, c, o)
                                if cs and cs[1] is not None and cs[0].path == b.path and bound_of(cs[1]["l"]) is not None:
                                    plain.append(bound_of(cs[1]["l"]))
        rep.check("C20.const", "the field limited to < 60 (seconds) is multiplied by 75, the field limited to < 75 (frames) is added unscaled", scaled == [(60, 75)] and plain == [75], loc_of(b), "scaled %s plain %s" % (scaled, plain),
                  "MM:SS:FF conversion: scaled fields %s (bound, factor), unscaled %s - expected seconds (< 60) x 75 and frames (< 75) x 1" % (scaled, plain))
    st = F.statics
    rep.check("C20.const", "SAMPLES_PER_SECTOR == 44100 / 75 == 588", st.get("metadata::cuesheet::CDDAOffset::SAMPLES_PER_SECTOR", {}).get("v") == spec["samples_per_frame"], "src/metadata/cuesheet.rs")
    ts = {k.rsplit("::", 1)[1]: v.get("v") for k, v in st.items() if "::Timestamp::" in k}
    rep.check("C20.const", "text rendering uses the same 75 / 60 / 588", ts == {"FRAMES_PER_SECOND": 75, "SECONDS_PER_MINUTE": 60, "SAMPLES_PER_FRAME": 588}, "src/metadata/mod.rs", str(ts))
    rep.check("C20.const", "lead-out track numbers 170 (CD-DA) and 255", st.get("metadata::cuesheet::LeadOut::CDDA", {}).get("v") == spec["leadout_cdda"] and st.get("metadata::cuesheet::LeadOut::NON_CDDA", {}).get("v") == spec["leadout_other"], "src/metadata/cuesheet.rs")
    tf = [b for b in F.bodies if b.promoted is None and b.path == "<metadata::cuesheet::CDDAOffset as std::convert::TryFrom<u64>>::try_from"]
    for b in tf[:1]:
        im = [t for _, t in b.calls() if re.search(r"is_multiple_of$", callee_name(t))]
        rep.check("C20.flow", "CD-DA layout iff the stream length is a multiple of SAMPLES_PER_SECTOR", len(im) == 1, loc_of(b))

    # ---- C20.keys -------------------------------------------------------------------------------------
    pb = F.one("metadata::ParsedCuesheet::parse")
    if not pb:
        rep.bad("C20.keys", "anchor:ParsedCuesheet::parse", "src/metadata/mod.rs", "not found")
        return
    b = pb[0]
    _, strs = consts_in(F, [b])
    need = {"CATALOG", "TRACK", "INDEX", "ISRC", "FLAGS", "PRE"}
    rep.check("C20.keys", "parser recognises CATALOG / TRACK / INDEX / ISRC / FLAGS PRE", need <= strs, loc_of(b), str(sorted(strs)), "keywords matched: %s" % sorted(strs))
    trims = [strip_generics(callee_name(t)).rsplit("::", 1)[-1] for _, t in b.calls() if re.search(r"<impl str>::trim(_start|_end|_matches|_start_matches|_end_matches)?$", callee_name(t))]
    lines = [t for _, t in b.calls() if re.search(r"<impl str>::lines$", callee_name(t))]
    rep.check("C20.keys", "every line is trimmed on both sides before it is matched (spacing accepted by the format)", trims == ["trim"] and len(lines) == 1, loc_of(b), str(trims),
              "lines are split with %s and trimmed with %s: trailing or leading blanks stay on the keyword / value (FLAGS PRE is no longer recognised, positions fail to parse)" % ([callee_name(t)[-12:] for t in lines], trims))
    news = [t for _, t in b.calls() if re.search(r"parse::new$", strip_generics(callee_name(t)))]
    rep.check("C20.keys", "a new track record is created only by the TRACK line", len(news) == 1, loc_of(b), "%d constructions" % len(news),
              "the work-in-progress track is rebuilt %d times: fields set by earlier lines of the same track (FLAGS, ISRC) are lost" % len(news))
    pre = [s for bl in b.blocks for s in bl["s"] if s["d"]["p"] and place_fields(s["d"])[-1:] == ["pre_emphasis"]]
    rep.check("C20.keys", "FLAGS PRE sets pre_emphasis to true, nothing else writes it", len(pre) == 1 and op_int(pre[0]["rv"].get("o", {})) == 1, loc_of(b))
    isrc = agg_sites(b, "metadata::cuesheet::ISRC", "String")
    rep.check("C20.keys", "ISRC line stores the parsed code", len(isrc) == 1, loc_of(b))
    pfb = ok.path_facts(b)
    for bi, st_ in agg_sites(b, "metadata::CuesheetError", "NonZeroFirstIndex"):
        f = pfb.get(bi) or frozenset()
        good = any(x[0] == "call-true" and str(x[1]).endswith("is_empty") for x in f) and any(x[0] == "cmp" and x[1] == "Ne" and "const:0" in (str(x[2]), str(x[3])) for x in f)
        rep.check("C20.keys", "NonZeroFirstIndex only for the first track (no finished track yet) with a non-zero first index", good, b.loc(st_["sp"]), "",
                  "the 'first index must be 00:00:00' rule is applied to tracks other than the first: well-formed multi-track sheets are rejected; facts: %s" % fact_str(f))
    for err in ("MultipleCatalogNumber", "MultipleISRC", "PrematureIndex", "PrematureISRC", "PrematureFlags", "LateISRC", "LateFlags", "NonZeroFirstIndex", "IndexPointsOutOfSequence", "TracksOutOfSequence", "NoTracks", "InvalidTrack", "InvalidIndexPoint"):
        sites = [1 for bb in region(F, b) for bi, s in agg_sites(bb, "metadata::CuesheetError", err)]
        rep.check("C20.keys", "malformed input class %s is rejected" % err, len(sites) >= 1, loc_of(b))

    # ---- C20.rel ---------------------------------------------------------------------------------------------
    subs = [t for _, t in b.calls() if (t["f"].get("path") or "") == "std::ops::Sub::sub"]
    dflt = [t for _, t in b.calls() if (t["f"].get("path") or "") == "std::default::Default::default" and t["f"]["args"][:1] == ["O"]]
    rep.check("C20.rel", "first index of a track gets offset 0 and defines the track offset; later ones subtract it", len(subs) == 1 and len(dflt) >= 1, loc_of(b))
    db = [x for x in F.bodies if x.promoted is None and "DisplayCuesheet" in x.path and x.path.endswith("::fmt") and "Timestamp" not in x.path]
    for x in db[:1]:
        adds = [(c, t) for c in [x] + F.closures_of(x) for _, t in c.calls() if re.search(r"<impl u64>::saturating_add$", callee_name(t))]
        good = len(adds) == 2 and all({"offset"} <= slice_with_captures(F, c, t["a"][0])["fields"] and {"offset"} <= slice_with_captures(F, c, t["a"][1])["fields"] for c, t in adds)
        rep.check("C20.rel", "text rendering prints index offset + track offset (both layouts)", good, loc_of(x), "", "rendering no longer adds the track offset to the relative index offset")
    if not db:
        rep.bad("C20.rel", "anchor:DisplayCuesheet::fmt", "", "not found")
    to = anchor(F, rep, "C20.rel", "metadata::Cuesheet::track_offsets")
    if to is not None:
        adds = [1 for c in F.closures_of(to) for _, t in c.calls() if re.search(r"<impl u64>::saturating_add$", callee_name(t))]
        starts = [1 for c in F.closures_of(to) for _, t in c.calls() if re.search(r"IndexVec::<MAX, O>::start$", callee_name(t))]
        rep.check("C20.rel", "track ranges start at track offset + index 01 (both layouts)", len(adds) == 2 and len(starts) == 2, loc_of(to))

    # ---- C20.flow --------------------------------------------------------------------------------------------------
    cp = anchor(F, rep, "C20.flow", "metadata::Cuesheet::parse")
    if cp is not None:
        n = 0
        for bb in region(F, cp):
            for _, t in bb.calls():
                if re.search(r"cuesheet::Track<.*LeadOut.*>::new$|LeadOut(CDDA|NonCDDA)::new$|Track::<.*>::new$", callee_name(t)) or strip_generics(callee_name(t)).endswith("cuesheet::Track::new"):
                    n += 1
                    sl = slice_with_captures(F, bb, t["a"][1])
                    rep.check("C20.flow", "lead-out offset is the stream length given to Cuesheet::parse", 1 in sl["args"] or "total_samples" in str(sl["fields"]) or bb.kind == "Closure", loc_of(bb, t))
        rep.floor("C20.flow", "lead-out constructions", n, 2)
    for nm in ("CDDAOffset", "u64"):
        pass
    lo = [x for x in F.bodies if x.promoted is None and re.search(r"cuesheet::Track::<.*LeadOut, \(\)>::new$", x.path)]
    for x in lo:
        pf = ok.path_facts(x)
        for bi, s in agg_sites(x, "metadata::CuesheetError", "ShortLeadOut"):
            f = pf.get(bi, TOP)
            good = fact_match(f, "call-true", r"PartialOrd::ge$|::ge$") or fact_match(f, "cmp", "^Le$", None, None)
            rep.check("C20.flow", "ShortLeadOut when the last index is at or beyond the lead-out", good, x.loc(s["sp"]), "", "facts: %s" % fact_str(f))
    rep.floor("C20.flow", "lead-out constructors", len(lo), 2)
    from rules import C11 as _C11
    compose(ctx, rep, "C11", "C20.block", r"^C11\.isrc$")
    compose(ctx, rep, "C11", "C20.order", r"^C11\.contig$")
    # the importer, the text rendering and the offset types are total (the part of C12's audit that concerns cue sheets)
    compose(ctx, rep, "C12", "C20.total", r"^C12\.(panic|guard)$", key_only=r"(?i)cuesheet|Timestamp|CDDAOffset|MM:SS:FF|cue import")
