"""clear-before-fill pairing for the encoder's / decoder's reusable scratch buffers (shared by C01 and C02)"""
from rules.common import *

FILL = re.compile(r"std::vec::Vec::<T, A>::(push|extend_from_slice|append)$|<std::vec::Vec<T, A> as std::iter::Extend<.*>>::extend$")
CLEAR = re.compile(r"std::vec::Vec::<T, A>::clear$")
ALLOW = {
    "decode::FlacSampleReader::read_to_end": "appends to the caller's Vec by contract (like Read::read_to_end)",
}


def _same_place(p, q):
    return p is not None and q is not None and p["l"] == q["l"] and p["p"] == q["p"]


def cache_rules(ctx, rep, P):
    F = ctx.facts()
    n = 0
    for b in F.bodies:
        if b.promoted is not None:
            continue
        if not (b.file.endswith("encode.rs") or b.file.endswith("decode.rs") or b.file.endswith("audio.rs")):
            continue
        fills = [(i, t) for i, t in b.calls() if FILL.search(callee_name(t)) and ("Vec<i32>" in t["aty"][0] or "Vec<f64>" in t["aty"][0])]
        if not fills:
            continue
        clears = [(i, t) for i, t in b.calls() if CLEAR.search(callee_name(t))]
        for i, t in fills:
            rp = root_place(b, t["a"][0])
            base = rp["l"] if rp else None
            # buffers created in this body are not caches
            external = base is not None and (1 <= base <= b.j["argc"] or _derived_from_arg(b, base))
            if not external:
                continue
            key = strip_generics(b.path)
            if key in ALLOW:
                rep.ok(P + ".cache", "%s: fill of external buffer allowed (%s)" % (key, ALLOW[key]), loc_of(b, t))
                continue
            n += 1
            good = any(_same_place(root_place(b, ct["a"][0]), rp) and b.dominates(ci, i) and ci != i for ci, ct in clears)
            rep.check(P + ".cache", "%s: scratch buffer %s is cleared before it is refilled" % (key, _pname(b, rp)), good, loc_of(b, t), "",
                      "a reusable scratch buffer is appended to without being cleared first: data of the previous block leaks into this one")
    # sizing a scratch buffer by resize() instead of clear() + fill: fine when unconditional (the buffer ends up with
    # exactly the new length), stale when it only ever grows (`if buf.len() < n { buf.resize(n, 0) }`)
    from okimplies import OkImplies, TOP
    okc = OkImplies(F, ctx.cg())
    for b in F.bodies:
        if b.promoted is not None or not (b.file.endswith("encode.rs") or b.file.endswith("decode.rs") or b.file.endswith("audio.rs")):
            continue
        rs = [(i, t) for i, t in b.calls() if re.search(r"std::vec::Vec::<T, A>::resize(_with)?$", callee_name(t)) and ("Vec<i32>" in t["aty"][0] or "Vec<f64>" in t["aty"][0] or "Vec<encode::ChannelCache>" in t["aty"][0])]
        if not rs:
            continue
        clears = [(i, t) for i, t in b.calls() if CLEAR.search(callee_name(t))]
        pf = okc.path_facts(b)
        for i, t in rs:
            rp = root_place(b, t["a"][0])
            base = rp["l"] if rp else None
            if not (base is not None and (1 <= base <= b.j["argc"] or _derived_from_arg(b, base))):
                continue
            f = pf.get(i, TOP)
            name = _pname(b, rp)
            grow_only = f is not TOP and any(x[0] == "cmp" and x[1] in ("Lt", "Le", "Gt", "Ge") and "Vec::len" in (str(x[2]) + str(x[3])) and name in (str(x[2]) + str(x[3])) for x in (f or ()))
            # .. or only ever sized once (`if v.is_empty() { v.resize_with(n, ..) }`): the next frame's different n is ignored
            empties = [et for _, et in b.calls() if re.search(r"Vec::<T, A>::is_empty$", callee_name(et)) and _same_place(root_place(b, et["a"][0]), rp)]
            if f is not TOP and empties and any(x[0] == "call-true" and str(x[1]).endswith("Vec::is_empty") for x in (f or ())):
                grow_only = True
            cleared = any(_same_place(root_place(b, ct["a"][0]), rp) and b.dominates(ci, i) and ci != i for ci, ct in clears)
            rep.check(P + ".cache", "%s: scratch buffer %s is resized unconditionally (or cleared first)" % (strip_generics(b.path), name), cleared or not grow_only, loc_of(b, t), "",
                      "a reusable scratch buffer is only ever grown or only sized once (resize behind a test of its own length / emptiness): after a block of another size it keeps the old length, and whoever takes it as a slice or zips over it sees stale or missing entries")
    rep.floor(P + ".cache", "scratch buffer fills", n, 5)

    # ---- recorders in encode_subframe -----------------------------------------------------------------
    b = anchor(F, rep, P + ".cache", "encode::encode_subframe")
    if b is None:
        return
    clears = [(i, t, place_fields(root_place(b, t["a"][0]))) for i, t in b.calls() if callee_name(t).endswith("BitRecorder::<N, E>::clear")]
    uses = []
    for i, t in b.calls():
        nm = strip_generics(callee_name(t))
        if re.match(r"encode::encode_(constant|verbatim|fixed|lpc)_subframe$", nm):
            for a, ty in zip(t["a"], t["aty"]):
                if "BitRecorder" in ty:
                    uses.append((i, t, place_fields(root_place(b, a)), nm))
        elif nm in ("encode::join", "rayon::join", "rayon_core::join"):
            for c in t["cls"]:
                cb = F.body(c)
                if cb is None:
                    continue
                for _, ct in cb.calls():
                    cn = strip_generics(callee_name(ct))
                    if re.match(r"encode::encode_(constant|verbatim|fixed|lpc)_subframe$", cn):
                        for a, ty in zip(ct["a"], ct["aty"]):
                            if "BitRecorder" in ty:
                                fl = slice_with_captures(F, cb, a)["fields"] & {"constant_output", "verbatim_output", "fixed_output", "lpc_output"}
                                uses.append((i, t, sorted(fl), cn))
    m = 0
    for i, t, fl, nm in uses:
        rec = [f for f in fl if f.endswith("_output")]
        if len(rec) != 1:
            rep.bad(P + ".cache", "recorder handed to %s cannot be identified" % nm, loc_of(b, t), str(fl))
            continue
        m += 1
        good = any(rec[0] in cf and b.dominates(ci, i) and ci != i for ci, ct, cf in clears)
        rep.check(P + ".cache", "%s writes into a freshly cleared %s" % (nm, rec[0]), good, loc_of(b, t), "",
                  "%s is recorded into %s without clearing it first: bits of the previous block would be replayed" % (nm, rec[0]))
    rep.floor(P + ".cache", "recorder uses in encode_subframe", m, 4)


def _derived_from_arg(b, l, depth=6):
    """local l is (a projection of) something handed in: an argument, a closure capture, or an item of an iterator over them"""
    if depth <= 0:
        return False
    if 1 <= l <= b.j["argc"]:
        return True
    ds = [d for d in b.defs().get(l, []) if not d[2]["d"]["p"]]
    for bi, si, d in ds:
        if si == "T":
            nm = callee_name(d)
            if re.search(r"Iterator>::next$|Iterator::next$|iter_mut$|IntoIterator>::into_iter$|IntoIterator::into_iter$|::deref_mut$|::as_mut$", nm):
                for a in d["a"]:
                    p = root_place(b, a)
                    if p and _derived_from_arg(b, p["l"], depth - 1):
                        return True
            if re.search(r"Vec::<T>::new$|with_capacity$|::collect$|::default$|::to_vec$|::clone$", nm):
                return False
        else:
            rv = d["rv"]
            if rv["r"] in ("use", "cast"):
                p = op_place(rv["o"])
                if p and _derived_from_arg(b, p["l"], depth - 1):
                    return True
            elif rv["r"] == "ref":
                if _derived_from_arg(b, rv["p"]["l"], depth - 1):
                    return True
    return False


def _pname(b, p):
    fs = place_fields(p)
    if fs:
        return fs[-1]
    return b.local_name(p["l"]) or "_%d" % p["l"]
