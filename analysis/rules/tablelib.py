"""composite code tables of the frame header / subframe / metadata fields, extracted from MIR"""
from rules.common import *
from peval import *
from tables import *

NONE = ("adt", "std::option::Option", "None", 0, [])


def SOME(x):
    return ("adt", "std::option::Option", "Some", 1, [x])


def impl_body(F, trait_re, self_re, method, rep=None, rule="tables"):
    out = []
    for im in F.impls:
        if im["trait"] and re.search(trait_re, im["trait"]) and re.search(self_re, im["self_ty"]):
            for it in im["items"]:
                if it["name"] == method:
                    b = F.body(it["path"])
                    if b is not None:
                        out.append(b)
    if len(out) != 1:
        if rep is not None:
            rep.bad(rule, "anchor:impl %s for %s::%s" % (trait_re, self_re, method), "", "expected exactly one impl method, found %d" % len(out))
        return None
    return out[0]


def canon(v):
    """canonical string of a value expression: read<8>#3 -> read8, Add(x,1) -> x+1, Mul(x,10) -> x*10"""
    s = show(v, 6)
    s = re.sub(r"read(?:_to|_var|_unsigned)?<(\d+)>#\d+", r"read\1", s)
    s = re.sub(r"read_to<u(\d+)>#\d+", r"read\1", s)
    prev = None
    while prev != s:
        prev = s
        s = re.sub(r"Add\(([^(),]+),(\d+)\)", r"\1+\2", s)
        s = re.sub(r"Sub\(([^(),]+),(\d+)\)", r"\1-\2", s)
        s = re.sub(r"Mul\(([^(),]+),(\d+)\)", r"\1*\2", s)
        s = re.sub(r"Div\(([^(),]+),(\d+)\)", r"\1/\2", s)
    return s


def result_of(outcome):
    """('ok', value) | ('err', name) | ('stop', why) from a reader_table outcome"""
    kind, v = outcome
    if kind != "ret":
        return ("stop", v)
    if isinstance(v, tuple) and v[0] == "adt" and v[1] == "std::result::Result":
        if v[2] == "Ok":
            return ("ok", v[4][0] if v[4] else UNK)
        e = v[4][0] if v[4] else UNK
        if isinstance(e, tuple) and e[0] == "adt":
            return ("err", e[2])
        return ("err", show(e))
    return ("stop", "non-Result return " + show(v))


def apply_fn(F, body, arg, arg_local=1, extra_env=None):
    """outcome of a loop-free function body for one abstract argument; terminals are recorded"""
    rec = []
    state = {"n": 0}

    def on_call(pe, env, t, name, args):
        term = terminal(t)
        if term is not None:
            m, a = term
            state["n"] += 1
            rec.append((m, a, args[1:]))
            if m in ("read", "read_to", "read_var", "read_counted", "read_signed_counted", "read_unary", "read_unsigned"):
                return OK(("sym", "%s<%s>#%d" % (m, a[0] if a else "", state["n"])))
            if m == "read_bit":
                return OK(("sym", "bit#%d" % state["n"]))
            return OK(("tuple", []))
        return None
    pe = PEval(F, body, on_call)
    env = dict(extra_env or {})
    env[arg_local] = arg
    r = run_region(pe, env, 0)
    if r[0] == "ret":
        return ("ret", r[1].get(0, UNK)), rec
    return ("stop", r[1]), rec


def value_of_variant(F, from_body, v):
    """apply a `From<Enum> for int` function to a variant value"""
    (k, val), _ = apply_fn(F, from_body, v)
    if k == "ret":
        return canon(val)
    return "stop:" + str(val)


# ---------------------------------------------------------------------------------------
# the five frame-header fields
# ---------------------------------------------------------------------------------------

def header_reader_tables(F, rep, rule):
    """{'block_size': {code: semantic}, ...} composed from the reader-side functions.
    semantic is an int value, an expression string over reads, 'streaminfo', 'left_side'.. or ('err', variant)"""
    T = {}
    # block size
    s1 = impl_body(F, r"FromBitStream$", r"^stream::BlockSize<\(\)>$", "from_reader", rep, rule)
    s2 = impl_body(F, r"FromBitStreamUsing$", r"^stream::BlockSize<u16>$", "from_reader", rep, rule)
    fv = impl_body(F, r"^std::convert::From<stream::BlockSize<u16>>$", r"^u16$", "from", rep, rule)
    if s1 and s2 and fv:
        tab = {}
        for (_, code), oc in reader_table(F, s1, 4).items():
            r = result_of(oc)
            if r[0] != "ok":
                tab[code] = r
                continue
            (k, v2), _ = apply_fn(F, s2, r[1], arg_local=2, extra_env={1: ("sym", "reader")})
            r2 = result_of((k, v2))
            if r2[0] != "ok":
                tab[code] = r2
                continue
            tab[code] = ("ok", value_of_variant(F, fv, r2[1]))
        T["block_size"] = tab
    # sample rate
    s1 = impl_body(F, r"FromBitStreamUsing$", r"^stream::SampleRate<\(\)>$", "from_reader", rep, rule)
    s2 = impl_body(F, r"FromBitStreamUsing$", r"^stream::SampleRate<u32>$", "from_reader", rep, rule)
    fv = impl_body(F, r"^std::convert::From<stream::SampleRate<u32>>$", r"^u32$", "from", rep, rule)
    if s1 and s2 and fv:
        for ctxname, ctx in (("subset", NONE), ("streaminfo", SOME(("sym", "streaminfo_rate")))):
            tab = {}
            for (_, code), oc in reader_table(F, s1, 4, ctx_values=[ctx]).items():
                r = result_of(oc)
                if r[0] != "ok":
                    tab[code] = r
                    continue
                (k, v2), _ = apply_fn(F, s2, r[1], arg_local=2, extra_env={1: ("sym", "reader")})
                r2 = result_of((k, v2))
                if r2[0] != "ok":
                    tab[code] = r2
                    continue
                tab[code] = ("ok", value_of_variant(F, fv, r2[1]))
            T["sample_rate:" + ctxname] = tab
    # channels
    s1 = impl_body(F, r"FromBitStream$", r"^stream::ChannelAssignment$", "from_reader", rep, rule)
    cnt = None
    for b in F.one("stream::ChannelAssignment::count"):
        cnt = b
    if s1 and cnt:
        tab = {}
        for (_, code), oc in reader_table(F, s1, 4).items():
            r = result_of(oc)
            if r[0] != "ok":
                tab[code] = r
                continue
            v = r[1]
            (k, c), _ = apply_fn(F, cnt, ("ref", v))
            tab[code] = ("ok", (v[2], canon(c) if k == "ret" else "stop"))
        T["channels"] = tab
    # bits per sample
    s1 = impl_body(F, r"FromBitStreamUsing$", r"^stream::BitsPerSample$", "from_reader", rep, rule)
    fv = impl_body(F, r"^std::convert::From<stream::BitsPerSample>$", r"^u32$", "from", rep, rule)
    if s1 and fv:
        for ctxname, ctx in (("subset", NONE), ("streaminfo", SOME(("sym", "streaminfo_bps")))):
            tab = {}
            for (_, code), oc in reader_table(F, s1, 3, ctx_values=[ctx]).items():
                r = result_of(oc)
                if r[0] != "ok":
                    tab[code] = r
                    continue
                tab[code] = ("ok", value_of_variant(F, fv, r[1]))
            T["bit_depth:" + ctxname] = tab
    return T


def header_writer_tables(F, rep, rule):
    """variant -> code for the four header enums, plus the value each variant stands for"""
    T = {}
    for name, tr, sr, adt, fvtr, fvself in (
        ("block_size", r"ToBitStream$", r"^stream::BlockSize<B>$", "stream::BlockSize", r"^std::convert::From<stream::BlockSize<u16>>$", r"^u16$"),
        ("sample_rate", r"ToBitStream$", r"^stream::SampleRate<R>$", "stream::SampleRate", r"^std::convert::From<stream::SampleRate<u32>>$", r"^u32$"),
        ("bit_depth", r"ToBitStream$", r"^stream::BitsPerSample$", "stream::BitsPerSample", r"^std::convert::From<stream::BitsPerSample>$", r"^u32$"),
        ("channels", r"ToBitStream$", r"^stream::ChannelAssignment$", "stream::ChannelAssignment", None, None),
    ):
        wb = impl_body(F, tr, sr, "to_writer", rep, rule)
        if wb is None:
            continue
        fv = impl_body(F, fvtr, fvself, "from", rep, rule) if fvtr else None
        wt = writer_table(F, wb, adt)
        tab = {}
        for k, v in wt.items():
            terms = v["terminals"]
            code = None
            width = None
            if len(terms) == 1 and terms[0][0] == "write":
                width = terms[0][1][0]
                code = terms[0][3][0] if terms[0][3] else None
            val = value_of_variant(F, fv, v["value"]) if fv is not None else None
            tab[k] = {"variant": v["value"], "code": code, "width": width, "value": val, "end": v["end"], "why": v["why"]}
        T[name] = tab
    return T
