"""C07 Readers deliver the stream exactly once, in order, however it is consumed.

Decided:
  C07.refill  every Decoder::read_frame call of a front-end is reached only on the buffer-exhausted edge
              (VecDeque::is_empty true / pop_front None / consumed >= pcm_frames): no decoded data is overwritten
  C07.fill    what is appended to the front-end buffer is the whole decoded frame in interleaved order
              (frame.iter() / frame.to_buf::<E>() with the reader's own byte order into a buffer resized to bytes_len)
  C07.eof     the channel reader resets its consumed count only when a new frame was decoded (end of stream is sticky)
  C07.count   I/O adaptors (Counter, CrcReader, CrcWriter, LimitedReader) account the bytes actually transferred
  C07.endian  LittleEndian / BigEndian map to to_le_bytes / to_be_bytes and from_le_bytes / from_be_bytes;
              byte width k <-> i{8k} converters in Frame::to_buf / fill_from_buf
  C07.width   the byte width of a sample is ceil(bits/8) in Frame::bytes_per_sample and the three writer constructors;
              Frame::bytes_len = bytes_per_sample() x samples.len() (the byte reader's staging size)
  C07.take    every VecDeque::drain of a decode front-end removes the prefix 0..n where n is the returned count / the caller's amount
  C07.cast    narrowing `as` casts in decode / audio / byteorder / crc are shown lossless or audited (castlib)
  (C07.eof also requires FlacChannelReader::consume to accumulate: consumed = consumed + amt)
Not decided: exactly-once delivery under all call sequences (value-level); equality of byte and sample outputs.
"""
from rules.common import *
from rules import iolib
from okimplies import OkImplies, fact_str, TOP

META = {"level": "other", "rule": "path facts at every refill site; dataflow origin of what is buffered; callee tables for byte-order conversion",
        "explanation": "Structural necessary conditions for exactly-once in-order delivery."}

FRONTS = [
    ("<decode::FlacByteReader<R, E> as std::io::Read>::read", "empty"),
    ("<decode::FlacByteReader<R, E> as std::io::BufRead>::fill_buf", "empty"),
    ("decode::FlacSampleReader::read", "empty"),
    ("decode::FlacSampleReader::fill_buf", "empty"),
    ("<decode::FlacSampleIterator<R> as std::iter::Iterator>::next", "pop"),
    ("decode::FlacChannelReader::fill_buf", "consumed"),
]


def _get(F, rep, rule, path):
    bs = [b for b in F.bodies if b.promoted is None and (b.path == path or strip_generics(b.path) == path)]
    if len(bs) != 1:
        rep.bad(rule, "anchor:" + path, "", "function not found (%d)" % len(bs))
        return None
    return bs[0]


def bytes_to_le_rules(F, rep, P):
    """byteorder::Endianness::bytes_to_le: a no-op for little-endian input, a full reversal of every sample for big-endian"""
    for end, want in (("byteorder::LittleEndian", "noop"), ("byteorder::BigEndian", "reverse")):
        bs = [b for b in F.bodies if b.promoted is None and b.path == "<%s as byteorder::Endianness>::bytes_to_le" % end]
        if not bs:
            rep.bad(P + ".endian", "anchor:%s::bytes_to_le" % end, "", "not found")
            continue
        b = bs[0]
        names = [strip_generics(nm).rsplit("::", 1)[-1] for nm in callees_in_blocks(F, b, range(len(b.blocks)))]
        if want == "noop":
            good = not names
        else:
            good = "reverse" in names and "chunks_exact_mut" in names and not any(n in ("swap", "rotate_left", "rotate_right", "swap_with_slice") for n in names)
        rep.check(P + ".endian", "%s::bytes_to_le %s" % (end.rsplit("::", 1)[1], "leaves the bytes alone" if want == "noop" else "reverses every sample (chunks of bytes_per_sample)"), good, loc_of(b), str(names),
                  "byte order conversion of %s input does not %s: samples of some widths are scrambled before hashing / encoding" % (end.rsplit("::", 1)[1], "leave the bytes alone" if want == "noop" else "reverse all bytes of each sample"))


def _is_ceil8(b, sl):
    """the slice computes ceil(x / 8): x.div_ceil(8), (x + 7) / 8 or (x + 7) >> 3"""
    dc = [c for c in sl["calls"] if re.search(r"<impl u\d+>::div_ceil$", callee_name(c))]
    ar = {o.replace("WithOverflow", "").replace("Unchecked", "") for o in sl["ops"]} - {"Eq", "Ne", "Lt", "Le", "Gt", "Ge"}
    if len(dc) == 1 and op_int(dc[0]["a"][1]) == 8 and not ar:
        return True
    if not dc and ar == {"Add", "Div"} and {7, 8} <= sl["consts"]:
        return True
    if not dc and ar == {"Add", "Shr"} and {7, 3} <= sl["consts"]:
        return True
    # x / 8 + (x % 8 != 0)
    if not dc and ar == {"Add", "Div", "Rem"} and 8 in sl["consts"] and sl["consts"] <= {8, 0, 1} and ({"Ne", "Gt"} & set(sl["ops"])):
        return True
    return False


def sample_width_rules(F, rep, P):
    """the byte width of a sample is ceil(bits / 8) wherever it is derived, and a frame's byte length is width x samples"""
    R = P + ".width"
    b = anchor(F, rep, R, "audio::Frame::bytes_per_sample")
    if b is not None:
        rets = [st_ for bl in b.blocks for st_ in bl["s"] if st_["d"]["l"] == 0 and not st_["d"]["p"]]
        good = len(rets) == 1
        if good:
            sl = backward_slice(b, rets[0]["rv"].get("o") or rets[0]["rv"].get("a") or {})
            good = _is_ceil8(b, sl) and "bits_per_sample" in sl["fields"] and not (sl["fields"] - {"bits_per_sample"})
        rep.check(R, "Frame::bytes_per_sample == ceil(bits_per_sample / 8)", good, loc_of(b), "",
                  "the sample width in bytes is not bits_per_sample.div_ceil(8): depths that are not a multiple of 8 (12, 20 ..) get the wrong width in the byte readers / MD5")
    b = anchor(F, rep, R, "audio::Frame::bytes_len")
    if b is not None:
        muls = [st_ for bl in b.blocks for st_ in bl["s"] if st_["rv"]["r"] == "bin" and st_["rv"]["op"].startswith("Mul")]
        others = [st_ for bl in b.blocks for st_ in bl["s"] if st_["rv"]["r"] == "bin" and not st_["rv"]["op"].startswith("Mul")]
        good = len(muls) == 1 and not others
        if good:
            srcs = [sorted(strip_generics(callee_name(c)).rsplit("::", 1)[-1] for c in backward_slice(b, muls[0]["rv"][k])["calls"]) for k in ("a", "b")]
            good = sorted(srcs) == [["bytes_per_sample"], ["len"]] and "samples" in (backward_slice(b, muls[0]["rv"]["a"])["fields"] | backward_slice(b, muls[0]["rv"]["b"])["fields"])
        rep.check(R, "Frame::bytes_len == bytes_per_sample() x samples.len()", good, loc_of(b), "",
                  "the byte length of a decoded frame is not width x sample count: the byte reader's staging buffer is too short (or long) for depths that are not whole bytes")
    n = 0
    for path in ("encode::FlacByteWriter::new", "encode::FlacSampleWriter::new", "encode::FlacChannelWriter::new"):
        nb = anchor(F, rep, R, path)
        if nb is None:
            continue
        adt = "encode::" + path.split("::")[1]
        fl = [f["name"] for f in F.adts[adt]["variants"][0]["fields"]]
        if "bytes_per_sample" not in fl:
            rep.bad(R, "anchor:%s.bytes_per_sample" % adt, loc_of(nb), "field not found")
            continue
        for bi, s_ in agg_sites(nb, adt):
            sl = backward_slice(nb, s_["rv"]["ops"][fl.index("bytes_per_sample")])
            n += 1
            rep.check(R, "%s: bytes_per_sample = ceil(bits_per_sample / 8)" % path, _is_ceil8(nb, sl), nb.loc(s_["sp"]), "",
                      "the writer's sample width is not bits_per_sample.div_ceil(8)")
    rep.floor(R, "writer constructors deriving the sample width", n, 3)


def take_rules(F, rep, P):
    """what a reader removes from its buffer is exactly what it reports: every VecDeque::drain in the decode front-ends takes a
    prefix `0..n` (or `..n`), and n is the count the function returns (or, in a consume(amt), the caller's amount)"""
    R = P + ".take"
    n = 0
    for b in F.bodies:
        if b.promoted is not None or not re.match(r"<?decode::", b.path):
            continue
        for bi, t in b.calls():
            if not re.search(r"VecDeque::<.*>::drain$", callee_name(t)):
                continue
            n += 1
            what = "%s: drain removes the counted prefix" % strip_generics(b.path)
            rty = (t["f"].get("args") or [""])[-1]
            rt0 = b.j["locals"][0]["ty"]
            if rty == "std::ops::RangeFull" and not ("Result<usize" in rt0 or rt0 == "usize"):
                # emptying the whole buffer in a function that hands nothing out (a seek): the same as clear()
                rep.ok(R, "%s: drain(..) empties the buffer where nothing is handed out" % strip_generics(b.path), loc_of(b, t))
                continue
            if rty not in ("std::ops::Range<usize>", "std::ops::RangeTo<usize>"):
                rep.bad(R, what, loc_of(b, t), "the range drained is a %s, not a prefix `0..n`: more (or something other) than the samples handed to the caller leaves the buffer" % rty)
                continue
            rl = op_local(t["a"][1])
            aggs = [st_ for bl in b.blocks for st_ in bl["s"] if st_["d"]["l"] == rl and not st_["d"]["p"] and st_["rv"]["r"] == "agg"]
            if len(aggs) != 1:
                rep.check(R, what, False, loc_of(b, t), "", "the drained range is not built in one place")
                continue
            ops = aggs[0]["rv"]["ops"]
            good = len(ops) == 1 or op_int(ops[0]) == 0
            end = root_place(b, ops[-1])
            rt = b.j["locals"][0]["ty"]
            if "Result<usize" in rt or rt == "usize":
                rets = [st_ for bl in b.blocks for st_ in bl["s"] if st_["d"]["l"] == 0 and not st_["d"]["p"] and
                        ((st_["rv"]["r"] == "agg" and st_["rv"].get("var") == "Ok") or rt == "usize")]
                vals = [root_place(b, st_["rv"]["ops"][0] if st_["rv"]["r"] == "agg" else st_["rv"].get("o", {})) for st_ in rets
                        if not (st_["rv"]["r"] == "agg" and op_int(st_["rv"]["ops"][0]) == 0)]
                good = good and bool(vals) and all(v is not None and end is not None and v["l"] == end["l"] and v["p"] == end["p"] for v in vals)
                why = "the number of samples removed from the buffer is not the count returned to the caller"
            else:
                good = good and end is not None and not end["p"] and 1 <= end["l"] <= b.j["argc"]
                why = "the number of samples removed from the buffer is not the caller's amount"
            rep.check(R, what, good, loc_of(b, t), "", why + ": samples are lost (or delivered twice) on a partial read")
    rep.floor(R, "buffer drains in the decode front-ends", n, 1)


def run(ctx, rep):
    F = ctx.facts()
    ok = OkImplies(F, ctx.cg())
    sample_width_rules(F, rep, "C07")
    take_rules(F, rep, "C07")
    n = 0
    for path, kind in FRONTS:
        b = _get(F, rep, "C07.refill", path)
        if b is None:
            continue
        pf = ok.path_facts(b)
        calls = call_blocks(b, r"decode::Decoder::read_frame$")
        in_closure = []
        if not calls and kind == "pop":
            # buf.pop_front().map(Ok).or_else(|| refill): the closure of or_else runs only when the receiver is None, and
            # map() keeps None as None - the same buffer-exhausted edge, written with a combinator
            for c in F.closures_of(b):
                for bi, t in call_blocks(c, r"decode::Decoder::read_frame$"):
                    host = [h for _, h in b.calls() if c.path in [getattr(F.body(x), "path", None) for x in (h.get("cls") or ())]]
                    none_edge = False
                    if len(host) == 1 and re.search(r"Option::<T>::(or_else|unwrap_or_else|ok_or_else)", callee_name(host[0])):
                        cur = host[0]["a"][0]
                        for _ in range(4):
                            src = [x for k, x in origins(b, cur) if k == "call"]
                            if len(src) != 1:
                                break
                            if re.search(r"VecDeque::<T, A>::pop_front$", callee_name(src[0])):
                                none_edge = True
                                break
                            if not re.search(r"Option::<T>::(map|inspect|copied|cloned)(::<.*>)?$", callee_name(src[0])):
                                break
                            cur = src[0]["a"][0]
                    n += 1
                    in_closure.append((c, t))
                    rep.check("C07.refill", "%s decodes a new frame only when its buffer is exhausted" % strip_generics(path), none_edge, loc_of(c, t), "or_else closure",
                              "read_frame is called from a closure that is not limited to the buffer-exhausted (None) edge")
        for bi, t in calls:
            n += 1
            f = pf.get(bi, TOP)
            # any of the three ways the front-ends know their buffer is drained
            good = fact_match(f, "call-true", r"VecDeque::is_empty$") or fact_match(f, "is", "^None$", "pop_front") or fact_match(f, "cmp", "^Le$", "pcm_frames", "consumed")
            rep.check("C07.refill", "%s decodes a new frame only when its buffer is exhausted" % strip_generics(path), good, loc_of(b, t), "",
                      "read_frame is called while buffered data may remain (it would be overwritten / skipped); facts: %s" % fact_str(f))
        delegated = False
        if not calls and not in_closure:
            # a front-end built on a sibling front-end (read = fill_buf + copy + consume): the sibling is checked in its own row
            sib = [t for _, t in b.calls() if any(strip_generics(callee_name(t)) == p2 or callee_name(t) == p2 for p2, _ in FRONTS if p2 != path)]
            delegated = len(sib) == 1
            if delegated:
                n += 1
                cons = [t for _, t in b.calls() if re.search(r"::consume$", callee_name(t))]
                rep.check("C07.refill", "%s refills through %s and consumes what it copied" % (strip_generics(path), strip_generics(callee_name(sib[0]))), len(cons) == 1, loc_of(b, sib[0]))
        rep.check("C07.refill", "%s has exactly one refill site" % strip_generics(path), len(calls) + len(in_closure) == 1 or delegated, loc_of(b))
        if delegated:
            continue
        # ---- C07.fill
        if "FlacByteReader" in path:
            tb = [t for _, t in b.calls() if strip_generics(callee_name(t)) == "audio::Frame::to_buf"]
            rs = [t for _, t in b.calls() if re.search(r"VecDeque::<T, A>::resize$", callee_name(t))]
            good = len(tb) == 1 and len(rs) == 1 and tb[0]["f"]["args"][-1:] == ["E"]
            if good:
                sl = backward_slice(b, rs[0]["a"][1])
                good = any(strip_generics(callee_name(c)) == "audio::Frame::bytes_len" for c in sl["calls"])
                i_rs = [i for i, t in b.calls() if t is rs[0]][0]
                i_tb = [i for i, t in b.calls() if t is tb[0]][0]
                good = good and b.dominates(i_rs, i_tb)
                mk = backward_slice(b, tb[0]["a"][1])
                good = good and any(callee_name(c).endswith("make_contiguous") for c in mk["calls"]) and "buf" in mk["fields"]
            rep.check("C07.fill", "%s serialises the whole frame with the reader's byte order into a buffer of bytes_len()" % strip_generics(path), good, loc_of(b))
        elif "Sample" in path:
            fb_ = in_closure[0][0] if in_closure else b
            ex = [t for _, t in fb_.calls() if re.search(r"Extend<.*>>::extend$", callee_name(t))]
            good = len(ex) == 1
            if good:
                sl = backward_slice(fb_, ex[0]["a"][1])
                adapters = [strip_generics(callee_name(c)).rsplit("::", 1)[-1] for c in sl["calls"]]
                good = any(strip_generics(callee_name(c)) == "audio::Frame::iter" for c in sl["calls"]) and ("buf" in backward_slice(fb_, ex[0]["a"][0])["fields"] or (fb_ is not b and "buf" in place_fields((capture_source(F, fb_, ex[0]["a"][0]) or (None, {"p": []}))[1] or {"p": []}))) and \
                    not any(a in ("skip", "take", "step_by", "filter", "skip_while", "take_while", "rev", "map", "filter_map", "chain") for a in adapters)
            rep.check("C07.fill", "%s appends the frame's interleaved samples (frame.iter())" % strip_generics(path), good, loc_of(b))
            # the decoded frame has one consumer, the buffer fill: a second reader of it (a "hand it over directly" path)
            # delivers part of the frame outside the buffer's accounting
            its = [t for c in [b] + F.closures_of(b) for _, t in c.calls() if strip_generics(callee_name(t)) in ("audio::Frame::iter", "audio::Frame::channels", "audio::Frame::to_buf")]
            rep.check("C07.fill", "%s: the decoded frame is consumed once, by the buffer fill" % strip_generics(path), len(its) == 1, loc_of(b), "%d consumers" % len(its),
                      "the decoded frame is read %d times: besides filling the buffer it is handed out on a path of its own, where block size x channels accounting does not apply" % len(its))
    rep.floor("C07.refill", "refill sites", n, 6)

    # ---- C07.eof --------------------------------------------------------------------------------------
    cb = _get(F, rep, "C07.eof", "decode::FlacChannelReader::fill_buf")
    if cb is not None:
        pf = ok.path_facts(cb)
        ws = [(bi, s) for bi, bl in enumerate(cb.blocks) for s in bl["s"] if s["d"]["p"] and place_fields(s["d"])[-1:] == ["consumed"]]
        for bi, s in ws:
            f = pf.get(bi, TOP)
            rep.check("C07.eof", "channel reader resets `consumed` only after a frame was decoded", fact_match(f, "is", "^Some$", "read_frame") or fact_match(f, "call-ok", "read_frame"), cb.loc(s["sp"]), "",
                      "`consumed` is reset on a path where read_frame may have returned end-of-stream: the last frame would be handed out again; facts: %s" % fact_str(f))
        rep.floor("C07.eof", "writes of consumed in fill_buf", len(ws), 1)
        # the slice handed out starts at consumed
        idx = [1 for c in F.closures_of(cb) for _, t in c.calls() if re.search(r"Index<.*>( for \[T\])?>::index$", callee_name(t))]
        rep.check("C07.eof", "buffered channels are handed out from `consumed` on", len(idx) == 1, loc_of(cb))
    for path in ("<decode::FlacByteReader<R, E> as std::io::BufRead>::consume", "decode::FlacSampleReader::consume", "decode::FlacChannelReader::consume"):
        b = _get(F, rep, "C07.eof", path)
        if b is not None:
            # consumption is by exactly the caller's amount
            uses_arg = False
            for _, t in b.calls():
                for a in t["a"][1:]:
                    if 2 in backward_slice(b, a)["args"]:
                        uses_arg = True
            for bl in b.blocks:
                for s in bl["s"]:
                    if s["rv"]["r"] == "bin" and s["rv"]["op"].startswith("Add") and 2 in backward_slice(b, s["rv"]["b"])["args"]:
                        uses_arg = True
            rep.check("C07.eof", "%s advances by exactly the caller's amount" % strip_generics(path), uses_arg, loc_of(b))
            if "Channel" in path:
                # a position counter: must accumulate (consumed += amt), every store to it is the sum old + amt
                st_ = [x for bl in b.blocks for x in bl["s"] if x["d"]["p"] and place_fields(x["d"])[-1:] == ["consumed"]]
                acc = False
                for x in st_:
                    for k, o in origins(b, x["rv"]["o"]) if x["rv"]["r"] == "use" else []:
                        pass
                    sl = backward_slice(b, x["rv"]["o"]) if x["rv"]["r"] == "use" else {"ops": set(), "fields": set(), "args": set(), "calls": []}
                    acc = any(o.startswith("Add") for o in sl["ops"]) and "consumed" in sl["fields"] and 2 in sl["args"] and not sl["calls"]
                rep.check("C07.eof", "decode::FlacChannelReader::consume accumulates: consumed = consumed + amt", len(st_) == 1 and acc, loc_of(b), "",
                          "the channel reader's position inside the current frame is overwritten instead of advanced: a second partial consume re-delivers samples")

    # ---- C07.count ---------------------------------------------------------------------------------------
    iolib.count_rules(ctx, rep, "C07")
    bytes_to_le_rules(F, rep, "C07")

    # ---- C07.endian ----------------------------------------------------------------------------------------
    rows = 0
    for end, le in (("byteorder::LittleEndian", "le"), ("byteorder::BigEndian", "be")):
        for im in F.impls:
            if im["trait_id"] == "byteorder::Endianness" and im["self_ty"] == end:
                for it in im["items"]:
                    m = re.match(r"(i8|i16|i32)_to_bytes$|bytes_to_(i8|i16|i32)$", it["name"])
                    if not m:
                        continue
                    b = F.body(it["path"])
                    if b is None:
                        continue
                    cs = [callee_name(t) for _, t in b.calls()]
                    want = ("to_%s_bytes" % le) if "_to_bytes" in it["name"] else ("from_%s_bytes" % le)
                    rows += 1
                    rep.check("C07.endian", "%s::%s uses %s" % (end, it["name"], want), len(cs) == 1 and cs[0].endswith("::" + want), loc_of(b), str(cs),
                              "%s::%s converts with %s" % (end, it["name"], cs))
    rep.floor("C07.endian", "primitive byte-order conversions", rows, 12)
    for fn, conv in (("audio::Frame::to_buf", r"i(\d+)_to_bytes$"), ("audio::Frame::fill_from_buf", r"bytes_to_i(\d+)$")):
        b = anchor(F, rep, "C07.endian", fn)
        if b is None:
            continue
        sw = [(i, bl["t"]) for i, bl in enumerate(b.blocks) if bl["t"] and bl["t"]["t"] == "switch" and any(strip_generics(callee_name(x)) == "audio::Frame::bytes_per_sample" for k, x in origins(b, bl["t"]["o"]) if k == "call")]
        if len(sw) != 1:
            rep.bad("C07.endian", "anchor:%s width switch" % fn, loc_of(b), "no single switch on bytes_per_sample()")
            continue
        si, st = sw[0]
        for val, tb in st["v"]:
            reg = blocks_only_via(b, si, tb)
            got = sorted({re.search(conv, nm).group(1) for nm in callees_in_blocks(F, b, reg) if re.search(conv, nm)})
            rep.check("C07.endian", "%s: %d-byte samples use the i%d converter" % (fn, val, 8 * val), got == [str(8 * val)], loc_of(b), str(got), "%d-byte samples are converted with i%s" % (val, got))
        rep.floor("C07.endian", "%s widths" % fn, len(st["v"]), 4)
        if fn.endswith("fill_from_buf"):
            # channel_len = (len / width) / channels and samples.resize(len / width)
            pass
    from rules import castlib
    rep.floor("C07.cast", "narrowing casts inspected", castlib.cast_audit(ctx, rep, "C07", ['decode.rs', 'audio.rs', 'byteorder.rs', 'crc.rs']), 3)
    from rules import C05 as _C05
    compose(ctx, rep, "C05", "C07.valid", r"^C05\.(short|eof)$")
