"""C09 STREAMINFO and SEEKTABLE written at finalize describe the stream truthfully.

Decided (ordering / dataflow origin rules on Encoder::{new,encode,finalize_inner}, encode_frame, generate_seektable):
  C09.order   the final write_blocks of finalize_inner is dominated by (a) a seek to SeekFrom::Start(self.start),
              (b) the store of the finalised MD5 into STREAMINFO, (c) the sample-count check or update
  C09.start   `start` is the stream position taken before the provisional blocks are written
  C09.units   every seek point is built from (samples written before this frame, bytes written before this frame,
              PCM frames of this frame); the sample counter advances by the frame's PCM frames after the point is taken;
              generate_seektable subtracts the metadata length from the frame's file offset
  C09.minmax  minimum_frame_size is updated with min, maximum_frame_size with max, both from the counted frame length
  C09.carve   a seek table is inserted into the blocks only on the Some edge of padding.checked_sub(table size),
              together with the reduced padding size; the placeholder refill keeps the point count
  C09.cap     all three seek-table builders cap the point count at SeekTable::MAX_POINTS before the unwrap
  C09.bs      both STREAMINFO block-size fields come from options.block_size, which also sizes the front-ends' chunking
  C09.md5     the front-end protocol shared with C08 (.md5.sib / .md5.md5 / .md5.trunc): MD5 is fed with the little-endian
              bytes of exactly the data that is encoded
  C09.count   Counter / CrcWriter account the bytes the inner stream reported: seek point byte offsets and frame sizes
  C09.len     the declared total of the byte / sample writers is converted by exact division (channels, bytes per sample)
  C09.cast    no unaudited narrowing cast in encode.rs / lib.rs (sample counts and offsets must use try_from)
  C09.md5     (also) a function that both hashes samples and fills the frame to encode takes both from the same stretch of its buffer
  C09.blocks  write_blocks passes the caller's block list through no selecting adaptor (taken from C11.frame): both writes of the metadata have one length
Not decided: numeric truth of the fields for a given input.
"""
from rules.common import *
from okimplies import OkImplies, fact_str, TOP

META = {
    "level": "other",
    "rule": "dominance / must-pass-through and dataflow-origin rules over the MIR of the encoder's bookkeeping functions",
    "explanation": "Each rule instance names a statement or call site and requires a dominance or origin relation that is a necessary condition for the metadata written at finalize to describe the frames actually written.",
}


def carve_rules(F, ok, rep, P):
    """the layout rules of the seek table carved out of the padding at finalize (shared by C09 and C01: a table
    that is larger than the space taken from the padding overwrites the first frame)"""
    b = anchor(F, rep, P + ".carve", "encode::Encoder::finalize_inner")
    if b is None:
        return
    # ---- carve
    # the rewritten header must occupy exactly the bytes reserved at creation: the carve moves bytes from PADDING to the
    # new SEEKTABLE (header included) and nothing else - no block disappears (its 4-byte header would be unaccounted for)
    rem = [t for c in [b] + F.closures_of(b) for _, t in c.calls() if re.search(r"metadata::BlockList::(remove|remove_all|retain|clear|drain|update)$|Vec::<T, A>::(remove|retain|clear|truncate|drain|pop)$", strip_generics(callee_name(t)) if not callee_name(t).startswith("<") else callee_name(t))
           and "Block" in " ".join(t["aty"][:1])]
    rep.check(P + ".carve", "finalize removes no metadata block (the rewritten header keeps the reserved size)", not rem, loc_of(b), "",
              "finalize_inner removes blocks (%s): the rewritten metadata is shorter than the area reserved for it and stale bytes sit in front of the first frame" % [callee_name(t) for t in rem][:2])
    ins = call_blocks(b, r"metadata::BlockList::insert$")
    for bi, t in ins:
        f = ok.path_facts(b).get(bi, TOP)
        rep.check(P + ".carve", "seek table inserted only when padding.checked_sub(table size) is Some", fact_match(f, "call-ok", r"BlockSize::checked_sub$") and fact_match(f, "call-ok", r"total_size$"),
                  loc_of(b, t), "", "the seek table is inserted on a path where its total size (block header + body) was not shown to fit into the padding, or a different amount is taken from the padding; facts: %s" % fact_str(f))
        # padding size assignment in the same guarded region
        stores = [bj for bj, bl in enumerate(b.blocks) for s in bl["s"] if s["d"]["p"] == ["*"] and "size" in place_fields(root_place(b, {"l": s["d"]["l"], "p": []}))]
        rep.check(P + ".carve", "padding is reduced together with the insertion", any(bj == bi or b.dominates(bj, bi) for bj in stores), loc_of(b, t))
    rep.floor(P + ".carve", "seek table insertions in finalize_inner", len(ins), 1)
    # total_size = bytes + the 4-byte block header
    ts = F.one("metadata::MetadataBlock::total_size")
    hs = F.statics.get("metadata::BlockHeader::SIZE", {}).get("v")
    good = bool(ts) and hs == 4 and any(strip_generics(callee_name(t)) == "metadata::MetadataBlock::bytes" for _, t in ts[0].calls()) and \
        any(re.search(r"BlockSize::checked_add$", callee_name(t)) for cb in F.closures_of(ts[0]) for _, t in cb.calls())
    rep.check(P + ".carve", "MetadataBlock::total_size = bytes() + BlockHeader::SIZE (4)", good, loc_of(ts[0]) if ts else "", "BlockHeader::SIZE = %s" % hs)
    # the closure computes padding - table (not the reverse)
    for cb in F.closures_of(b):
        for _, t in cb.calls():
            if re.search(r"BlockSize::checked_sub$", callee_name(t)):
                lhs = root_place(cb, t["a"][0])
                rhs = root_place(cb, t["a"][1])
                rep.check(P + ".carve", "new padding = padding - seek table size", lhs["l"] == 1 and rhs["l"] == 2, loc_of(cb, t),
                          "checked_sub(captured padding size, closure argument)")
    # placeholder refill keeps the count
    te = call_blocks(b, r"Contiguous::<MAX, T>::try_extend$")
    for bi, t in te:
        tk = [x for k, x in origins(b, t["a"][1]) if k == "call" and callee_name(x).endswith("Iterator::take")]
        good = False
        if tk:
            n = [x for k, x in origins(b, tk[0]["a"][1]) if k == "call"]
            good = bool(n) and callee_name(n[0]).endswith("::len")
        rep.check(P + ".carve", "placeholder table is refilled with exactly its original number of points", good, loc_of(b, t))
    rep.floor(P + ".carve", "placeholder refills", len(te), 1)


def cap_rules(F, rep, P, maxpts):
    """every seek table built by the encoder is capped at SeekTable::MAX_POINTS before the infallible conversion"""
    # ---- C09.cap -----------------------------------------------------------------------------------------
    ncap = 0
    for path in ("encode::Encoder::new", "encode::Encoder::finalize_inner", "encode::generate_seektable"):
        fb = anchor(F, rep, P + ".cap", path)
        if fb is None:
            continue
        for body in region(F, fb):
            for bi, t in body.calls():
                if callee_name(t).endswith("TryInto<U>>::try_into") and "Contiguous<932067, metadata::SeekPoint>" in " ".join(t["f"]["args"]):
                    ncap += 1
                    # backward slice through collect/map to a take(MAX_POINTS)
                    capped = _has_take(body, t["a"][0], maxpts)
                    rep.check(P + ".cap", "%s caps the seek points at MAX_POINTS before try_into().unwrap()" % strip_generics(body.path), capped, loc_of(body, t), "",
                              "a seek table is built from an uncapped iterator: more than %s frames would panic in try_into().unwrap()" % maxpts)
    rep.floor(P + ".cap", "seek table builders", ncap, 2)


def run(ctx, rep):
    F = ctx.facts()
    cg = ctx.cg()
    ok = OkImplies(F, cg)
    maxpts = F.statics.get("metadata::SeekTable::MAX_POINTS", {}).get("v")
    rep.check("C09.cap", "SeekTable::MAX_POINTS == floor(2^24 / 18)", maxpts == (1 << 24) // 18, "src/metadata/mod.rs", str(maxpts))

    # ---- finalize_inner ----------------------------------------------------------------------------
    b = anchor(F, rep, "C09.order", "encode::Encoder::finalize_inner")
    if b is not None:
        wbs = call_blocks(b, r"metadata::write_blocks$")
        rep.check("C09.order", "finalize_inner rewrites the blocks exactly once", len(wbs) == 1, loc_of(b), "%d write_blocks calls" % len(wbs))
        if len(wbs) == 1:
            W = wbs[0][0]
            # (a) seek
            seeks = call_blocks(b, r"std::io::Seek::seek$")
            good = False
            for si, st in seeks:
                org = origins(b, st["a"][1])
                for k, x in org:
                    if k == "agg" and x["adt"] == "std::io::SeekFrom" and x["var"] == "Start":
                        rp = root_place(b, x["ops"][0])
                        if "start" in place_fields(rp) and b.dominates(si, W):
                            good = True
            rep.check("C09.order", "header rewrite is preceded by seek(Start(self.start))", good and len(seeks) == 1, loc_of(b, wbs[0][1]),
                      "", "the final write_blocks is not dominated by a seek to the remembered stream start (or seeks elsewhere)")
            pfW = ok.path_facts(b).get(W, TOP)
            rep.check("C09.order", "seek result is checked before rewriting", fact_match(pfW, "call-ok", r"Seek::seek$"), loc_of(b, wbs[0][1]))
            # (b) md5 store
            md5w = []
            for bi, bl in enumerate(b.blocks):
                for s in bl["s"]:
                    if s["d"]["p"] and s["d"]["p"][-1].endswith(":md5"):
                        sl = backward_slice(b, s["rv"]["o"]) if s["rv"]["r"] == "use" else {"calls": [], "aggs": []}
                        fin = any(callee_name(c).endswith("md5::Context::finalize") for c in sl["calls"]) and any(a["var"] == "Some" for a in sl["aggs"])
                        md5w.append((bi, fin, s))
            rep.check("C09.order", "MD5 of the running context is stored before the header rewrite",
                      len(md5w) == 1 and md5w[0][1] and b.dominates(md5w[0][0], W), loc_of(b), "",
                      "STREAMINFO.md5 is not stored from md5.finalize() on every path before the final write_blocks")
            # the context finalised is the encoder's own running context
            fins = call_blocks(b, r"md5::Context::finalize$")
            if fins:
                src = [x for k, x in origins(b, fins[0][1]["a"][0]) if k == "call"]
                okc = src and callee_name(src[0]).endswith("Clone>::clone") and "md5" in place_fields(root_place(b, src[0]["a"][0]))
                rep.check("C09.order", "digest is taken from self.md5", bool(okc), loc_of(b, fins[0][1]))
            # (c) sample count check / update
            S = set()
            pf = ok.path_facts(b)
            for bi, bl in enumerate(b.blocks):
                f = pf.get(bi)
                if f is not None and f is not TOP and fact_match(f, "cmp", "^Eq$", "samples_written|NonZero::get", "samples_written|NonZero::get"):
                    S.add(bi)
                for s in bl["s"]:
                    if s["d"]["p"] and s["rv"]["r"] in ("use", "agg"):
                        rp = root_place(b, s["d"])
                        if place_fields(rp or {"p": []})[-1:] == ["total_samples"]:
                            org = origins(b, s["rv"]["o"]) if s["rv"]["r"] == "use" else [("agg", s["rv"])]
                            if any(k == "agg" and x.get("var") == "Some" for k, x in org):
                                S.add(bi)
            rep.check("C09.order", "sample count is checked against the declared total, or recorded, before the header rewrite", bool(S) and must_pass(b, W, S), loc_of(b),
                      "%d gate blocks" % len(S), "the final write_blocks is reachable without comparing/storing samples_written")
            rep.check("C09.order", "SampleCountMismatch raised under (declared != written)", any(
                fact_match(pf.get(bi, frozenset()), "cmp", "^Ne$", "samples_written|NonZero::get", "samples_written|NonZero::get") for bi, s in agg_sites(b, "Error", "SampleCountMismatch")), loc_of(b))
        carve_rules(F, ok, rep, "C09")

    cap_rules(F, rep, "C09", maxpts)

    # ---- C09.start ------------------------------------------------------------------------------------------
    nb = anchor(F, rep, "C09.start", "encode::Encoder::new")
    if nb is not None:
        sp = call_blocks(nb, r"std::io::Seek::stream_position$")
        wb = call_blocks(nb, r"metadata::write_blocks$")
        good = len(sp) == 1 and len(wb) == 1 and nb.dominates(sp[0][0], wb[0][0])
        aggs = agg_sites(nb, "encode::Encoder")
        fields = [f["name"] for f in F.adts["encode::Encoder"]["variants"][0]["fields"]]
        if good and aggs:
            o = aggs[0][1]["rv"]["ops"][fields.index("start")]
            org = origins(nb, o)
            good = any(k == "place" and x["l"] is not None for k, x in org) or any(k == "call" for k, x in org)
            # value comes from the Continue payload of stream_position()?
            rp = root_place(nb, o)
            good = rp is not None and any("Continue" in e for e in rp["p"])
        rep.check("C09.start", "Encoder.start = stream position before the provisional metadata is written", bool(good), loc_of(nb))
        # ---- C09.bs
        sa = agg_sites(nb, "metadata::Streaminfo")
        sf = [f["name"] for f in F.adts["metadata::Streaminfo"]["variants"][0]["fields"]]
        for bi, s in sa:
            for fld in ("minimum_block_size", "maximum_block_size"):
                rp = root_place(nb, s["rv"]["ops"][sf.index(fld)])
                rep.check("C09.bs", "STREAMINFO.%s = options.block_size" % fld, "block_size" in place_fields(rp), nb.loc(s["sp"]), "")
        rep.floor("C09.bs", "STREAMINFO constructions in Encoder::new", len(sa), 1)
    for path, fld in (("encode::FlacByteWriter::new", "frame_byte_size"), ("encode::FlacSampleWriter::new", "frame_sample_size"), ("encode::FlacChannelWriter::new", "frame_sample_size")):
        wbd = anchor(F, rep, "C09.bs", path)
        if wbd is None:
            continue
        adt = "encode::" + path.split("::")[1]
        aggs = agg_sites(wbd, adt)
        fl = [f["name"] for f in F.adts[adt]["variants"][0]["fields"]]
        good = False
        for bi, s in aggs:
            o = s["rv"]["ops"][fl.index(fld)]
            good = "block_size" in backward_slice(wbd, o)["fields"]
        rep.check("C09.bs", "%s.%s is derived from options.block_size" % (adt, fld), good, loc_of(wbd))

    # ---- C09.units ----------------------------------------------------------------------------------------------
    eb = anchor(F, rep, "C09.units", "encode::Encoder::encode")
    if eb is not None:
        aggs = agg_sites(eb, "encode::EncoderSeekPoint")
        ef = [f["name"] for f in F.adts["encode::EncoderSeekPoint"]["variants"][0]["fields"]]
        adds = [(bi, s) for bi, bl in enumerate(eb.blocks) for s in bl["s"] if "samples_written" in place_fields(s["d"]) and s["d"]["p"]]
        for bi, s in aggs:
            ops = s["rv"]["ops"]
            r0 = root_place(eb, ops[ef.index("sample_offset")])
            rep.check("C09.units", "seek point sample_offset = samples written before this frame", "samples_written" in place_fields(r0) and all(eb.dominates(bi, aj) and bi != aj for aj, _ in adds) and adds,
                      eb.loc(s["sp"]), "", "the seek point's sample offset is not the pre-increment sample counter")
            o1 = origins(eb, ops[ef.index("byte_offset")])
            okb = any(k == "agg" and x["var"] == "Some" and place_fields(root_place(eb, x["ops"][0]))[-2:] == ["writer", "count"] for k, x in o1)
            rep.check("C09.units", "seek point byte_offset = bytes written since the first frame (writer.count)", okb, eb.loc(s["sp"]))
            o2 = _deep(eb, ops[ef.index("frame_samples")])
            sl2 = backward_slice(eb, ops[ef.index("frame_samples")])
            conv = any(callee_name(c).endswith("Frame::pcm_frames") for c in sl2["calls"]) and not ({o.replace("WithOverflow", "") for o in sl2["ops"]} - {"Eq", "Ne", "Lt", "Le", "Gt", "Ge"})
            rep.check("C09.units", "seek point frame_samples = PCM frames of this frame", any(k == "call" and callee_name(x).endswith("Frame::pcm_frames") for k, x in o2) or conv, eb.loc(s["sp"]))
        rep.floor("C09.units", "seek points taken in Encoder::encode", len(aggs), 1)
        for aj, s in adds:
            # samples_written += pcm_frames
            pass
        incs = [s for bl in eb.blocks for s in bl["s"] if s["rv"]["r"] == "bin" and s["rv"]["op"].startswith("Add") and "samples_written" in place_fields(root_place(eb, s["rv"]["a"]) or {"p": []})]
        okinc = len(incs) == 1 and any(k == "call" and callee_name(x).endswith("Frame::pcm_frames") for k, x in _deep(eb, incs[0]["rv"]["b"]))
        rep.check("C09.units", "samples_written advances by the frame's PCM frame count (channel independent)", okinc, loc_of(eb))
        # the counter that measures bytes starts after the metadata: writer is wrapped after write_blocks in Encoder::new
    if nb is not None:
        cn = call_blocks(nb, r"Counter::<F>::new$")
        wb = call_blocks(nb, r"metadata::write_blocks$")
        rep.check("C09.units", "byte counter starts after the provisional metadata (offsets are relative to the first frame)", len(cn) == 1 and len(wb) == 1 and nb.dominates(wb[0][0], cn[0][0]), loc_of(nb))
    gb = anchor(F, rep, "C09.units", "encode::generate_seektable")
    if gb is not None:
        found = False
        for cb in region(F, gb):
            for bi, st in agg_sites(cb, "encode::EncoderSeekPoint"):
                found = True
                sl = slice_with_captures(F, cb, st["rv"]["ops"][1])
                sub = any(op.startswith("Sub") for op in sl["ops"]) or any(re.search(r"checked_sub$|saturating_sub$", callee_name(c)) for c in sl["calls"])
                some = any(a["var"] == "Some" for a in sl["aggs"])
                if cb.kind == "Closure":
                    aa = backward_slice(cb, st["rv"]["ops"][1])["args"]
                    good = sub and 1 in aa and any(a >= 2 for a in aa) and some      # captured metadata length and the item handed to the closure
                else:
                    # explicit loop in the function body: the subtrahend is the metadata length measured before the frames
                    good = sub and some
                rep.check("C09.units", "generate_seektable: byte offset = frame offset - metadata length", good, cb.loc(st["sp"]),
                          "Some(offset from the frame iterator - captured metadata_len)", "seek point byte offsets are not made relative to the first frame")
                sl0 = backward_slice(cb, st["rv"]["ops"][0])
                rep.check("C09.units", "generate_seektable: sample offset is the running sample counter", 1 in sl0["args"], cb.loc(st["sp"]))
        rep.check("C09.units", "generate_seektable builds its points from the frame iterator", found, loc_of(gb))

    # ---- C09.md5: what is hashed is what is encoded, in little-endian, for every front-end ------------------
    from rules import C08
    C08.protocol(ctx, rep, "C09.md5")

    # ---- C09.minmax ---------------------------------------------------------------------------------------------------
    fb = anchor(F, rep, "C09.minmax", "encode::encode_frame")
    if fb is not None:
        n = 0
        def minmax_kind(t):
            nm = callee_name(t)
            m = re.search(r"::(min|max)$", nm)
            if m and ("Ord" in nm or "cmp" in nm):
                return m
            # a combinator whose closure computes the min/max (opt.map_or(size, |m| size.min(m))): its result is that min/max
            ms = []
            for cl in t.get("cls") or ():
                cbb = F.body(cl)
                for _, t2 in (cbb.calls() if cbb is not None else ()):
                    m2 = re.search(r"::(min|max)$", callee_name(t2))
                    if m2 and ("Ord" in callee_name(t2) or "cmp" in callee_name(t2)):
                        ms.append(m2)
            return ms[0] if len(ms) == 1 else None
        for bi, t in fb.calls():
            m = minmax_kind(t)
            if not m:
                continue
            # where does the result go?
            dest = t["d"]
            uses = []
            for bl in fb.blocks:
                for s in bl["s"]:
                    if s["rv"]["r"] == "use" and op_local(s["rv"]["o"]) == dest["l"] and s["d"]["p"]:
                        uses.append(root_place(fb, {"l": s["d"]["l"], "p": s["d"]["p"]}))
            if not dest["p"] and not uses:
                # the value may be wrapped (Some(min(..))) and flow through a match result before it is stored: follow forward
                frontier, seen_l = {dest["l"]}, set()
                for _ in range(6):
                    nxt = set()
                    for bl in fb.blocks:
                        for s in bl["s"]:
                            ops_ = rv_operands(s["rv"])
                            if any(op_local(o) in frontier for o in ops_ if isinstance(o, dict)):
                                if s["d"]["p"] and place_fields(root_place(fb, s["d"]) or {"p": []}):
                                    uses.append(root_place(fb, s["d"]))
                                elif s["d"]["l"] not in seen_l:
                                    nxt.add(s["d"]["l"])
                    seen_l |= frontier
                    frontier = nxt
                    if not frontier or uses:
                        break
            if not dest["p"] and not uses:
                continue
            tgt = uses[0] if uses else root_place(fb, dest)
            fields = place_fields(tgt)
            want = "minimum_frame_size" if m.group(1) == "min" else "maximum_frame_size"
            n += 1
            rep.check("C09.minmax", "%s is maintained with %s" % (want, m.group(1)), want in fields, loc_of(fb, t), "result stored to %s" % fields,
                      "%s() result is stored into %s" % (m.group(1), fields))
        rep.floor("C09.minmax", "min/max updates of the frame-size extrema", n, 2)
        # the size is the byte count of this frame's counter
        cnt = [s for bl in fb.blocks for s in bl["s"] for o in rv_operands(s["rv"]) if op_place(o) and place_fields(op_place(o))[-1:] == ["count"]]
        rep.check("C09.minmax", "frame size is the per-frame byte counter", len(cnt) >= 1, loc_of(fb))
    from rules import iolib, C15
    iolib.count_rules(ctx, rep, "C09")
    C15.declared_total_rules(F, rep, "C09")
    from rules import castlib
    rep.floor("C09.cast", "narrowing casts inspected", castlib.cast_audit(ctx, rep, "C09", ['encode.rs', 'lib.rs']), 4)
    # the MD5 in STREAMINFO is of the PCM that was encoded: a function that both hashes samples and fills the frame to encode takes the
    # two from the same stretch of its buffer (same source fields, same trimming arithmetic)
    npairs = 0
    for hb in F.bodies:
        if hb.promoted is not None or not hb.file.endswith("encode.rs"):
            continue
        us = [t for _, t in hb.calls() if re.search(r"encode::update_md5$", callee_name(t))]
        fs = [t for _, t in hb.calls() if re.search(r"Frame::fill_from_\w+$", callee_name(t))]
        if len(us) != 1 or len(fs) != 1:
            continue
        npairs += 1
        su, sf = backward_slice(hb, us[0]["a"][1]), backward_slice(hb, fs[0]["a"][1])
        ar = lambda sl: {o.replace("WithOverflow", "").replace("Unchecked", "") for o in sl["ops"]}
        rep.check("C09.md5", "%s hashes exactly the samples it encodes" % strip_generics(hb.path), ar(su) == ar(sf) and su["fields"] == sf["fields"], loc_of(hb, us[0]),
                  "md5 from %s %s / frame from %s %s" % (sorted(su["fields"]), sorted(ar(su)), sorted(sf["fields"]), sorted(ar(sf))),
                  "the samples hashed (%s, %s) are not the stretch of the buffer that is encoded (%s, %s): STREAMINFO's MD5 covers samples that never reach the stream (or misses some)" % (
                      sorted(su["fields"]), sorted(ar(su)) or "untrimmed", sorted(sf["fields"]), sorted(ar(sf)) or "untrimmed"))
    rep.floor("C09.md5", "functions that hash and encode from one buffer", npairs, 4)
    # the metadata region rewritten at finalize is as long as first written only if every block of the list is written both times
    compose(ctx, rep, "C11", "C09.blocks", r"^C11\.frame$", key_only=r"every block handed to write_blocks")


def _deep(body, o, depth=6):
    """origins, looking through casts"""
    out = []
    for k, x in origins(body, o):
        if k == "cast" and depth > 0:
            out.extend(_deep(body, x["o"], depth - 1))
        else:
            out.append((k, x))
            if k == "bin" and depth > 0 and x["op"].endswith("WithOverflow"):
                pass
    # tuple field of a checked op: (_x.0)
    p = op_place(o) if isinstance(o, dict) else None
    if p and p["p"] and p["p"][0].startswith(".0") and depth > 0:
        for k, x in origins(body, {"c": {"l": p["l"], "p": []}}):
            out.append((k, x))
    return out


def _has_take(body, o, maxpts, depth=8):
    if depth <= 0:
        return False
    for k, x in origins(body, o):
        if k == "call":
            nm = callee_name(x)
            if nm.endswith("Iterator::take"):
                if op_int(x["a"][1]) == maxpts:
                    return True
                return False
            if re.search(r"Iterator::(map|collect|filter|inspect|chain)$|IntoIterator::into_iter$", nm):
                if _has_take(body, x["a"][0], maxpts, depth - 1):
                    return True
    return False


def _mentions_field(body, o, field, depth=8):
    if depth <= 0:
        return False
    p = op_place(o)
    if p is not None and field in place_fields(root_place(body, p)):
        return True
    for k, x in origins(body, o):
        if k == "place" and field in place_fields(root_place(body, x)):
            return True
        if k == "cast" and _mentions_field(body, x["o"], field, depth - 1):
            return True
        if k == "bin" and (_mentions_field(body, x["a"], field, depth - 1) or _mentions_field(body, x["b"], field, depth - 1)):
            return True
    if p is not None and p["p"] and p["p"][0].startswith(".0"):
        return _mentions_field(body, {"c": {"l": p["l"], "p": []}}, field, depth - 1)
    return False
