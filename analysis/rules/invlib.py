"""range invariant of the 24-bit size newtypes: every construction of metadata::BlockSize (<= 2^24 - 1 bytes) and
metadata::BlockBits (<= 8 x that) is bounded.  update_file's in-place/rebuild decision, the encoder's padding carve and the
size accounting of every block rely on `checked_add` / `try_from` refusing anything larger."""
from rules.common import *
from okimplies import OkImplies

TYPES = {"metadata::BlockSize": (1 << 24) - 1, "metadata::BlockBits": ((1 << 24) - 1) * 8}


def _le_max(facts, mx):
    for x in facts or ():
        if x[0] == "cmp" and x[1] in ("Le", "Lt") and str(x[3]) == "const:%d" % (mx if x[1] == "Le" else mx + 1):
            return True
    return False


def newtype_invariant(ctx, rep, P):
    F = ctx.facts()
    ok = OkImplies(F, ctx.cg())
    n = 0
    for ty, mx in TYPES.items():
        short_ty = ty.rsplit("::", 1)[1]
        c = F.statics.get(ty + "::MAX", {}).get("v")
        rep.check(P + ".inv", "%s::MAX == %d" % (short_ty, mx), c == mx, "src/metadata/mod.rs", str(c))
    for k, v in sorted(F.statics.items()):
        if v.get("ty") in TYPES and v.get("v") is not None:
            n += 1
            rep.check(P + ".inv", "constant %s within the 24-bit limit" % k, 0 <= v["v"] <= TYPES[v["ty"]], "%s:%d" % (v["sp"]["file"], v["sp"]["line"]), str(v["v"]))
    for b in F.bodies:
        if b.promoted is not None or not b.file.startswith("src/"):
            continue
        for bi, bl in enumerate(b.blocks):
            for s in bl["s"]:
                rv = s["rv"]
                if rv["r"] == "agg" and rv.get("adt") in TYPES:
                    ty, mx = rv["adt"], TYPES[rv["adt"]]
                    n += 1
                    x = rv["ops"][0]
                    why = None
                    if op_int(x) is not None and 0 <= op_int(x) <= mx:
                        why = "constant %d" % op_int(x)
                    if why is None:
                        for kk, c in origins(b, x):
                            if kk == "call" and callee_name(c) == "<u32 as std::default::Default>::default":
                                why = "u32::default() = 0"
                    if why is None:
                        # widened from a narrower integer type
                        for kk, c in origins(b, x):
                            if kk == "call" and re.search(r"<u32 as std::convert::From<u(8|16)>>::from$|Into<.*>>::into$", callee_name(c)) and c["aty"] and c["aty"][0] in ("u8", "u16"):
                                why = "widened from %s" % c["aty"][0]
                    if why is None:
                        # (u <= MAX).then_some(Self(u))
                        dl = s["d"]["l"]
                        for ti, t in b.calls():
                            if re.search(r"bool>::then_some$|<impl bool>::then_some$", callee_name(t)) and op_local(t["a"][1]) == dl:
                                cond = [d for d in b.defs().get(op_local(t["a"][0]), []) if d[1] != "T"]
                                if len(cond) == 1 and cond[0][2]["rv"]["r"] == "bin" and cond[0][2]["rv"]["op"] == "Le":
                                    cr = cond[0][2]["rv"]
                                    same = root_place(b, cr["a"]) == root_place(b, x)
                                    if same and const_of(b, cr["b"]) == mx:
                                        why = "guarded by (value <= MAX).then_some"
                    if why is None and _le_max(ok.path_facts(b).get(bi), mx):
                        why = "on the true edge of value <= MAX"
                    if why is None and ty == "metadata::BlockSize":
                        # BlockBits / 8
                        for kk, c in origins(b, x):
                            if kk == "bin" and c["op"] == "Div" and op_int(c["b"]) == 8:
                                rp = root_place(b, c["a"])
                                if rp and 1 <= rp["l"] <= b.j["argc"] and b.locals[rp["l"]]["ty"] == "metadata::BlockBits":
                                    why = "BlockBits / 8"
                    rep.check(P + ".inv", "%s: constructed %s is within its limit" % (strip_generics(b.path) if not b.path.startswith("<") else b.path, ty.rsplit("::", 1)[1]), why is not None, b.loc(s["sp"]), why or "",
                              "a %s is constructed from a value that is not shown to be <= %d: sizes beyond 24 bits would be accepted (in-place updates and size accounting rely on the refusal)" % (ty.rsplit("::", 1)[1], mx))
            t = bl["t"]
            if t and t["t"] == "call":
                for ai, a in enumerate(t["a"]):
                    kf = (a.get("k") or {}).get("fn") if isinstance(a, dict) else None
                    if not kf or kf.get("path") not in TYPES or kf.get("res_kind") != "item":
                        continue
                    ty, mx = kf["path"], TYPES[kf["path"]]
                    n += 1
                    why = None
                    if re.search(r"(Option|Result)::<.*>::map$", callee_name(t)) and ai == 1:
                        for kk, c in origins(b, t["a"][0]):
                            if kk != "call":
                                continue
                            cn = callee_name(c)
                            if re.search(r"Option::<T>::filter$", cn) and c["cls"]:
                                cb = F.body(c["cls"][0])
                                if cb is not None and _le_max(ok.closure_bool_facts(cb), mx):
                                    why = "filter(|v| v <= MAX)"
                            elif c["f"].get("path") == "bitstream_io::BitRead::read" and [x for x in c["f"]["args"] if not x.startswith("'")][1:2] == ["24"] and ty == "metadata::BlockSize":
                                why = "24-bit field"
                            elif re.search(r"<impl u32>::checked_sub$", cn):
                                rp = root_place(b, c["a"][0])
                                if rp and b.locals[rp["l"]]["ty"].replace("&", "") == ty:
                                    why = "difference of a valid size"
                    rep.check(P + ".inv", "%s: %s built through map is within its limit" % (strip_generics(b.path) if not b.path.startswith("<") else b.path, ty.rsplit("::", 1)[1]), why is not None, loc_of(b, t), why or "",
                              "%s is applied to a value that is not shown to be <= %d (the `<= MAX` filter is missing): sizes beyond 24 bits would be accepted" % (ty.rsplit("::", 1)[1], mx))
    rep.floor(P + ".inv", "BlockSize / BlockBits constructions", n, 8)


def const_of(b, o):
    v = op_int(o)
    if v is not None:
        return v
    k = o.get("k") if isinstance(o, dict) else None
    if k and k.get("v") is not None:
        return k["v"]
    return None
