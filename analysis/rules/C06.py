"""C06 Seeking lands exactly on the requested position, for every reader and history.

Decided:
  C06.units   bytes and channel-independent samples are never mixed: bytes per PCM frame is ceil(bits / 8) x channels
              (the rounding applied to the bit depth alone, as in the writer and in decoded_len); the byte reader
              hands Decoder::seek (byte position / bytes per frame), multiplies its answer back, and measures the
              end and the current position in bytes (total samples x bytes per frame; current sample x bytes per
              frame - buffered bytes)
  C06.state   every repositioning of the underlying reader in Decoder::seek is followed by setting current_sample to
              the position actually sought (0 for the stream start, the seek point's sample offset otherwise), and
              the returned position equals it
  C06.table   the seek point chosen is the last one with sample_offset <= target; its byte offset is added to the
              position of the first frame with overflow checking
  C06.inval   after Decoder::seek succeeds the front-end discards what it had buffered before skipping forward
              (VecDeque::clear; the channel reader marks its frame fully consumed), and only then skips; no success
              return lies between Decoder::seek and that discard (every Ok written to the return place after the
              coarse seek is dominated by it)
  C06.start   every new_seekable takes its seek base from stream_position() right after the metadata was read
  C06.skip    the forward skip loops of the three readers take min(buffered amount, distance) in the reader's unit,
              consume exactly that (x channels for interleaved samples) and advance the position by it
  C06.offs    FrameIterator pairs every frame with the byte position sampled before the frame was read (what
              generate_seektable turns into seek points)
  C06.end     beyond-end and before-start requests have live error exits; the byte reader returns the requested position
  C06.cast    narrowing `as` casts in decode.rs are shown lossless or audited (castlib)
Not decided: exact landing under arbitrary histories (value-level).
"""
from rules.common import *
from okimplies import OkImplies, fact_str, TOP

META = {"level": "other", "rule": "dataflow-origin (unit) rules on the seek arithmetic, write-after-seek pairing in Decoder::seek, dominance of buffer invalidation",
        "explanation": "Necessary structural conditions for exact seeking."}


def _get(F, rep, rule, path):
    bs = [b for b in F.bodies if b.promoted is None and (b.path == path or strip_generics(b.path) == path)]
    if len(bs) != 1:
        rep.bad(rule, "anchor:" + path, "", "function not found (%d)" % len(bs))
        return None
    return bs[0]


def bytes_per_frame_shape(F, b, o):
    """does operand o compute ceil(bits/8) * channels with the rounding on the bit depth alone?"""
    sl = backward_slice(b, o)
    dc = [c for c in sl["calls"] if re.search(r"::div_ceil$", callee_name(c))]
    if len(dc) != 1 or op_int(dc[0]["a"][1]) != 8:
        return False, "no single div_ceil(8)"
    inner = backward_slice(b, dc[0]["a"][0])
    if "channels" in inner["fields"] or any(op.startswith("Mul") for op in inner["ops"]):
        return False, "rounding is applied after multiplying by the channel count"
    if not any(op.startswith("Mul") for op in sl["ops"]):
        return False, "no multiplication by the channel count"
    return True, ""


def _fields_deep(F, b, o):
    """fields an operand is made of, including what closures handed to the calls in its slice read (a seek point picked by
    `.find_map(|p| .. Some((p.sample_offset, p.byte_offset)))` hands its fields on as a plain tuple)"""
    sl = backward_slice(b, o)
    out = set(sl["fields"])
    todo = [c for t in sl["calls"] for c in (t.get("cls") or ())]
    seen = set()
    while todo:
        c = todo.pop()
        if c in seen:
            continue
        seen.add(c)
        cb = F.body(c)
        if cb is None:
            continue
        for bl in cb.blocks:
            for s_ in bl["s"]:
                for o2 in rv_operands(s_["rv"]):
                    if isinstance(o2, dict) and op_place(o2) is not None:
                        out |= set(f for f in place_fields(op_place(o2)) if f)
                if s_["rv"]["r"] in ("ref", "disc"):
                    out |= set(f for f in place_fields(s_["rv"]["p"]) if f)
        for _, t2 in cb.calls():
            todo += list(t2.get("cls") or ())
    return out


def frame_offset_rules(F, rep, P):
    """FrameIterator yields (frame, byte position of that frame's first byte): the position is the counter's value taken
    before the frame is read (generate_seektable turns these into SEEKTABLE byte offsets)"""
    R = P + ".offs"
    b = _get(F, rep, R, "<stream::FrameIterator<R> as std::iter::Iterator>::next")
    if b is None:
        return
    reads = call_blocks(b, r"stream::Frame::read$")
    n = 0

    def sampled_at(l):
        """block of `b` where local l was copied from the counter, following whole-local copies"""
        for _ in range(6):
            ds = b.defs().get(l, [])
            if len(ds) != 1 or ds[0][1] == "T" or ds[0][2]["rv"]["r"] != "use" or op_place(ds[0][2]["rv"]["o"]) is None:
                return None
            src = op_place(ds[0][2]["rv"]["o"])
            if place_fields(src)[-1:] == ["count"]:
                return ds[0][0]
            if src["p"]:
                return None
            l = src["l"]
        return None
    for c in [b] + F.closures_of(b):
        host = None
        if c is not b:
            hs = [hi for hi, h in b.calls() if c.path in [getattr(F.body(x), "path", None) for x in (h.get("cls") or ())]]
            if len(hs) != 1:
                continue
            host = hs[0]
        for bi, bl in enumerate(c.blocks):
            for st_ in bl["s"]:
                rv = st_["rv"]
                if rv["r"] != "agg" or rv.get("ak") != "tuple" or len(rv["ops"]) != 2 or op_place(rv["ops"][1]) is None:
                    continue
                if c.local_ty(st_["d"]["l"]).replace(" ", "") != "(stream::Frame,u64)":
                    continue
                n += 1
                pos = op_place(rv["ops"][1])
                if c is b:
                    taken = sampled_at(pos["l"]) if not pos["p"] else None
                    if taken is None and place_fields(pos)[-1:] == ["count"]:
                        taken = bi      # read from the counter right where the pair is built, i.e. after the frame was read
                    pair_at = bi
                else:
                    # the local of `b` that the closure captured (by value or by reference)
                    taken = None
                    rp = root_place(c, rv["ops"][1])
                    ks = [e for e in (rp["p"] if rp and rp["l"] == 1 else []) if re.match(r"^\.\d+:", e)]
                    if ks:
                        k = int(ks[0][1:].split(":", 1)[0])
                        for bl2 in b.blocks:
                            for s2 in bl2["s"]:
                                r2 = s2["rv"]
                                if r2["r"] == "agg" and r2.get("ak") == "closure" and r2.get("adt") == c.path and k < len(r2["ops"]) and op_place(r2["ops"][k]) is not None:
                                    q = op_place(r2["ops"][k])
                                    ds = b.defs().get(q["l"], [])
                                    if not q["p"] and len(ds) == 1 and ds[0][1] != "T" and ds[0][2]["rv"]["r"] == "ref" and not ds[0][2]["rv"]["p"]["p"]:
                                        q = ds[0][2]["rv"]["p"]
                                    if not q["p"]:
                                        taken = sampled_at(q["l"])
                    pair_at = host
                before = taken is not None and any((taken == ri or b.dominates(taken, ri)) and (b.dominates(ri, pair_at) or ri == pair_at) and not (taken == pair_at and c is b and taken != ri) for ri, _ in reads)
                rep.check(R, "FrameIterator pairs each frame with the byte count taken before the frame was read", before, c.loc(st_["sp"]), "",
                          "the position yielded with a frame is not the counter value sampled before Frame::read: seek tables generated from it point at the following frame")
    rep.floor(R, "(frame, position) pairs yielded", n, 2)
    rep.check(R, "every frame read by the iterator has its position sampled", len(reads) >= 1, loc_of(b))


def run(ctx, rep):
    F = ctx.facts()
    ok = OkImplies(F, ctx.cg())
    frame_offset_rules(F, rep, "C06")
    # ---- C06.units -----------------------------------------------------------------------------------
    sb = _get(F, rep, "C06.units", "<decode::FlacByteReader<R, E> as std::io::Seek>::seek")
    if sb is not None:
        ds = call_blocks(sb, r"decode::Decoder::seek$")
        rep.check("C06.units", "byte reader repositions through Decoder::seek exactly once", len(ds) == 1, loc_of(sb))
        if len(ds) == 1:
            t = ds[0][1]
            # argument 2 = desired byte position / bytes per frame
            divs = [s for bl in sb.blocks for s in bl["s"] if s["rv"]["r"] == "bin" and s["rv"]["op"] == "Div"]
            argsl = backward_slice(sb, t["a"][2])
            gd = "Div" in argsl["ops"]
            bpf_ok = False
            why = ""
            for s in divs:
                okb, why = bytes_per_frame_shape(F, sb, s["rv"]["b"])
                bpf_ok = bpf_ok or okb
            rep.check("C06.units", "target sample = byte position / bytes-per-PCM-frame", gd and len(divs) == 1, loc_of(sb, t), "", "Decoder::seek is not handed the byte position divided by the bytes per PCM frame (units mixed)")
            rep.check("C06.units", "bytes-per-PCM-frame = ceil(bits/8) x channels", bpf_ok, loc_of(sb), "", "bytes per PCM frame: %s - wrong for bit depths that are not a multiple of 8" % why)
            # result multiplied back
            res_mul = [s for bl in sb.blocks for s in bl["s"] if s["rv"]["r"] == "bin" and s["rv"]["op"].startswith("Mul") and any(c is t for c in backward_slice(sb, s["rv"]["a"])["calls"])]
            rep.check("C06.units", "the sample position reached is converted back to bytes", len(res_mul) == 1, loc_of(sb))
        # Current arm: current_sample * bpf - buf.len()
        cur = [s for bl in sb.blocks for s in bl["s"] if s["rv"]["r"] == "bin" and s["rv"]["op"].startswith("Mul") and place_fields(root_place(sb, s["rv"]["a"]) or {"p": []})[-1:] == ["current_sample"]]
        sub = [s for bl in sb.blocks for s in bl["s"] if s["rv"]["r"] == "bin" and s["rv"]["op"].startswith("Sub") and any(callee_name(c).endswith("::len") for c in backward_slice(sb, s["rv"]["b"])["calls"]) and "current_sample" in backward_slice(sb, s["rv"]["a"])["fields"] and "buf" in backward_slice(sb, s["rv"]["b"])["fields"]]
        sub = [s for s in sub if not any(strip_generics(callee_name(c)) == "decode::Decoder::seek" for c in backward_slice(sb, s["rv"]["a"])["calls"] + backward_slice(sb, s["rv"]["b"])["calls"])]
        rep.check("C06.units", "current byte position = current_sample x bytes-per-frame - buffered bytes", len(cur) == 1 and len(sub) == 1, loc_of(sb))
        # End arm: total samples * bpf in the closure mapping total_samples
        endok = False
        for cb in F.closures_of(sb):
            muls = [s for bl in cb.blocks for s in bl["s"] if s["rv"]["r"] == "bin" and s["rv"]["op"].startswith("Mul")]
            gets = [t for _, t in cb.calls() if re.search(r"NonZero::<T>::get$", callee_name(t))]
            if muls and gets:
                endok = True
        rep.check("C06.units", "end of stream is measured in bytes (total samples x bytes-per-frame)", endok, loc_of(sb), "", "SeekFrom::End is relative to the sample count, not to the decoded length in bytes")
        # returns the requested position
        oks = [s for bi, s in agg_sites(sb, "std::result::Result", "Ok") if s["d"]["l"] == 0]
        rep.check("C06.end", "byte reader returns a byte position on success", len(oks) >= 2, loc_of(sb))
        errs = sum(1 for bb in region(F, sb) for bi, s in agg_sites(bb, "std::io::ErrorKind") if s["rv"]["var"] in ("InvalidInput", "UnexpectedEof", "NotSeekable"))
        rep.check("C06.end", "byte reader has error exits for before-start / beyond-end / not seekable requests", errs >= 6, loc_of(sb), "%d" % errs)
    # siblings of the bytes-per-frame formula
    for path, fld in (("encode::FlacByteWriter::new", None), ("metadata::Metadata::decoded_len", None)):
        b = _get(F, rep, "C06.units", path)
        if b is None:
            continue
        found = False
        why = "no product with a div_ceil(8) factor"
        for bb in region(F, b):
            for bl in bb.blocks:
                for s in bl["s"]:
                    if s["rv"]["r"] == "bin" and s["rv"]["op"].startswith("Mul"):
                        okb, w = bytes_per_frame_shape(F, bb, {"c": s["d"]}) if not s["d"]["p"] else (False, "")
                        if okb:
                            found = True
        rep.check("C06.units", "%s uses the same ceil(bits/8) x channels" % path, found, loc_of(b))

    # ---- C06.start: the seek base of every seekable reader is the absolute position of the first frame ------------------
    ns = 0
    for b in F.bodies:
        if b.promoted is not None or b.kind == "Closure" or not re.match(r"decode::Flac(Byte|Sample|Channel)Reader::new_seekable$", strip_generics(b.path)):
            continue
        ns += 1
        sp = [(bi, t) for bi, t in b.calls() if re.search(r"std::io::Seek::stream_position$", callee_name(t))]
        rd = [(bi, t) for bi, t in b.calls() if re.search(r"metadata::BlockList::read$", callee_name(t))]
        good = len(sp) == 1 and len(rd) == 1 and b.dominates(rd[0][0], sp[0][0])
        if good:
            good = False
            for bl in b.blocks:
                for st_ in bl["s"]:
                    rv = st_["rv"]
                    if rv["r"] == "agg" and rv.get("var") == "Some":
                        sl = backward_slice(b, rv["ops"][0])
                        if any(c is sp[0][1] for c in sl["calls"]) and not (sl["ops"] - {"Eq", "Ne"}):
                            good = True
        rep.check("C06.start", "%s: frames_start is the reader's absolute position right after the metadata blocks" % strip_generics(b.path), good, loc_of(b), "",
                  "the seek base is not stream_position() taken after BlockList::read: seek-table offsets are applied relative to the wrong origin when the FLAC stream does not start at offset 0")
    rep.floor("C06.start", "seekable constructors", ns, 3)

    # ---- C06.skip: the forward skip after a coarse seek counts in one unit -------------------------------------------
    for path, unit in (("decode::FlacSampleReader::seek", "interleaved"), ("decode::FlacChannelReader::seek", "frames"), ("<decode::FlacByteReader<R, E> as std::io::Seek>::seek", "bytes")):
        b = _get(F, rep, "C06.skip", path)
        if b is None:
            continue
        mins = [(bi, t) for bi, t in b.calls() if re.search(r"Ord::min$", callee_name(t))]
        cons = [(bi, t) for bi, t in b.calls() if re.search(r"::consume$", callee_name(t))]
        good_min = len(mins) == 1
        detail = ""
        if good_min:
            m = mins[0][1]
            s0, s1 = backward_slice(b, m["a"][0]), backward_slice(b, m["a"][1])
            has_sub = lambda sl: any(o.startswith("Sub") for o in sl["ops"])
            has_len = lambda sl: any(re.search(r"::len$", callee_name(c)) for c in sl["calls"]) or any(o == "PtrMetadata" for o in sl["ops"])
            good_min = (has_sub(s0) and has_len(s1)) or (has_sub(s1) and has_len(s0))
            lens = s1 if has_len(s1) else s0
            if unit == "interleaved":
                good_min = good_min and any(o.startswith("Div") for o in lens["ops"])
                detail = "buffer length / channels"
            else:
                good_min = good_min and not any(o.startswith("Div") or o.startswith("Mul") for o in lens["ops"])
        rep.check("C06.skip", "%s: step = min(buffered %s, distance to the target)" % (path, "PCM frames" if unit != "bytes" else "bytes"), good_min, loc_of(b), detail,
                  "the skip step is not min(buffered amount in target units, target - position)")
        if len(mins) == 1 and len(cons) >= 1:
            M = mins[0][1]

            def direct(o, depth=6):
                """operand is M's result through copies / casts only - also when it travelled through Ok(..) and `?`
                (a helper `fn step(..) -> Result<usize, Error>` that was inlined)"""
                if depth <= 0 or op_place(o) is None:
                    return False
                rp = root_place(b, o)
                if rp is None:
                    return False
                if [e for e in rp["p"] if not (e.startswith("as Continue") or e.startswith("as Ok") or e.startswith("as Some") or re.match(r"^\.0:", e))]:
                    return False
                ds = [d for d in b.defs().get(rp["l"], []) if not d[2]["d"]["p"]]
                if not ds:
                    return False
                hit = False
                for d in ds:
                    if d[1] == "T":
                        if d[2] is M:
                            hit = True
                        elif re.search(r"Try>::branch$|::Try::branch$", callee_name(d[2])) and d[2]["a"] and direct(d[2]["a"][0], depth - 1):
                            hit = True
                        else:
                            return False
                    else:
                        rv = d[2]["rv"]
                        if rv["r"] == "agg" and rv.get("var") in ("Err", "None"):
                            continue            # the failure value of the same Result: not the step
                        if rv["r"] == "agg" and rv.get("var") in ("Ok", "Some") and rv["ops"] and direct(rv["ops"][0], depth - 1):
                            hit = True
                        elif rv["r"] in ("use", "cast") and isinstance(rv.get("o"), dict) and direct(rv["o"], depth - 1):
                            hit = True
                        else:
                            return False
                return hit

            def scaled(o):
                """operand is M's result multiplied by something (the channel count)"""
                for k, x in origins(b, o):
                    if k == "bin" and x["op"].startswith("Mul") and (direct(x["a"]) or direct(x["b"])):
                        return True
                    if k == "place" and x["p"] and x["p"][0].startswith(".0"):
                        # the value half of a checked multiplication
                        for d in b.defs().get(x["l"], []):
                            if d[1] != "T" and d[2]["rv"]["r"] == "bin" and d[2]["rv"]["op"].startswith("Mul") and (direct(d[2]["rv"]["a"]) or direct(d[2]["rv"]["b"])):
                                return True
                return False
            okc = any((scaled(t["a"][1]) if unit == "interleaved" else direct(t["a"][1])) for bi, t in cons)
            rep.check("C06.skip", "%s: consumes exactly the step (%s)" % (path, "x channels" if unit == "interleaved" else "same unit"), okc, loc_of(b), "",
                      "the amount consumed from the buffer is not the skip step converted to buffer units")
            adv = False
            for bl in b.blocks:
                for st_ in bl["s"]:
                    rv = st_["rv"]
                    if rv["r"] == "bin" and rv["op"].startswith("Add") and (direct(rv["a"]) or direct(rv["b"])):
                        adv = True
                    # or the remaining distance is counted down by the step (needed -= step)
                    if rv["r"] == "bin" and rv["op"].startswith("Sub") and direct(rv["b"]):
                        adv = True
            rep.check("C06.skip", "%s: the position advances by exactly the step" % path, adv, loc_of(b), "",
                      "the tracked position does not advance by the amount skipped: the loop stops early or late")

    # ---- C06.state / C06.table ---------------------------------------------------------------------------
    db = _get(F, rep, "C06.state", "decode::Decoder::seek")
    if db is not None:
        seeks = [(i, t) for i, t in db.calls() if (t["f"].get("path") or "") == "std::io::Seek::seek"]
        writes = [(bi, s) for bi, bl in enumerate(db.blocks) for s in bl["s"] if s["d"]["p"] and place_fields(s["d"])[-1:] == ["current_sample"]]
        rets = [(bi, s) for bi, s in agg_sites(db, "std::result::Result", "Ok") if s["d"]["l"] == 0]
        # one shared reposition fed by a (byte position, sample) pair chosen per arm is the same thing written once
        pairs = [s for bl in db.blocks for s in bl["s"] if s["rv"]["r"] == "agg" and s["rv"].get("ak") == "tuple" and len(s["rv"]["ops"]) == 2 and db.local_ty(s["d"]["l"]).replace(" ", "") == "(u64,u64)"]
        shared = len(seeks) == 1 and len(pairs) >= 2
        for s in pairs if shared else ():
            bsl = backward_slice(db, s["rv"]["ops"][0])
            to_pt = any(re.search(r"checked_add$", callee_name(c)) for c in bsl["calls"]) or "byte_offset" in bsl["fields"]
            if to_pt:
                goodp = "sample_offset" in _fields_deep(F, db, s["rv"]["ops"][1])
            else:
                goodp = op_int(s["rv"]["ops"][1]) == 0 and 2 in bsl["args"] and not bsl["calls"]
            rep.check("C06.state", "a byte target is paired with the sample position it belongs to (%s)" % ("seek point" if to_pt else "stream start"), goodp, db.loc(s["sp"]), "",
                      "the (byte position, sample) pair handed to the shared reposition does not belong together: current_sample would not describe where the reader was put")
        rep.check("C06.state", "every reposition has its own current_sample update", len(seeks) == len(writes) and (len(seeks) >= 2 or shared), loc_of(db), "%d seeks, %d updates" % (len(seeks), len(writes)),
                  "%d repositionings of the underlying reader but %d updates of current_sample: the decoder's sample counter goes stale on some path" % (len(seeks), len(writes)))
        for si, st in seeks:
            mine = [(bi, s) for bi, s in writes if db.dominates(si, bi) and not any(db.dominates(si, sj) and db.dominates(sj, bi) and sj != si for sj, _ in seeks)]
            tgt = backward_slice(db, st["a"][1])
            to_point = any(re.search(r"checked_add$", callee_name(c)) for c in tgt["calls"]) or "byte_offset" in tgt["fields"]
            good = len(mine) == 1
            detail = ""
            if good:
                w = mine[0][1]
                if to_point:
                    good = "sample_offset" in _fields_deep(F, db, w["rv"]["o"]) if w["rv"]["r"] == "use" else False
                    detail = "current_sample = the point's sample_offset"
                else:
                    good = w["rv"]["r"] == "use" and op_int(w["rv"]["o"]) == 0
                    detail = "current_sample = 0 at the stream start"
                # and the Ok value returned on that path equals it
                myrets = [(bi, s) for bi, s in rets if db.dominates(mine[0][0], bi)]
                if good and myrets:
                    r = myrets[0][1]["rv"]["ops"][0]
                    good = (op_int(r) == 0) if not to_point else ("sample_offset" in _fields_deep(F, db, r))
                else:
                    good = False
            rep.check("C06.state", "reposition to %s sets current_sample and returns the same position" % ("a seek point" if to_point else "the stream start"), good, loc_of(db, st), detail,
                      "after seeking the underlying reader, current_sample is not set to the position sought (or another value is returned)")
            # the seek result is checked before the state changes
            f = ok.path_facts(db).get(mine[0][0], TOP) if mine else TOP
            rep.check("C06.state", "state is updated only after the underlying seek succeeded", mine and fact_match(f, "call-ok", r"Seek::seek$"), loc_of(db, st))
        # table lookup
        cl = F.closures_of(db)
        le = False
        for cb in cl:
            for c2 in [cb] + F.closures_of(cb):
                for bl in c2.blocks:
                    for s in bl["s"]:
                        if s["rv"]["r"] == "bin" and s["rv"]["op"] == "Le":
                            le = True
        names = [strip_generics(callee_name(t)).rsplit("::", 1)[-1] for c2 in [db] + cl for _, t in c2.calls()]
        # idioms for "the last element satisfying the predicate": filter(p).next_back() / filter(p).last() / rev().find(p) / rfind(p)
        finds = "find" in names or "find_map" in names
        last_idiom = ("filter" in names and ("next_back" in names or "last" in names)) or ("rev" in names and finds) or "rfind" in names
        first_idiom = ("filter" in names and "next" in names and "next_back" not in names and "last" not in names) or (finds and "rev" not in names)
        rep.check("C06.table", "seek point = last point with sample_offset <= target (filter .. next_back)", le and last_idiom and not first_idiom, loc_of(db), str([n for n in names if n in ("filter", "next_back", "last", "rev", "find", "rfind", "next")]))
        ca = [t for _, t in db.calls() if re.search(r"<impl u64>::checked_add$", callee_name(t))]
        goodca = len(ca) == 1 and 2 in backward_slice(db, ca[0]["a"][0])["args"] and "byte_offset" in _fields_deep(F, db, ca[0]["a"][1])
        rep.check("C06.table", "byte target = position of the first frame + the point's byte offset (checked)", goodca, loc_of(db))

    # ---- C06.inval ------------------------------------------------------------------------------------------
    for path, kind in (("<decode::FlacByteReader<R, E> as std::io::Seek>::seek", "clear"), ("decode::FlacSampleReader::seek", "clear"), ("decode::FlacChannelReader::seek", "consumed")):
        b = _get(F, rep, "C06.inval", path)
        if b is None:
            continue
        ds = call_blocks(b, r"decode::Decoder::seek$")
        fills = [i for i, t in b.calls() if re.search(r"::fill_buf$", callee_name(t))]
        if len(ds) != 1:
            rep.bad("C06.inval", "%s: anchor Decoder::seek" % strip_generics(path), loc_of(b), "%d calls" % len(ds))
            continue
        si = ds[0][0]
        if kind == "clear":
            inv = [i for i, t in b.calls() if re.search(r"VecDeque::<T, A>::clear$", callee_name(t))]
            # equivalent ways to empty the buffer: drain(..) over the full range, truncate(0)
            inv += [i for i, t in b.calls() if re.search(r"VecDeque::<T, A>::drain$", callee_name(t)) and "RangeFull" in " ".join(t["aty"])]
            inv += [i for i, t in b.calls() if re.search(r"VecDeque::<T, A>::truncate$", callee_name(t)) and op_int(t["a"][1]) == 0]
        else:
            inv = []
            for bi, bl in enumerate(b.blocks):
                for s in bl["s"]:
                    if s["d"]["p"] and place_fields(s["d"])[-1:] == ["consumed"]:
                        sl = backward_slice(b, s["rv"]["o"]) if s["rv"]["r"] == "use" else {"calls": []}
                        if any(strip_generics(callee_name(c)) == "audio::Frame::pcm_frames" for c in sl["calls"]):
                            inv.append(bi)
        good = len(inv) == 1 and b.dominates(si, inv[0]) and all(b.dominates(inv[0], f) for f in fills) and len(fills) >= 1
        f = ok.path_facts(b).get(inv[0], TOP) if inv else TOP
        good = good and fact_match(f, "call-ok", r"decode::Decoder::seek$")
        rep.check("C06.inval", "%s discards its buffered data after a successful Decoder::seek and before skipping forward" % strip_generics(path), good, loc_of(b), "",
                  "data buffered before the seek can be handed out after it (no %s between Decoder::seek and the skip loop)" % ("buf.clear()" if kind == "clear" else "consumed = pcm_frames()"))
        # no success exit between the coarse seek and the invalidation: every Ok(..) written to the return place that
        # follows Decoder::seek is dominated by the discard (a shortcut "landed exactly on the seek point" keeps stale data)
        if len(inv) == 1:
            oks = [bi for bi, s in agg_sites(b, "std::result::Result", "Ok") if s["d"]["l"] == 0 and not s["d"]["p"]]
            early = [bi for bi in oks if b.dominates(si, bi) and not b.dominates(inv[0], bi)]
            rep.check("C06.inval", "%s: no success return between Decoder::seek and the discard of the buffered data" % strip_generics(path), not early and len(oks) >= 1, loc_of(b), "%d Ok exits" % len(oks),
                      "a success return after Decoder::seek bypasses the %s: samples buffered before the seek are delivered first at the new position" % ("buf.clear()" if kind == "clear" else "consumed = pcm_frames()"))
    for path in ("decode::FlacSampleReader::seek", "decode::FlacChannelReader::seek"):
        b = _get(F, rep, "C06.end", path)
        if b is not None:
            rep.check("C06.end", "%s reports InvalidSeek when the stream ends before the target" % path, len(agg_sites(b, "Error", "InvalidSeek")) >= 1, loc_of(b))
            # no success exit that bypasses the decoder: every Ok(()) of the front-end follows a successful Decoder::seek
            pfs = ok.path_facts(b)
            bypass = [b.loc(s_["sp"]) for bi, s_ in agg_sites(b, "std::result::Result", "Ok") if s_["d"]["l"] == 0 and not s_["d"]["p"] and pfs.get(bi, TOP) is not TOP and
                      not fact_match(pfs.get(bi, TOP), "call-ok", r"decode::Decoder::seek$")]
            rep.check("C06.state", "%s: every success exit follows a successful Decoder::seek" % path, not bypass, loc_of(b), "",
                      "%s can report success without repositioning the decoder (%s): a shortcut that trusts the buffered data's alignment / position" % (path, bypass))
    from rules import castlib
    rep.floor("C06.cast", "narrowing casts inspected", castlib.cast_audit(ctx, rep, "C06", ['decode.rs']), 1)
    from rules import iolib
    iolib.count_rules(ctx, rep, "C06")
    from rules import C09 as _C09
    compose(ctx, rep, "C09", "C06.enc", r"^C09\.(units|start|count)$")
