"""Engine C: termination structure (CFG cycles, call-graph recursion, unbounded iterator sources) and allocation sizes."""
import sys
from core import *

FINITE_ITER = re.compile(
    r"std::slice::(Iter|IterMut|Chunks|ChunksMut|ChunksExact|ChunksExactMut|RChunks|RChunksMut|Windows)<|std::ops::Range<|std::ops::RangeInclusive<|"
    r"std::vec::IntoIter<|std::vec::Drain<|std::collections::vec_deque::(Iter|IterMut|Drain|IntoIter)<|std::str::(Lines|Chars|Split|SplitN|CharIndices|Bytes)<|"
    r"arrayvec::(IntoIter|Drain)<|std::array::IntoIter<|std::option::(Iter|IterMut|IntoIter)<|std::iter::Once<|std::iter::Empty<|std::iter::RepeatN<|"
    r"audio::MultiZip<|std::boxed::Box<dyn std::iter::Iterator|stream::FrameIterator<|metadata::BlockIterator<|decode::FlacSampleIterator<|"
    r"<[A-Z] as std::iter::IntoIterator>::IntoIter|std::iter::Peekable<|std::iter::FromFn<")
INFINITE_SRC = re.compile(r"^std::iter::(repeat|repeat_with|from_fn|successors)$|Iterator::cycle$")
ALLOC = re.compile(r"(Vec|VecDeque)::<T, A>::(with_capacity|resize|resize_with|reserve|reserve_exact)$|(Vec|String)::<.*>::with_capacity$|String::with_capacity$|std::vec::from_elem$|"
                   r"bitstream_io::(BitRead|ByteRead)::read_to_vec$|Contiguous::<MAX, T>::with_capacity$")
ALLOC_LIMIT = 1 << 27


def cfg_sccs(b):
    idx, low, st, on, out, c = {}, {}, [], set(), [], [0]
    sys.setrecursionlimit(20000)

    def dfs(v):
        idx[v] = low[v] = c[0]
        c[0] += 1
        st.append(v)
        on.add(v)
        for w in b.succs(v):
            if b.blocks[w]["cleanup"]:
                continue
            if w not in idx:
                dfs(w)
                low[v] = min(low[v], low[w])
            elif w in on:
                low[v] = min(low[v], idx[w])
        if low[v] == idx[v]:
            comp = []
            while True:
                w = st.pop()
                on.discard(w)
                comp.append(w)
                if w == v:
                    break
            if len(comp) > 1 or v in b.succs(v):
                out.append(sorted(comp))
    dfs(0)
    return out


def acyclic_without(b, comp, removed):
    """is the sub-graph induced by comp minus removed acyclic?"""
    nodes = set(comp) - set(removed)
    color = {}

    def dfs(v):
        color[v] = 1
        for w in b.succs(v):
            if w not in nodes:
                continue
            if color.get(w) == 1:
                return False
            if w not in color and not dfs(w):
                return False
        color[v] = 2
        return True
    for v in nodes:
        if v not in color and not dfs(v):
            return False
    return True


def call_sccs(cg, keys):
    idx, low, st, on, comps, c = {}, {}, [], set(), [], [0]

    def dfs(v):
        idx[v] = low[v] = c[0]
        c[0] += 1
        st.append(v)
        on.add(v)
        for w in cg.edges.get(v, ()):
            if w not in keys:
                continue
            if w not in idx:
                dfs(w)
                low[v] = min(low[v], low[w])
            elif w in on:
                low[v] = min(low[v], idx[w])
        if low[v] == idx[v]:
            comp = []
            while True:
                w = st.pop()
                on.discard(w)
                comp.append(w)
                if w == v:
                    break
            if len(comp) > 1 or v in cg.edges.get(v, ()):
                comps.append(sorted(comp))
    for v in sorted(keys):
        if v not in idx:
            dfs(v)
    return comps


def fn_key(b):
    fn = strip_generics(b.path) if not b.path.startswith("<") else b.path
    return re.sub(r"\{closure#\d+\}", "{closure}", fn)


def check(F, cg, prog, reach, rep, P, audit):
    """run engine C over the bodies in `reach`; audit = spec/audit_loops.json"""
    aloops, aallocs, arec, asrc = audit["loops"], audit["allocs"], audit["recursion"], audit["infinite_sources"]
    nl = na = 0
    alloc_seen = {}
    for k in sorted(reach):
        b = F.by_key.get(k)
        if b is None or b.promoted is not None:
            continue
        key = fn_key(b)
        # ---- cycles
        for comp in cfg_sccs(b):
            nl += 1
            nexts = [(i, b.blocks[i]["t"]) for i in comp if b.blocks[i]["t"] and b.blocks[i]["t"]["t"] == "call" and (b.blocks[i]["t"]["f"].get("path") == "std::iter::Iterator::next" or re.search(r"Iterator>?::next$", callee_name(b.blocks[i]["t"])))]
            good = False
            detail = ""
            for i, t in nexts:
                ity = t["aty"][0] if t["aty"] else ""
                if FINITE_ITER.search(ity) and acyclic_without(b, comp, [i]):
                    good = True
                    detail = "driven by next() on %s" % ity[:80]
            if good:
                rep.ok(P + ".loop", "%s: cycle driven by a finite iterator" % key, loc_of_block(b, comp[0]), detail)
                continue
            a = aloops.get(key)
            if a is None:
                rep.bad(P + ".loop", "%s: cycle without a recognised progress step" % key, loc_of_block(b, comp[0]),
                        "a loop of %s is neither driven by a finite iterator nor listed in spec/audit_loops.json with its progress call" % key)
                continue
            if a.get("progress") is None:
                # reviewed by hand: progress is not a call (e.g. a slice pattern that shrinks)
                rep.ok(P + ".loop", "%s: loop reviewed (%s)" % (key, a["why"]), loc_of_block(b, comp[0]), a["why"])
                continue
            prog_blocks = [i for i in comp if b.blocks[i]["t"] and b.blocks[i]["t"]["t"] == "call" and re.search(a["progress"], callee_name(b.blocks[i]["t"]))]
            okp = bool(prog_blocks) and acyclic_without(b, comp, prog_blocks)
            rep.check(P + ".loop", "%s: every trip around the loop passes %s" % (key, a["progress"]), okp, loc_of_block(b, comp[0]), a["why"],
                      "a path around the loop of %s avoids its progress step (%s): possible endless loop" % (key, a["progress"]))
        # ---- allocation sizes
        an = None
        for bi, t in b.calls():
            nm = callee_name(t)
            if not ALLOC.search(nm):
                continue
            na += 1
            if an is None:
                an = prog.analysis(b)
            st = an.state_at_term(bi)
            arg = t["a"][1] if len(t["a"]) > 1 else (t["a"][0] if t["a"] else None)
            if "from_elem" in nm or re.search(r"with_capacity$", nm) and len(t["a"]) == 1:
                arg = t["a"][-1]
            v = an.operand(st, arg) if (st is not None and arg is not None) else None
            hi = getattr(v, "hi", None)
            akey = "%s|%s" % (key, strip_generics(nm).rsplit("::", 1)[-1])
            if st is None or (hi is not None and hi <= ALLOC_LIMIT):
                rep.ok(P + ".alloc", "%s bounded" % akey, loc_of(b, t), "size %r" % (v,))
                continue
            alloc_seen[akey] = alloc_seen.get(akey, 0) + 1
            a = aallocs.get(akey)
            if a is None or alloc_seen[akey] > a["n"]:
                rep.bad(P + ".alloc", "%s: allocation size not bounded" % akey, loc_of(b, t),
                        "allocation of %r elements is neither bounded by the interval analysis nor audited (spec/audit_loops.json allocs): untrusted sizes must not drive allocation" % (v,))
            else:
                rep.ok(P + ".alloc", "%s audited#%d" % (akey, alloc_seen[akey]), loc_of(b, t), a["why"])
        # ---- unbounded iterator sources
        for bi, t in b.calls():
            nm = callee_name(t)
            rf = [s for s in b.blocks[bi]["s"] if s["rv"]["r"] == "agg" and s["rv"]["adt"] == "std::ops::RangeFrom"]
            if INFINITE_SRC.search(nm):
                a = asrc.get(key)
                rep.check(P + ".loop", "%s: unbounded source %s is consumed under a bound" % (key, nm.rsplit("::", 1)[-1]), a is not None and _bounded_consumer(b, t, a), loc_of(b, t),
                          a["why"] if a else "", "unbounded iterator source %s in %s is not consumed through %s" % (nm, key, a["consumer"] if a else "a listed bounded consumer"))
        for bi, bl in enumerate(b.blocks):
            for s in bl["s"]:
                if s["rv"]["r"] == "agg" and s["rv"]["adt"] == "std::ops::RangeFrom":
                    a = asrc.get(key)
                    rep.check(P + ".loop", "%s: RangeFrom is consumed under a bound" % key, a is not None, b.loc(s["sp"]), a["why"] if a else "",
                              "open-ended range in %s is not listed with its bounded consumer" % key)
    # ---- recursion
    comps = call_sccs(cg, reach)
    allowed = [set(x["members"]) for x in arec]
    for comp in comps:
        names = {re.sub(r"\{closure#\d+\}", "{closure}", strip_generics(x) if not x.startswith("<") else x) for x in comp}
        hit = [x for x, m in zip(arec, allowed) if names <= m]
        rep.check(P + ".rec", "call-graph cycle %s is audited" % sorted(names)[:3], bool(hit), "", hit[0]["why"] if hit else "",
                  "recursion among %s is not listed in spec/audit_loops.json: unbounded recursion on untrusted input must be ruled out" % sorted(names)[:4])
    rep.note(P + ".engineC", {"cfg_cycles": nl, "alloc_sites": na, "callgraph_cycles": len(comps)})
    return nl, na


def _bounded_consumer(b, t, a):
    # the value produced by the source must flow into the named consumer (zip / take / chain+take)
    d = t["d"]["l"]
    for bi, tt in b.calls():
        if re.search(a["consumer"], callee_name(tt)):
            return True
    return False


def loc_of_block(b, bi):
    t = b.blocks[bi]["t"]
    if t and "sp" in t:
        return "%s:%d" % (t["sp"]["file"], t["sp"]["line"])
    for s in b.blocks[bi]["s"]:
        return "%s:%d" % (s["sp"]["file"], s["sp"]["line"])
    return b.loc()


def loc_of(b, t):
    return "%s:%d" % (t["sp"]["file"], t["sp"]["line"])
