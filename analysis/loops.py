"""Engine C: termination structure (CFG cycles, call-graph recursion, unbounded iterator sources) and allocation sizes."""
import sys
from core import *

FINITE_ITER = re.compile(
    r"std::slice::(Iter|IterMut|Chunks|ChunksMut|ChunksExact|ChunksExactMut|RChunks|RChunksMut|Windows)<|std::ops::Range<|std::ops::RangeInclusive<|"
    r"std::vec::IntoIter<|std::vec::Drain<|std::collections::vec_deque::(Iter|IterMut|Drain|IntoIter)<|std::str::(Lines|Chars|Split|SplitN|CharIndices|Bytes)<|"
    r"arrayvec::(IntoIter|Drain)<|std::array::IntoIter<|std::option::(Iter|IterMut|IntoIter)<|std::iter::Once<|std::iter::Empty<|std::iter::RepeatN<|"
    r"audio::MultiZip<|std::boxed::Box<dyn std::iter::Iterator|stream::FrameIterator<|metadata::BlockIterator<|decode::FlacSampleIterator<|"
    r"<[A-Z] as std::iter::IntoIterator>::IntoIter|std::iter::Peekable<|std::iter::FromFn<")
INFINITE_SRC = re.compile(r"^std::iter::(repeat|repeat_with|from_fn|successors)$|Iterator::cycle$")
ALLOC = re.compile(r"(Vec|VecDeque)::<T, A>::(with_capacity|resize|resize_with|reserve|reserve_exact)$|(Vec|String)::<.*>::with_capacity$|String::with_capacity$|std::vec::from_elem$|"
                   r"bitstream_io::(BitRead|ByteRead)::read_to_vec$|Contiguous::<MAX, T>::with_capacity$")
ALLOC_LIMIT = 1 << 27
UNBOUNDED_TY = re.compile(r"std::iter::(Repeat|RepeatWith|Cycle|Successors)<|std::ops::RangeFrom<|std::io::(Bytes|Lines|Split)<")
ADAPTOR_TY = re.compile(r"std::iter::(Rev|Zip|Map|Enumerate|Skip|Take|StepBy|Chain|Copied|Cloned|Filter|FilterMap|Peekable|Inspect|TakeWhile|SkipWhile|Fuse|Flatten|FlatMap|MapWhile|Scan)<")


def finite_iter_type(ity):
    """the iterator type named in a `next()` call is finite: a known finite source, possibly wrapped in std adaptors, and
    no unbounded source anywhere in the type"""
    if UNBOUNDED_TY.search(ity):
        return False
    return bool(FINITE_ITER.search(ity))


def cfg_sccs(b):
    idx, low, st, on, out, c = {}, {}, [], set(), [], [0]
    sys.setrecursionlimit(20000)

    def dfs(v):
        idx[v] = low[v] = c[0]
        c[0] += 1
        st.append(v)
        on.add(v)
        for w in b.succs(v):
            if b.blocks[w]["cleanup"]:
                continue
            if w not in idx:
                dfs(w)
                low[v] = min(low[v], low[w])
            elif w in on:
                low[v] = min(low[v], idx[w])
        if low[v] == idx[v]:
            comp = []
            while True:
                w = st.pop()
                on.discard(w)
                comp.append(w)
                if w == v:
                    break
            if len(comp) > 1 or v in b.succs(v):
                out.append(sorted(comp))
    dfs(0)
    return out


def acyclic_without(b, comp, removed):
    """is the sub-graph induced by comp minus removed acyclic?"""
    nodes = set(comp) - set(removed)
    color = {}

    def dfs(v):
        color[v] = 1
        for w in b.succs(v):
            if w not in nodes:
                continue
            if color.get(w) == 1:
                return False
            if w not in color and not dfs(w):
                return False
        color[v] = 2
        return True
    for v in nodes:
        if v not in color and not dfs(v):
            return False
    return True


def counter_loop(b, comp):
    """a cycle driven by an integer local that moves by a non-zero constant on every trip and is compared with a
    loop-invariant value (while n > 0 { ..; n -= 1 } / while i < len { ..; i += 1 }).  Returns a description or None."""
    comp_set = set(comp)
    assigned = {}
    for bi in comp:
        for st in b.blocks[bi]["s"]:
            if not st["d"]["p"]:
                assigned.setdefault(st["d"]["l"], []).append((bi, st))
        t = b.blocks[bi]["t"]
        if t and t["t"] == "call" and not t["d"]["p"]:
            assigned.setdefault(t["d"]["l"], []).append((bi, t))

    def step_of(v):
        """(block, +k / -k) if v is updated exactly once in the cycle, by v +- const"""
        ups = [x for x in assigned.get(v, []) if isinstance(x[1], dict) and "rv" in x[1]]
        if len(ups) != 1 or len(assigned.get(v, [])) != 1:
            return None
        bi, st = ups[0]
        rv = st["rv"]
        src = None
        if rv["r"] == "bin" and rv["op"] in ("Add", "Sub"):
            src = rv
        elif rv["r"] == "use":
            p = op_place(rv["o"])
            if p and p["p"] and p["p"][0].startswith(".0"):
                for bj in comp:
                    for s2 in b.blocks[bj]["s"]:
                        if s2["d"]["l"] == p["l"] and not s2["d"]["p"] and s2["rv"]["r"] == "bin" and s2["rv"]["op"] in ("AddWithOverflow", "SubWithOverflow"):
                            src = s2["rv"]
        if src is None:
            return None
        k = op_int(src["b"])
        if k is None or k == 0 or op_local(src["a"]) != v:
            return None
        return bi, (k if src["op"].startswith("Add") else -k)
    for bi in comp:
        t = b.blocks[bi]["t"]
        if not t or t["t"] != "switch":
            continue
        if all(x in comp_set for x in b.succs(bi)):
            continue   # not an exit test
        l = op_local(t["o"])
        ds = [d for d in b.defs().get(l, []) if not d[2]["d"]["p"]] if l is not None else []
        if len(ds) != 1 or ds[0][1] == "T" or ds[0][2]["rv"]["r"] != "bin":
            continue
        rv = ds[0][2]["rv"]
        if rv["op"] not in ("Lt", "Le", "Gt", "Ge", "Ne"):
            continue
        for var, other in ((rv["a"], rv["b"]), (rv["b"], rv["a"])):
            v = op_local(var)
            if v is None:
                continue
            # look through a plain copy made inside the loop
            vv = v
            cp = [x for x in assigned.get(v, []) if "rv" in x[1] and x[1]["rv"]["r"] == "use" and op_local(x[1]["rv"]["o"]) is not None]
            if len(assigned.get(v, [])) == 1 and cp:
                vv = op_local(cp[0][1]["rv"]["o"])
            st_ = step_of(vv)
            if st_ is None:
                continue
            ol = op_local(other)
            if ol is not None and ol in assigned and not (len(assigned[ol]) == 1 and "rv" in assigned[ol][0][1] and assigned[ol][0][1]["rv"]["r"] == "use" and (op_local(assigned[ol][0][1]["rv"]["o"]) or -1) not in assigned):
                continue   # the bound changes inside the loop
            if acyclic_without(b, comp, [st_[0]]):
                return "counter _%d moves by %+d on every trip and is compared with a loop-invariant bound" % (vv, st_[1])
    return None


def sub_sccs(b, nodes):
    """strongly connected components (with a cycle) of the sub-graph induced by `nodes`"""
    nodes = set(nodes)
    idx, low, st, on, out, c = {}, {}, [], set(), [], [0]

    def dfs(v):
        idx[v] = low[v] = c[0]
        c[0] += 1
        st.append(v)
        on.add(v)
        for w in b.succs(v):
            if w not in nodes:
                continue
            if w not in idx:
                dfs(w)
                low[v] = min(low[v], low[w])
            elif w in on:
                low[v] = min(low[v], idx[w])
        if low[v] == idx[v]:
            comp = []
            while True:
                w = st.pop()
                on.discard(w)
                comp.append(w)
                if w == v:
                    break
            if len(comp) > 1 or v in b.succs(v):
                out.append(sorted(comp))
    for v in sorted(nodes):
        if v not in idx:
            dfs(v)
    return out


def nest_driven(b, comp, depth=0):
    """a (possibly nested) loop in which every cycle passes the next() of a finite iterator or a counter step:
    remove one driver, the rest must fall apart into loops that are driven themselves"""
    if depth > 4:
        return None
    drivers = []
    for i in comp:
        t = b.blocks[i]["t"]
        if t and t["t"] == "call" and (t["f"].get("path") == "std::iter::Iterator::next" or re.search(r"Iterator>?::next$", callee_name(t))):
            ity = t["aty"][0] if t["aty"] else ""
            if finite_iter_type(ity):
                drivers.append((i, "next() on %s" % ity[:60]))
    for i, why in drivers:
        rest = [x for x in comp if x != i]
        inner = sub_sccs(b, rest)
        if all(nest_driven(b, c2, depth + 1) or counter_loop(b, c2) for c2 in inner):
            return why + (" (with %d inner loop(s))" % len(inner) if inner else "")
    return None


def call_sccs(cg, keys):
    idx, low, st, on, comps, c = {}, {}, [], set(), [], [0]

    def dfs(v):
        idx[v] = low[v] = c[0]
        c[0] += 1
        st.append(v)
        on.add(v)
        for w in cg.edges.get(v, ()):
            if w not in keys:
                continue
            if w not in idx:
                dfs(w)
                low[v] = min(low[v], low[w])
            elif w in on:
                low[v] = min(low[v], idx[w])
        if low[v] == idx[v]:
            comp = []
            while True:
                w = st.pop()
                on.discard(w)
                comp.append(w)
                if w == v:
                    break
            if len(comp) > 1 or v in cg.edges.get(v, ()):
                comps.append(sorted(comp))
    for v in sorted(keys):
        if v not in idx:
            dfs(v)
    return comps


def fn_key(b):
    fn = strip_generics(b.path) if not b.path.startswith("<") else b.path
    return re.sub(r"\{closure#\d+\}", "{closure}", fn)


def check(F, cg, prog, reach, rep, P, audit):
    """run engine C over the bodies in `reach`; audit = spec/audit_loops.json"""
    aloops, aallocs, arec, asrc = audit["loops"], audit["allocs"], audit["recursion"], audit["infinite_sources"]
    nl = na = 0
    alloc_seen = {}
    for k in sorted(reach):
        b = F.by_key.get(k)
        if b is None or b.promoted is not None:
            continue
        key = fn_key(b)
        # ---- cycles
        for comp in cfg_sccs(b):
            nl += 1
            nexts = [(i, b.blocks[i]["t"]) for i in comp if b.blocks[i]["t"] and b.blocks[i]["t"]["t"] == "call" and (b.blocks[i]["t"]["f"].get("path") == "std::iter::Iterator::next" or re.search(r"Iterator>?::next$", callee_name(b.blocks[i]["t"])))]
            good = False
            detail = ""
            for i, t in nexts:
                ity = t["aty"][0] if t["aty"] else ""
                if finite_iter_type(ity) and acyclic_without(b, comp, [i]):
                    good = True
                    detail = "driven by next() on %s" % ity[:80]
            if good:
                rep.ok(P + ".loop", "%s: cycle driven by a finite iterator" % key, loc_of_block(b, comp[0]), detail)
                continue
            nd_ = nest_driven(b, comp)
            if nd_:
                rep.ok(P + ".loop", "%s: nested loops driven by finite iterators" % key, loc_of_block(b, comp[0]), nd_)
                continue
            cl_ = counter_loop(b, comp)
            if cl_:
                rep.ok(P + ".loop", "%s: counter loop" % key, loc_of_block(b, comp[0]), cl_)
                continue
            a = aloops.get(key)
            if a is None:
                rep.bad(P + ".loop", "%s: cycle without a recognised progress step" % key, loc_of_block(b, comp[0]),
                        "a loop of %s is neither driven by a finite iterator nor listed in spec/audit_loops.json with its progress call" % key)
                continue
            if a.get("progress") is None:
                # reviewed by hand: progress is not a call (e.g. a slice pattern that shrinks)
                rep.ok(P + ".loop", "%s: loop reviewed (%s)" % (key, a["why"]), loc_of_block(b, comp[0]), a["why"])
                continue
            prog_blocks = [i for i in comp if b.blocks[i]["t"] and b.blocks[i]["t"]["t"] == "call" and re.search(a["progress"], callee_name(b.blocks[i]["t"]))]
            okp = bool(prog_blocks) and acyclic_without(b, comp, prog_blocks)
            rep.check(P + ".loop", "%s: every trip around the loop passes %s" % (key, a["progress"]), okp, loc_of_block(b, comp[0]), a["why"],
                      "a path around the loop of %s avoids its progress step (%s): possible endless loop" % (key, a["progress"]))
        # ---- allocation sizes
        an = None
        for bi, t in b.calls():
            nm = callee_name(t)
            if not ALLOC.search(nm):
                continue
            na += 1
            if an is None:
                an = prog.analysis(b)
            st = an.state_at_term(bi)
            arg = t["a"][1] if len(t["a"]) > 1 else (t["a"][0] if t["a"] else None)
            if "from_elem" in nm or re.search(r"with_capacity$", nm) and len(t["a"]) == 1:
                arg = t["a"][-1]
            v = an.operand(st, arg) if (st is not None and arg is not None) else None
            hi = getattr(v, "hi", None)
            akey = "%s|%s" % (key, strip_generics(nm).rsplit("::", 1)[-1])
            if st is None or (hi is not None and hi <= ALLOC_LIMIT):
                rep.ok(P + ".alloc", "%s bounded" % akey, loc_of(b, t), "size %r" % (v,))
                continue
            alloc_seen[akey] = alloc_seen.get(akey, 0) + 1
            a = aallocs.get(akey)
            if a is None or alloc_seen[akey] > a["n"]:
                rep.bad(P + ".alloc", "%s: allocation size not bounded" % akey, loc_of(b, t),
                        "allocation of %r elements is neither bounded by the interval analysis nor audited (spec/audit_loops.json allocs): untrusted sizes must not drive allocation" % (v,))
            else:
                rep.ok(P + ".alloc", "%s audited#%d" % (akey, alloc_seen[akey]), loc_of(b, t), a["why"])
        # ---- unbounded iterator sources
        for bi, t in b.calls():
            nm = callee_name(t)
            rf = [s for s in b.blocks[bi]["s"] if s["rv"]["r"] == "agg" and s["rv"]["adt"] == "std::ops::RangeFrom"]
            if INFINITE_SRC.search(nm):
                a = asrc.get(key)
                rep.check(P + ".loop", "%s: unbounded source %s is consumed under a bound" % (key, nm.rsplit("::", 1)[-1]), a is not None and _bounded_consumer(b, t, a), loc_of(b, t),
                          a["why"] if a else "", "unbounded iterator source %s in %s is not consumed through %s" % (nm, key, a["consumer"] if a else "a listed bounded consumer"))
        for bi, bl in enumerate(b.blocks):
            for s in bl["s"]:
                if s["rv"]["r"] == "agg" and s["rv"]["adt"] == "std::ops::RangeFrom":
                    # `x[n..]`: the range is an index, not an iterator
                    dl_ = s["d"]["l"]
                    as_index = [t for _, t in b.calls() if re.search(r"(Index|IndexMut)<.*>( for .*)?>::(index|index_mut)$|<impl \[T\]>::(get|get_mut)$|<impl str>::get$", callee_name(t)) and
                                any(op_local(a_) == dl_ or any(k_ == "agg" and x_ is s["rv"] for k_, x_ in origins(b, a_)) for a_ in t["a"][1:] if isinstance(a_, dict) and op_place(a_) is not None)]
                    if as_index:
                        continue
                    a = asrc.get(key)
                    rep.check(P + ".loop", "%s: RangeFrom is consumed under a bound" % key, a is not None, b.loc(s["sp"]), a["why"] if a else "",
                              "open-ended range in %s is not listed with its bounded consumer" % key)
    # ---- recursion
    comps = call_sccs(cg, reach)
    allowed = [set(x["members"]) for x in arec]
    norm = lambda x: re.sub(r"\{closure#\d+\}", "{closure}", strip_generics(x) if not x.startswith("<") else x)
    try:
        import json as _json, os as _os
        reviewed = {norm(k) for k in _json.load(open(_os.path.join(_os.path.dirname(_os.path.dirname(_os.path.abspath(__file__))), "spec", "known_functions.json")))}
    except Exception:
        reviewed = None
    for comp in comps:
        names = {norm(x) for x in comp}
        hit = [x for x, m in zip(arec, allowed) if names <= m]
        if not hit and reviewed is not None:
            # a helper that did not exist in the reviewed tree joined an audited cycle (the class-hierarchy over-approximation
            # links everything that mentions the same type): judged on its reviewed members; a cycle made only of new
            # functions, or one that pulls in reviewed functions that were not cyclic before, is still reported
            old = {n for n in names if n in reviewed or re.sub(r"::\{closure\}.*$", "", n) in reviewed}
            if old:
                hit = [x for x, m in zip(arec, allowed) if old <= m]
            if not hit and old:
                # a closure of an already audited cyclic function joined its cycle (same over-approximation, seen through
                # the closure): judged on the enclosing functions
                outer = {re.sub(r"::\{closure\}.*$", "", n) for n in old}
                hit = [x for x, m in zip(arec, allowed) if outer <= {re.sub(r"::\{closure\}.*$", "", y) for y in m} and outer & m]
        rep.check(P + ".rec", "call-graph cycle %s is audited" % sorted(names)[:3], bool(hit), "", hit[0]["why"] if hit else "",
                  "recursion among %s is not listed in spec/audit_loops.json: unbounded recursion on untrusted input must be ruled out" % sorted(names)[:4])
    rep.note(P + ".engineC", {"cfg_cycles": nl, "alloc_sites": na, "callgraph_cycles": len(comps)})
    return nl, na


def _bounded_consumer(b, t, a):
    # the value produced by the source must flow into the named consumer (zip / take / chain+take)
    d = t["d"]["l"]
    for bi, tt in b.calls():
        if re.search(a["consumer"], callee_name(tt)):
            return True
    return False


def loc_of_block(b, bi):
    t = b.blocks[bi]["t"]
    if t and "sp" in t:
        return "%s:%d" % (t["sp"]["file"], t["sp"]["line"])
    for s in b.blocks[bi]["s"]:
        return "%s:%d" % (s["sp"]["file"], s["sp"]["line"])
    return b.loc()


def loc_of(b, t):
    return "%s:%d" % (t["sp"]["file"], t["sp"]["line"])
