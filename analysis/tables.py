"""Engine A1: code tables of readers/writers by conditional constant propagation (peval)."""
from core import *
from peval import *

OK = lambda v: ("adt", "std::result::Result", "Ok", 0, [v])


def targs(t):
    return [a for a in t["f"]["args"] if not a.startswith("'")][1:]


def _is(t, method):
    p = t["f"].get("path") or ""
    return p == "bitstream_io::BitRead::" + method or p == "bitstream_io::BitWrite::" + method or p == "bitstream_io::ByteRead::" + method


def terminal(t):
    """describe a bit-I/O terminal call: (kind, width or nonterminal) or None"""
    p = t["f"].get("path") or ""
    if not (p.startswith("bitstream_io::BitRead::") or p.startswith("bitstream_io::BitWrite::") or p.startswith("bitstream_io::ByteRead::")):
        return None
    m = p.rsplit("::", 1)[1]
    a = targs(t)
    return (m, a)


def reader_table(F, body, width, ctx_values=(None,), first_read="read", extra_reads_unknown=True, start_env=None):
    """code -> outcome (value of _0 at return, or the stop reason) for each context value"""
    out = {}
    for cv in ctx_values:
        for code in range(1 << width):
            state = {"n": 0}

            def on_call(pe, env, t, name, args, code=code, state=state):
                if _is(t, first_read) and state["n"] == 0:
                    a = targs(t)
                    if a and a[0] == str(width):
                        state["n"] += 1
                        return OK(code)
                term = terminal(t)
                if term is not None:
                    state["n"] += 1
                    m, a = term
                    if m in ("read", "read_to", "read_var", "read_unsigned", "read_signed", "read_counted", "read_signed_counted", "read_unary"):
                        return OK(("sym", "%s<%s>#%d" % (m, ",".join(a[:1]), state["n"])))
                    if m in ("skip", "read_const", "byte_align", "pad"):
                        return OK(("tuple", []))
                    if m in ("read_bit",):
                        return OK(("sym", "bit#%d" % state["n"]))
                    if m.startswith("parse"):
                        return OK(("sym", "parse<%s>#%d" % (a[0] if a else "?", state["n"])))
                    return OK(UNK)
                return None
            pe = PEval(F, body, on_call)
            env = dict(start_env or {})
            env.setdefault(1, ("sym", "reader"))
            if cv is not None:
                env[2] = cv
            r = run_region(pe, env, 0)
            if r[0] == "ret":
                v = r[1].get(0, UNK)
                out[(show(cv) if cv is not None else None, code)] = ("ret", v)
            else:
                out[(show(cv) if cv is not None else None, code)] = ("stop", r[1])
    return out


def enum_values(F, adt_path, payload_syms=True, _depth=0):
    """all variant values of a local enum; payload enums are expanded, other payloads symbolic"""
    ad = F.adts.get(adt_path)
    if ad is None:
        return []
    out = []
    for var in ad["variants"]:
        fields_opts = [[]]
        for fi, f in enumerate(var["fields"]):
            bp = base_path(f["ty"])
            if bp in F.adts and F.adts[bp]["kind"] == "Enum" and _depth < 2:
                sub = enum_values(F, bp, payload_syms, _depth + 1)
                fields_opts = [fo + [s] for fo in fields_opts for s in sub]
            else:
                fields_opts = [fo + [("sym", "%s.%s" % (var["name"], f["name"]))] for fo in fields_opts]
        for fo in fields_opts:
            out.append(("adt", adt_path, var["name"], var["idx"], fo))
    return out


def writer_table(F, body, adt_path, self_is_ref=True, extra_env=None):
    """variant value -> list of (terminal, generic args, argument values) recorded up to return"""
    out = {}
    for val in enum_values(F, adt_path):
        rec = []

        def on_call(pe, env, t, name, args, rec=rec):
            term = terminal(t)
            if term is not None:
                m, a = term
                rec.append((m, a, [show(x) for x in args[1:]], args[1:]))
                return OK(("tuple", []))
            return None
        pe = PEval(F, body, on_call)
        env = dict(extra_env or {})
        env[1] = ("ref", val) if self_is_ref else val
        env.setdefault(2, ("sym", "writer"))
        r = run_region(pe, env, 0)
        out[show(val)] = {"value": val, "terminals": rec, "end": r[0], "why": r[1] if r[0] == "stop" else None,
                          "ret": r[1].get(0, UNK) if r[0] == "ret" else None}
    return out


def int_fn_table(F, body, values, arg_local=1):
    """outcome of a loop-free function for each representative integer argument"""
    out = {}
    for v in values:
        pe = PEval(F, body, None)
        env = {arg_local: v}
        r = run_region(pe, env, 0)
        out[v] = ("ret", r[1].get(0, UNK)) if r[0] == "ret" else ("stop", r[1])
    return out


def compare_constants(body, local_filter=None):
    """integer constants that appear in comparisons or switch arms of the body (interval boundaries)"""
    cs = set()
    for bl in body.blocks:
        if bl["cleanup"]:
            continue
        for s in bl["s"]:
            rv = s["rv"]
            if rv["r"] == "bin" and rv["op"] in ("Eq", "Ne", "Lt", "Le", "Gt", "Ge"):
                for o in (rv["a"], rv["b"]):
                    v = op_int(o)
                    if v is not None:
                        cs.add(v)
        t = bl["t"]
        if t and t["t"] == "switch":
            for v, _ in t["v"]:
                cs.add(v)
    return cs


def representatives(consts, lo, hi):
    """one representative per interval induced by the constants, plus the boundaries themselves"""
    pts = set()
    for c in consts:
        for d in (-1, 0, 1):
            if lo <= c + d <= hi:
                pts.add(c + d)
    pts.add(lo)
    pts.add(hi)
    return sorted(pts)
