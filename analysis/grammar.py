"""Engine A2/A3: bit-field grammar of a (de)serialiser as the set of terminal sequences along its success paths.

A terminal is a bitstream-io call: read::<N,_> / write::<N,_> -> ("b", N); read_to::<T> / write_from::<T> -> ("b", bits of T);
read_bit/write_bit -> ("b", 1); skip(n)/pad(n) -> ("p", n); parse*/build* of T -> ("nt", T); read_to_vec/write_bytes ->
("bytes",); read_as_to::<E,T>/write_as_from::<E,T> -> ("le", bits); read_count::<M>/write_count -> ("cnt", M);
read_unary/write_unary -> ("un", stop bit); read_const::<N,V>/write_const::<N,V> -> ("k", N, V);
read_signed_counted / write_signed_counted / read_counted / write_checked .. -> ("var",).
Paths: depth-first over the CFG; `?` error edges and explicit `Err` returns are dropped; each block is visited at most
once per path (loop bodies appear once and their terminals are starred); closures handed to iterator adaptors and
small local helper functions are spliced in at the call (starred for closures, since they run per element).
"""
from core import *

TY_BITS = {"u8": 8, "u16": 16, "u32": 32, "u64": 64, "i8": 8, "i16": 16, "i32": 32, "i64": 64, "bool": 1}


def ty_bits(t):
    t = t.strip()
    if t in TY_BITS:
        return TY_BITS[t]
    m = re.match(r"^\[u8; (\d+)\]$", t)
    if m:
        return 8 * int(m.group(1))
    m = re.match(r"^std::option::Option<std::num::NonZero<(\w+)>>$|^std::num::NonZero<(\w+)>$", t)
    if m:
        return None
    return None


def term_of(body, t):
    p = t["f"].get("path") or ""
    if not (p.startswith("bitstream_io::BitRead::") or p.startswith("bitstream_io::BitWrite::")):
        return None
    m = p.rsplit("::", 1)[1]
    a = [x for x in t["f"]["args"] if not x.startswith("'")][1:]
    if m in ("read", "write"):
        return ("b", int(a[0])) if a and a[0].isdigit() else ("b", a[0] if a else "?")
    if m in ("read_to", "write_from"):
        tb = ty_bits(a[0]) if a else None
        return ("b", tb) if tb else ("t", a[0] if a else "?")
    if m in ("read_bit", "write_bit"):
        return ("b", 1)
    if m in ("skip", "pad"):
        v = const_arg(body, t["a"][1]) if len(t["a"]) > 1 else None
        return ("p", v if v is not None else "dyn")
    if m in ("parse", "parse_with", "parse_using", "build", "build_with", "build_using"):
        ty = a[-1] if m.startswith("parse") else (a[0] if a else "?")
        ty = a[0] if a else "?"
        return ("nt", re.sub(r"^&", "", ty))
    if m in ("read_to_vec", "write_bytes", "read_bytes"):
        return ("bytes",)
    if m in ("read_as_to", "write_as_from"):
        en = a[0].rsplit("::", 1)[-1] if a else "?"
        return ("le" if en == "LittleEndian" else "be" if en == "BigEndian" else en, ty_bits(a[1]) if len(a) > 1 else "?")
    if m in ("read_count", "write_count"):
        return ("cnt", a[0] if a else "?")
    if m in ("read_unary", "write_unary"):
        return ("un", a[0] if a else "?")
    if m in ("read_const", "write_const"):
        return ("k", a[0], a[1]) if len(a) > 1 else ("k",)
    if m in ("byte_align", "byte_aligned"):
        return ("align",)
    if m in ("read_signed_counted", "write_signed_counted", "read_counted", "write_counted", "write_checked", "read_checked", "read_var", "write_var", "read_unsigned_counted", "write_unsigned_counted"):
        return ("var",)
    return ("other", m)


def const_arg(body, o, depth=6):
    """integer value of an operand that is a constant, possibly through copies / constant arithmetic"""
    v = op_int(o)
    if v is not None:
        return v
    l = op_local(o)
    if l is None or depth <= 0:
        return None
    ds = [d for d in body.defs().get(l, []) if not d[2]["d"]["p"]]
    if len(ds) != 1 or ds[0][1] == "T":
        return None
    rv = ds[0][2]["rv"]
    if rv["r"] in ("use", "cast"):
        return const_arg(body, rv["o"], depth - 1)
    if rv["r"] == "bin":
        a, b = const_arg(body, rv["a"], depth - 1), const_arg(body, rv["b"], depth - 1)
        if a is not None and b is not None:
            op = rv["op"].replace("WithOverflow", "")
            return {"Add": a + b, "Mul": a * b, "Sub": a - b}.get(op)
    return None


def _star(seq):
    return tuple(("*",) + x if x and x[0] != "*" else x for x in seq)


class Grammar:
    def __init__(self, F, max_paths=3000, inline=None):
        self.F = F
        self.max_paths = max_paths
        self.memo = {}
        self.inline = inline or (lambda name: False)

    def sigs(self, body, depth=0):
        """set of terminal sequences (tuples) along the success paths of body"""
        key = body.key
        if key in self.memo:
            return self.memo[key]
        self.memo[key] = {()}   # recursion guard
        out = set()
        count = [0]
        err_blocks = set()
        for bi, bl in enumerate(body.blocks):
            for s in bl["s"]:
                rv = s["rv"]
                if s["d"]["l"] == 0 and not s["d"]["p"] and rv["r"] == "agg" and rv["ak"] == "adt" and rv["adt"] == "std::result::Result" and rv["var"] == "Err":
                    err_blocks.add(bi)
            t = bl["t"]
            if t and t["t"] == "call" and re.search(r"from_residual$", callee_name(t)):
                err_blocks.add(bi)

        inloop = self._loop_blocks(body)

        def walk(bi, seq, seen):
            if count[0] > self.max_paths:
                return
            n = seen.count(bi)
            if n >= (2 if bi in inloop else 1):
                return
            bl = body.blocks[bi]
            if bl["cleanup"] or bi in err_blocks:
                return
            seen = seen + (bi,)
            t = bl["t"]
            if t is None:
                return
            k = t["t"]
            if k == "ret":
                count[0] += 1
                out.add(tuple(seq))
                return
            if k == "call":
                add = []
                tm = term_of(body, t)
                if tm is not None:
                    add = [tm]
                else:
                    nm = callee_name(t)
                    f = t["f"]
                    # closures run per element: splice their terminals, starred
                    for c in t["cls"]:
                        cb = self.F.body(c)
                        if cb is not None and cb.kind == "Closure" and depth < 4:
                            ss = self.sigs(cb, depth + 1)
                            alt = sorted(ss, key=len)[-1] if ss else ()
                            add += list(_star(alt))
                    if f.get("res") and f.get("res_local") and depth < 3 and self.inline(f["res"]):
                        cb = self.F.body(f["res"])
                        if cb is not None:
                            ss = self.sigs(cb, depth + 1)
                            if len(ss) == 1:
                                add += list(next(iter(ss)))
                            elif ss:
                                for alt in ss:
                                    if t["to"] is not None:
                                        walk(t["to"], seq + add + list(alt), seen)
                                return
                if t["to"] is not None:
                    walk(t["to"], seq + add, seen)
                return
            if k == "switch":
                # `?`: only the Continue edge
                l = op_local(t["o"])
                ds = body.defs().get(l, []) if l is not None else []
                if len(ds) == 1 and ds[0][1] != "T" and ds[0][2]["rv"]["r"] == "disc":
                    src = ds[0][2]["rv"]["p"]
                    sd = body.defs().get(src["l"], []) if not src["p"] else []
                    if len(sd) == 1 and sd[0][1] == "T" and re.search(r"Try>::branch$|::Try::branch$", callee_name(sd[0][2])):
                        for v, tb in t["v"]:
                            if v == 0:
                                walk(tb, seq, seen)
                        return
                for tb in body.succs(bi):
                    walk(tb, seq, seen)
                return
            for tb in body.succs(bi):
                walk(tb, seq, seen)
        # loops: mark terminals inside CFG cycles with a star afterwards
        walk(0, [], ())
        self.memo[key] = out
        return out

    def _loop_blocks(self, body):
        import loops
        s = set()
        for comp in loops.cfg_sccs(body):
            s |= set(comp)
        return s


def _subseq(a, b):
    """is a a (not necessarily contiguous) subsequence of b?"""
    it = iter(b)
    return all(any(x == y for y in it) for x in a)


def flat(sigs):
    """distinct terminal sequences with stars removed, keeping only maximal ones (a path that skips a loop is a
    subsequence of the path that runs it once)"""
    out = set()
    for seq in sigs:
        out.add(tuple(x[1:] if x and x[0] == "*" else x for x in seq))
    keep = set()
    for a in out:
        if not any(a != b and len(a) < len(b) and _subseq(a, b) for b in out):
            keep.add(a)
    return keep
